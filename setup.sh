#!/bin/bash
# One-time offline setup after a fresh restore: out-of-tree build of the real code (hooks on),
# regenerate Gen/*.lean, build every Lean target and the model driver.
set -e
cd "$(dirname "$0")"
python3 - <<'PY'
import sys
sys.path.insert(0, '.')
from lib import vlib
ok, out = vlib.build_opm()
print(out[-1500:])
if not ok:
    sys.exit(1)
# second tree: UBSan + bounds-checked libstdc++ containers (used by the C20 check)
ok, out = vlib.build_opm(hard=True)
print(out[-800:])
if not ok:
    sys.exit(1)
# third tree: AddressSanitizer (deck part of the C20 check)
ok, out = vlib.build_opm(asan=True)
print(out[-800:])
if not ok:
    sys.exit(1)
PY
python3 lib/regen_all.py
(cd lean && lake build)
