// C02 round 3: standalone reproduction of three inconsistencies between users of the unit tables.
#include <opm/input/eclipse/Parser/Parser.hpp>
#include <opm/input/eclipse/Parser/ParserKeyword.hpp>
#include <opm/input/eclipse/Parser/ParserRecord.hpp>
#include <opm/input/eclipse/Parser/ParserItem.hpp>
#include <opm/input/eclipse/Deck/Deck.hpp>
#include <opm/input/eclipse/EclipseState/EclipseState.hpp>
#include <opm/input/eclipse/EclipseState/Grid/FieldPropsManager.hpp>
#include <opm/input/eclipse/Schedule/UDQ/UDQEnums.hpp>
#include <opm/input/eclipse/Units/UnitSystem.hpp>
#include <iostream>
using namespace Opm;
static std::string deck(const std::string& units, const std::string& body) {
    return "RUNSPEC\nDIMENS\n 2 1 1 /\n" + units + "\nMECH\nTHERMAL\nGRID\nDX\n 2*10 /\nDY\n 2*10 /\nDZ\n 2*10 /\nTOPS\n 2*1000 /\nPORO\n 2*0.3 /\n" + body + "PROPS\nSOLUTION\nSCHEDULE\n";
}
static void run(const std::string& units, const std::string& kw, const std::string& body) {
    try {
        Parser parser; auto d = parser.parseString(deck(units, body));
        EclipseState es(d);
        std::cout << "  " << units << " " << kw << "[0] in SI = " << es.fieldProps().get_double(kw)[0] << "    <- " << body.substr(0, body.find('\n')) << " form\n";
    } catch (const std::exception& e) { std::cout << "  " << units << " " << kw << " EXCEPTION: " << e.what() << "    <- " << body.substr(0, body.find('\n')) << " form\n"; }
}
int main() {
    std::cout << "(1) the same value given as an array and through EQUALS:\n";
    for (const char* kw : {"YMODULE", "THELCOEF", "HEATCR"})
        for (const char* u : {"METRIC", "FIELD"}) {
            run(u, kw, std::string(kw) + "\n 2*5 /\n");
            run(u, kw, std::string("EQUALS\n ") + kw + " 5 /\n/\n");
        }
    std::cout << "(2) uda_dim(control) vs the dimension of the control's deck item (FIELD):\n";
    UnitSystem f(UnitSystem::UnitType::UNIT_TYPE_FIELD);
    Parser parser;
    const auto& it = parser.getKeyword("WCONPROD").getRecord(0).get("RESV");
    std::cout << "  WCONPROD RESV item dimension '" << it.dimensions().front() << "' factor " << f.parse(it.dimensions().front()).getSIScaling()
              << ", uda_dim(WCONPROD_RESV) factor " << f.uda_dim(UDAControl::WCONPROD_RESV).getSIScaling() << "\n";
    const auto& alq = parser.getKeyword("WCONPROD").getRecord(0).get("ALQ");
    std::cout << "  WCONPROD ALQ item has " << alq.dimensions().size() << " dimensions (factor 1), uda_dim(WCONPROD_LIFT) factor "
              << UnitSystem::newMETRIC().uda_dim(UDAControl::WCONPROD_LIFT).getSIScaling() << " (METRIC)\n";
}
