// C13 side observation (b): EclIO::EGrid leaves `nactive` uninitialised when the file has no
// ACTNUM array (legal: ACTNUM is optional in EGRID files when all cells are active).
#include <opm/io/eclipse/EGrid.hpp>
#include <opm/io/eclipse/EclOutput.hpp>
#include <cstdio>
#include <cstring>
#include <new>
#include <vector>
#include <string>
int main() {
    using namespace Opm::EclIO;
    {
        EclOutput out("REPRO_B.EGRID", false);
        std::vector<int> filehead(100, 0); filehead[0] = 3; filehead[1] = 2007; filehead[6] = 1;
        std::vector<int> gridhead(100, 0); gridhead[0] = 1; gridhead[1] = 2; gridhead[2] = 1; gridhead[3] = 1; gridhead[24] = 1;
        std::vector<float> coord = { 0,0,0, 0,0,1,  1,0,0, 1,0,1,  2,0,0, 2,0,1,  0,1,0, 0,1,1,  1,1,0, 1,1,1,  2,1,0, 2,1,1 };
        std::vector<float> zcorn = { 0,0,0,0, 0,0,0,0, 1,1,1,1, 1,1,1,1 };
        out.write("FILEHEAD", filehead);
        out.write("GRIDUNIT", std::vector<std::string>{ "METRES", "" });
        out.write("GRIDHEAD", gridhead);
        out.write("COORD", coord);
        out.write("ZCORN", zcorn);
        out.write("ENDGRID", std::vector<int>{});
    }
    int bad = 0;
    for (unsigned char fill : { 0x00, 0x5a, 0xff }) {
        alignas(EGrid) static unsigned char buf[sizeof(EGrid)];
        std::memset(buf, fill, sizeof buf);               // whatever the memory held before
        EGrid* g = new (buf) EGrid("REPRO_B.EGRID");
        std::printf("memory pre-filled with 0x%02x: totalNumberOfCells() = %d, activeCells() = %d", fill, g->totalNumberOfCells(), g->activeCells());
        try { auto ijk = g->ijk_from_active_index(1); std::printf(", ijk_from_active_index(1) = (%d,%d,%d)\n", ijk[0], ijk[1], ijk[2]); }
        catch (const std::exception& e) { std::printf(", ijk_from_active_index(1) throws\n"); }
        if (g->activeCells() != 2) ++bad;
        g->~EGrid();
    }
    std::printf(bad ? "DEFECT: activeCells() depends on the previous content of the memory\n" : "ok\n");
    return bad ? 1 : 0;
}
