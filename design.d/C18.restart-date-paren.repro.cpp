// C18 — a parenthesis on a DAY / MNTH / YEAR comparison is lost on restart.
// AggregateActionxData.cpp writes the parenthesis slot (IACN[15]) of every condition, but
// RstAction::Condition::Condition(zacn, iacn, sacn) returns for the quantity types Day / Month / Year
// BEFORE it reads that slot.  `( DAY > 3 OR MNTH > 5 ) AND FOPR > 100` is re-read as
// `DAY > 3 OR MNTH > MAY AND FOPR > 100` (= DAY > 3 OR (MNTH > MAY AND FOPR > 100)): a different condition;
// with only one of the two parentheses on a date comparison the re-read condition does not parse at all.
//
// build: g++ -std=c++17 -O1 -I$VERIF_REPO -I.build/opm -I.build/opm/include design.d/C18.restart-date-paren.repro.cpp \
//        .build/opm/lib/libopmcommon.a -L/root/miniconda/lib -lfmt -lboost_system -lcjson -fopenmp
#include <opm/common/utility/TimeService.hpp>
#include <opm/common/OpmLog/KeywordLocation.hpp>
#include <opm/input/eclipse/Schedule/Action/ActionAST.hpp>
#include <opm/input/eclipse/Schedule/Action/ActionContext.hpp>
#include <opm/input/eclipse/Schedule/Action/ActionResult.hpp>
#include <opm/input/eclipse/Schedule/Action/ActionX.hpp>
#include <opm/input/eclipse/Schedule/Action/Condition.hpp>
#include <opm/input/eclipse/Schedule/SummaryState.hpp>
#include <opm/input/eclipse/Schedule/Well/WListManager.hpp>
#include <opm/io/eclipse/rst/action.hpp>
#include <opm/output/eclipse/VectorItems/action.hpp>
#include <iostream>
#include <string>
#include <vector>

using namespace Opm;
namespace VI = RestartIO::Helpers::VectorItems;
using Strs = std::vector<std::string>;

int main() {
    SummaryState st(TimeService::now(), 0.0);
    st.update("FOPR", 0.0);
    WListManager wlm;
    Action::Context ctx(st, wlm);
    ctx.add("DAY", 10); ctx.add("MNTH", 1); ctx.add("YEAR", 2024);
    int bad = 0;
    for (const std::vector<Strs>& lines : { std::vector<Strs>{ { "(", "DAY", ">", "3", "OR" }, { "MNTH", ">", "5", ")", "AND" }, { "FOPR", ">", "100" } },
                                           std::vector<Strs>{ { "(", "DAY", ">", "3", "OR" }, { "FOPR", ">", "100", ")", "AND" }, { "FOPR", "<", "1" } } }) {
        Strs all; std::vector<RestartIO::RstAction::Condition> conds;
        for (const auto& tk : lines) {
            for (const auto& t : tk) all.push_back(t);
            Action::Condition cond(tk, KeywordLocation{});       // one line of the ACTIONX keyword
            std::vector<std::string> zacn(VI::ZACN::ConditionSize, std::string(8, ' '));
            std::vector<int> iacn(VI::IACN::ConditionSize, 0);
            std::vector<double> sacn(VI::SACN::ConditionSize, 0.0);
            if (!cond.lhs.date()) zacn[VI::ZACN::LHSQuantity] = cond.lhs.quantity;
            iacn[VI::IACN::LHSQuantityType] = cond.lhs.int_type();
            iacn[VI::IACN::RHSQuantityType] = cond.rhs.int_type();
            iacn[VI::IACN::TerminalLogic] = cond.logic_as_int();
            iacn[VI::IACN::Paren] = cond.paren_as_int();
            iacn[VI::IACN::Comparator] = cond.comparator_as_int();
            sacn[VI::SACN::RHSValue0] = (cond.lhs.quantity[0] != 'M') ? std::stod(cond.rhs.quantity) : TimeService::eclipseMonth(cond.rhs.quantity);
            conds.emplace_back(zacn.data(), iacn.data(), sacn.data());
        }
        const bool before = Action::AST(all).eval(ctx).conditionSatisfied();
        std::string a, b; for (auto& t : all) a += t + " ";
        for (auto& c : conds) for (auto& t : c.tokens()) b += t + " ";
        std::cout << a << " = " << before << "\n   after restart:  " << b;
        try {
            RestartIO::RstAction ra("ACT", 10, 0, 0.0, 0, 0, conds);
            const bool after = Action::ActionX(ra).eval(ctx).conditionSatisfied();
            std::cout << " = " << after << (before != after ? "   <-- DIFFERENT" : "") << "\n";
            if (before != after) ++bad;
        } catch (const std::exception& e) { std::cout << "   <-- DOES NOT LOAD: " << e.what() << "\n"; ++bad; }
    }
    return bad ? 1 : 0;
}
