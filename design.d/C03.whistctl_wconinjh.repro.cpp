// WHISTCTL switches every injector to a producer (handleWHISTCTL -> Well::updateProduction -> switchToProducer),
// and WCONINJH with a control mode other than RATE/BHP on a well whose rate was never given throws while
// composing its *warning*.
#include <opm/input/eclipse/Parser/Parser.hpp>
#include <opm/input/eclipse/Parser/ParseContext.hpp>
#include <opm/input/eclipse/Parser/ErrorGuard.hpp>
#include <opm/input/eclipse/Deck/Deck.hpp>
#include <opm/input/eclipse/EclipseState/EclipseState.hpp>
#include <opm/input/eclipse/Schedule/Schedule.hpp>
#include <opm/input/eclipse/Schedule/Well/Well.hpp>
#include <opm/input/eclipse/Python/Python.hpp>
#include <iostream>
using namespace Opm;
static const char* PRE = R"(RUNSPEC
DIMENS
 6 6 4 /
OIL
GAS
WATER
METRIC
START
 1 'JAN' 2015 /
WELLDIMS
 20 20 20 20 /
GRID
DX
 144*100 /
DY
 144*100 /
DZ
 144*10 /
TOPS
 36*2000 /
PORO
 144*0.3 /
PERMX
 144*100 /
PERMY
 144*100 /
PERMZ
 144*100 /
SCHEDULE
)";
int run(const std::string& sched, const char* what) {
    Parser parser; ParseContext pc; ErrorGuard eg;
    auto deck = parser.parseString(std::string(PRE) + sched, pc, eg);
    EclipseState es(deck);
    try {
        Schedule s(deck, es, pc, eg, std::make_shared<Python>());
        for (size_t k = 0; k < s.size(); ++k) {
            const auto& w = s.getWell("I1", k);
            std::cout << what << ": step " << k << " I1 is " << (w.isProducer() ? "PRODUCER" : "injector") << "  inj BHP limit = " << (w.getInjectionProperties().BHPTarget.is<double>() ? std::to_string(w.getInjectionProperties().BHPTarget.get<double>()) : std::string("-")) << "\n";
        }
    } catch (const std::exception& e) { std::cout << what << ": Schedule construction threw: " << typeid(e).name() << "\n"; return 1; }
    return 0;
}
int main() {
    const std::string wells = R"(WELSPECS
 'I1' 'G1' 2 2 1* 'WATER' /
/
COMPDAT
 'I1' 0 0 1 2 'OPEN' 2* 0.2 /
/
WCONINJE
 'I1' 'WATER' 'OPEN' 'RATE' 100 1* 400 /
/
TSTEP
 10 /
)";
    run(wells + "WHISTCTL\n 'ORAT' /\nTSTEP\n 10 /\n", "WHISTCTL after WCONINJE");
    run(wells + "TSTEP\n 10 /\n", "no WHISTCTL            ");
    const std::string fresh = R"(WELSPECS
 'I1' 'G1' 2 2 1* 'WATER' /
/
COMPDAT
 'I1' 0 0 1 2 'OPEN' 2* 0.2 /
/
)";
    run(fresh + "WCONINJH\n 'I1' 'WATER' 'OPEN' 1* 300 6* 'RESV' /\n/\nTSTEP\n 10 /\n", "WCONINJH RESV, rate defaulted");
    run(fresh + "WCONINJH\n 'I1' 'WATER' 'OPEN' 50 300 6* 'RESV' /\n/\nTSTEP\n 10 /\n", "WCONINJH RESV, rate 50      ");
}
