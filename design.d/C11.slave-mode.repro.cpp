// C11 candidate -> finding: ScheduleStatic::slave_mode is neither serialized nor compared.
// A Schedule built in reservoir-coupling slave mode with a GRUPSLAV keyword at a later report step
// accepts an ACTIONX at step 0 (applyAction re-applies the SCHEDULE keywords of all later report
// steps); its pack/unpack copy (operator== says equal) throws "GRUPSLAV is only allowed in slave
// mode" on the same call, because the copy's ScheduleStatic::slave_mode is false.
//   g++ -std=c++17 -O1 -I$REPO -I$BUILD -I$BUILD/include slave_mode_repro.cpp $BUILD/lib/libopmcommon.a \
//       -L/root/miniconda/lib -lfmt -lboost_system -lcjson -fopenmp -o repro && LD_LIBRARY_PATH=/root/miniconda/lib ./repro
// (every class reachable from Schedule must be complete for Serializer's dispatch)
#include <opm/common/OpmLog/KeywordLocation.hpp>
#include <opm/common/utility/MemPacker.hpp>
#include <opm/common/utility/OpmInputError.hpp>
#include <opm/common/utility/Serializer.hpp>
#include <opm/common/utility/TimeService.hpp>
#include <opm/input/eclipse/Deck/Deck.hpp>
#include <opm/input/eclipse/Deck/DeckItem.hpp>
#include <opm/input/eclipse/Deck/DeckKeyword.hpp>
#include <opm/input/eclipse/Deck/DeckRecord.hpp>
#include <opm/input/eclipse/EclipseState/Aquifer/Aquancon.hpp>
#include <opm/input/eclipse/EclipseState/Aquifer/AquiferCT.hpp>
#include <opm/input/eclipse/EclipseState/Aquifer/AquiferConfig.hpp>
#include <opm/input/eclipse/EclipseState/Aquifer/Aquifetp.hpp>
#include <opm/input/eclipse/EclipseState/EclipseConfig.hpp>
#include <opm/input/eclipse/EclipseState/EclipseState.hpp>
#include <opm/input/eclipse/EclipseState/Grid/EclipseGrid.hpp>
#include <opm/input/eclipse/EclipseState/Grid/FIPRegionStatistics.hpp>
#include <opm/input/eclipse/EclipseState/Grid/FaceDir.hpp>
#include <opm/input/eclipse/EclipseState/Grid/Fault.hpp>
#include <opm/input/eclipse/EclipseState/Grid/FaultCollection.hpp>
#include <opm/input/eclipse/EclipseState/Grid/FaultFace.hpp>
#include <opm/input/eclipse/EclipseState/Grid/FieldPropsManager.hpp>
#include <opm/input/eclipse/EclipseState/Grid/MULTREGTScanner.hpp>
#include <opm/input/eclipse/EclipseState/Grid/NNC.hpp>
#include <opm/input/eclipse/EclipseState/Grid/TranCalculator.hpp>
#include <opm/input/eclipse/EclipseState/Grid/TransMult.hpp>
#include <opm/input/eclipse/EclipseState/IOConfig/IOConfig.hpp>
#include <opm/input/eclipse/EclipseState/InitConfig/Equil.hpp>
#include <opm/input/eclipse/EclipseState/InitConfig/FoamConfig.hpp>
#include <opm/input/eclipse/EclipseState/InitConfig/InitConfig.hpp>
#include <opm/input/eclipse/EclipseState/Runspec.hpp>
#include <opm/input/eclipse/EclipseState/SimulationConfig/BCConfig.hpp>
#include <opm/input/eclipse/EclipseState/SimulationConfig/DatumDepth.hpp>
#include <opm/input/eclipse/EclipseState/SimulationConfig/RockConfig.hpp>
#include <opm/input/eclipse/EclipseState/SimulationConfig/SimulationConfig.hpp>
#include <opm/input/eclipse/EclipseState/SimulationConfig/ThresholdPressure.hpp>
#include <opm/input/eclipse/EclipseState/SummaryConfig/SummaryConfig.hpp>
#include <opm/input/eclipse/EclipseState/Tables/Aqudims.hpp>
#include <opm/input/eclipse/EclipseState/Tables/ColumnSchema.hpp>
#include <opm/input/eclipse/EclipseState/Tables/DenT.hpp>
#include <opm/input/eclipse/EclipseState/Tables/Eqldims.hpp>
#include <opm/input/eclipse/EclipseState/Tables/EzrokhiTable.hpp>
#include <opm/input/eclipse/EclipseState/Tables/FlatTable.hpp>
#include <opm/input/eclipse/EclipseState/Tables/JFunc.hpp>
#include <opm/input/eclipse/EclipseState/Tables/PlymwinjTable.hpp>
#include <opm/input/eclipse/EclipseState/Tables/PlyshlogTable.hpp>
#include <opm/input/eclipse/EclipseState/Tables/PvtgTable.hpp>
#include <opm/input/eclipse/EclipseState/Tables/PvtoTable.hpp>
#include <opm/input/eclipse/EclipseState/Tables/Regdims.hpp>
#include <opm/input/eclipse/EclipseState/Tables/Rock2dTable.hpp>
#include <opm/input/eclipse/EclipseState/Tables/Rock2dtrTable.hpp>
#include <opm/input/eclipse/EclipseState/Tables/RocktabTable.hpp>
#include <opm/input/eclipse/EclipseState/Tables/SimpleTable.hpp>
#include <opm/input/eclipse/EclipseState/Tables/SkprpolyTable.hpp>
#include <opm/input/eclipse/EclipseState/Tables/SkprwatTable.hpp>
#include <opm/input/eclipse/EclipseState/Tables/Tabdims.hpp>
#include <opm/input/eclipse/EclipseState/Tables/TableColumn.hpp>
#include <opm/input/eclipse/EclipseState/Tables/TableContainer.hpp>
#include <opm/input/eclipse/EclipseState/Tables/TableManager.hpp>
#include <opm/input/eclipse/EclipseState/Tables/TableSchema.hpp>
#include <opm/input/eclipse/EclipseState/TracerConfig.hpp>
#include <opm/input/eclipse/Parser/ErrorGuard.hpp>
#include <opm/input/eclipse/Parser/InputErrorAction.hpp>
#include <opm/input/eclipse/Parser/ParseContext.hpp>
#include <opm/input/eclipse/Parser/Parser.hpp>
#include <opm/input/eclipse/Python/Python.hpp>
#include <opm/input/eclipse/Schedule/Action/ASTNode.hpp>
#include <opm/input/eclipse/Schedule/Action/ActionAST.hpp>
#include <opm/input/eclipse/Schedule/Action/ActionResult.hpp>
#include <opm/input/eclipse/Schedule/Action/ActionX.hpp>
#include <opm/input/eclipse/Schedule/Action/Actions.hpp>
#include <opm/input/eclipse/Schedule/Action/Condition.hpp>
#include <opm/input/eclipse/Schedule/Action/PyAction.hpp>
#include <opm/input/eclipse/Schedule/Action/SimulatorUpdate.hpp>
#include <opm/input/eclipse/Schedule/Action/State.hpp>
#include <opm/input/eclipse/Schedule/Events.hpp>
#include <opm/input/eclipse/Schedule/GasLiftOpt.hpp>
#include <opm/input/eclipse/Schedule/Group/GConSale.hpp>
#include <opm/input/eclipse/Schedule/Group/GConSump.hpp>
#include <opm/input/eclipse/Schedule/Group/Group.hpp>
#include <opm/input/eclipse/Schedule/Group/GroupEconProductionLimits.hpp>
#include <opm/input/eclipse/Schedule/Group/GuideRate.hpp>
#include <opm/input/eclipse/Schedule/Group/GuideRateConfig.hpp>
#include <opm/input/eclipse/Schedule/Group/GuideRateModel.hpp>
#include <opm/input/eclipse/Schedule/MSW/AICD.hpp>
#include <opm/input/eclipse/Schedule/MSW/SICD.hpp>
#include <opm/input/eclipse/Schedule/MSW/Valve.hpp>
#include <opm/input/eclipse/Schedule/MSW/WellSegments.hpp>
#include <opm/input/eclipse/Schedule/MSW/icd.hpp>
#include <opm/input/eclipse/Schedule/MessageLimits.hpp>
#include <opm/input/eclipse/Schedule/Network/Balance.hpp>
#include <opm/input/eclipse/Schedule/Network/ExtNetwork.hpp>
#include <opm/input/eclipse/Schedule/Network/Node.hpp>
#include <opm/input/eclipse/Schedule/OilVaporizationProperties.hpp>
#include <opm/input/eclipse/Schedule/RFTConfig.hpp>
#include <opm/input/eclipse/Schedule/RPTConfig.hpp>
#include <opm/input/eclipse/Schedule/RSTConfig.hpp>
#include <opm/input/eclipse/Schedule/ResCoup/ReservoirCouplingInfo.hpp>
#include <opm/input/eclipse/Schedule/Schedule.hpp>
#include <opm/input/eclipse/Schedule/ScheduleState.hpp>
#include <opm/input/eclipse/Schedule/ScheduleTypes.hpp>
#include <opm/input/eclipse/Schedule/SummaryState.hpp>
#include <opm/input/eclipse/Schedule/Tuning.hpp>
#include <opm/input/eclipse/Schedule/UDQ/UDQASTNode.hpp>
#include <opm/input/eclipse/Schedule/UDQ/UDQActive.hpp>
#include <opm/input/eclipse/Schedule/UDQ/UDQAssign.hpp>
#include <opm/input/eclipse/Schedule/UDQ/UDQConfig.hpp>
#include <opm/input/eclipse/Schedule/UDQ/UDQDefine.hpp>
#include <opm/input/eclipse/Schedule/UDQ/UDQFunction.hpp>
#include <opm/input/eclipse/Schedule/UDQ/UDQFunctionTable.hpp>
#include <opm/input/eclipse/Schedule/UDQ/UDQInput.hpp>
#include <opm/input/eclipse/Schedule/UDQ/UDQState.hpp>
#include <opm/input/eclipse/Schedule/VFPInjTable.hpp>
#include <opm/input/eclipse/Schedule/VFPProdTable.hpp>
#include <opm/input/eclipse/Schedule/Well/Connection.hpp>
#include <opm/input/eclipse/Schedule/Well/FilterCake.hpp>
#include <opm/input/eclipse/Schedule/Well/NameOrder.hpp>
#include <opm/input/eclipse/Schedule/Well/PAvg.hpp>
#include <opm/input/eclipse/Schedule/Well/WDFAC.hpp>
#include <opm/input/eclipse/Schedule/Well/WList.hpp>
#include <opm/input/eclipse/Schedule/Well/WListManager.hpp>
#include <opm/input/eclipse/Schedule/Well/WVFPDP.hpp>
#include <opm/input/eclipse/Schedule/Well/WVFPEXP.hpp>
#include <opm/input/eclipse/Schedule/Well/Well.hpp>
#include <opm/input/eclipse/Schedule/Well/WellBrineProperties.hpp>
#include <opm/input/eclipse/Schedule/Well/WellConnections.hpp>
#include <opm/input/eclipse/Schedule/Well/WellEconProductionLimits.hpp>
#include <opm/input/eclipse/Schedule/Well/WellFoamProperties.hpp>
#include <opm/input/eclipse/Schedule/Well/WellMICPProperties.hpp>
#include <opm/input/eclipse/Schedule/Well/WellMatcher.hpp>
#include <opm/input/eclipse/Schedule/Well/WellPolymerProperties.hpp>
#include <opm/input/eclipse/Schedule/Well/WellTestConfig.hpp>
#include <opm/input/eclipse/Schedule/Well/WellTestState.hpp>
#include <opm/input/eclipse/Schedule/Well/WellTracerProperties.hpp>
#include <opm/input/eclipse/Schedule/WriteRestartFileEvents.hpp>
#include <opm/input/eclipse/Units/Dimension.hpp>
#include <opm/input/eclipse/Units/UnitSystem.hpp>
#include <opm/output/data/Aquifer.hpp>
#include <opm/output/eclipse/RestartValue.hpp>
#include <iostream>
#include <typeinfo>
#include <unordered_map>

using namespace Opm;

static const char* DECK = R"(
START
 1 JAN 2020 /
SCHEDULE
GRUPTREE
 'PLAT-A'  'FIELD' /
 'MANI-D'  'PLAT-A' /
/
WELSPECS
 'P1' 'MANI-D' 1 1 1* OIL /
/
ACTIONX
 'ACT' 1 /
 WOPR 'P1' > 1 /
/
WELOPEN
 'P1' SHUT /
/
ENDACTIO
TSTEP
 1 /
GRUPSLAV
 'MANI-D'  'D1_M' /
/
TSTEP
 1 /
)";

static std::string tryAction(Schedule& s) {
    try {
        const auto& act = s[0].actions.get()["ACT"];
        s.applyAction(0, act, Action::Result{true}.matches(), std::unordered_map<std::string, double>{});
        return std::string("ok, step 1 hasGrupSlav(MANI-D)=") + (s[1].rescoup().hasGrupSlav("MANI-D") ? "1" : "0");
    } catch (const std::exception& e) {
        std::string m = std::string(typeid(e).name()) + ": " + e.what();
        for (auto& c : m) if (c == '\n') c = ' ';
        // (with the fmt 12 of this sandbox the OpmInputError constructor itself throws fmt::format_error;
        //  the error being raised is "GRUPSLAV is only allowed in slave mode.", GrupSlav.cpp:107)
        return "THROWS: " + m;
    }
}

int main() {
    Parser parser;
    auto python = std::make_shared<Python>();
    const Deck deck = parser.parseString(DECK);
    EclipseGrid grid(10, 10, 10);
    TableManager table(deck);
    FieldPropsManager fp(deck, Phases{true, true, true}, grid, table);
    Runspec runspec(deck);
    Schedule orig(deck, grid, fp, runspec, python, /*lowActionParsingStrictness=*/false, /*slave_mode=*/true);

    Serialization::MemPacker packer;
    Serializer<Serialization::MemPacker> ser(packer);
    ser.pack(orig);
    const std::size_t packed = ser.position();
    Schedule copy(python);
    ser.unpack(copy);
    std::cout << "packed " << packed << " bytes, unpack consumed " << ser.position() << "\n";
    std::cout << "operator==: " << (orig == copy) << "\n";
    std::cout << "applyAction(0, ACT) on the original: " << tryAction(orig) << "\n";
    std::cout << "applyAction(0, ACT) on the copy    : " << tryAction(copy) << "\n";
    return 0;
}
