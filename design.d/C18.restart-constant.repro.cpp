// C18 — a constant right-hand side of an ACTIONX condition does not survive a restart.
// The writer stores the constant as a double (SACN, std::stod of the token); RstAction::Condition::tokens()
// prints it again with format_double (opm/common/utility/String.cpp):
//     integer-valued  -> std::to_string(static_cast<int>(d))      (undefined / INT_MIN outside the int range)
//     otherwise       -> std::to_string(d) = "%f"                 (six decimals)
// so `FGPT > 3E9` comes back as `FGPT > -2147483648` (always true), `FOPR < 1.5E-7` as `FOPR < 0.000000`,
// `WWCT P1 > 0.1234567` as `WWCT P1 > 0.123457`.
//
// build: g++ -std=c++17 -O1 -I$VERIF_REPO -I.build/opm -I.build/opm/include design.d/C18.restart-constant.repro.cpp \
//        .build/opm/lib/libopmcommon.a -L/root/miniconda/lib -lfmt -lboost_system -lcjson -fopenmp
#include <opm/common/utility/String.hpp>
#include <opm/common/utility/TimeService.hpp>
#include <opm/common/OpmLog/KeywordLocation.hpp>
#include <opm/input/eclipse/Schedule/Action/ActionAST.hpp>
#include <opm/input/eclipse/Schedule/Action/ActionContext.hpp>
#include <opm/input/eclipse/Schedule/Action/ActionResult.hpp>
#include <opm/input/eclipse/Schedule/Action/Condition.hpp>
#include <opm/input/eclipse/Schedule/SummaryState.hpp>
#include <opm/input/eclipse/Schedule/Well/WListManager.hpp>
#include <opm/io/eclipse/rst/action.hpp>
#include <opm/output/eclipse/VectorItems/action.hpp>
#include <iostream>
#include <string>
#include <vector>

using namespace Opm;
namespace VI = RestartIO::Helpers::VectorItems;

int main() {
    SummaryState st(TimeService::now(), 0.0);
    st.update("FGPT", 1.0e9);
    st.update("FOPR", 1.0e-7);
    st.update_well_var("P1", "WWCT", 0.12345675);
    WListManager wlm;
    Action::Context ctx(st, wlm);
    int bad = 0;
    for (const std::vector<std::string>& tk : { std::vector<std::string>{ "FGPT", ">", "3E9" },
                                               std::vector<std::string>{ "FOPR", "<", "1.5E-7" },
                                               std::vector<std::string>{ "WWCT", "P1", ">", "0.1234567" },
                                               std::vector<std::string>{ "FGPT", ">", "2000000000" } }) {
        const bool before = Action::AST(tk).eval(ctx).conditionSatisfied();
        // what AggregateActionxData writes for this comparison …
        Action::Condition cond(tk, KeywordLocation{});
        std::vector<std::string> zacn(VI::ZACN::ConditionSize, std::string(8, ' '));
        std::vector<int> iacn(VI::IACN::ConditionSize, 0);
        std::vector<double> sacn(VI::SACN::ConditionSize, 0.0);
        zacn[VI::ZACN::LHSQuantity] = cond.lhs.quantity;
        if (cond.lhs.quantity[0] == 'W') zacn[VI::ZACN::LHSWell] = cond.lhs.args[0];
        iacn[VI::IACN::LHSQuantityType] = cond.lhs.int_type();
        iacn[VI::IACN::RHSQuantityType] = cond.rhs.int_type();
        iacn[VI::IACN::Comparator] = cond.comparator_as_int();
        sacn[VI::SACN::RHSValue0] = std::stod(cond.rhs.quantity);
        // … and what the restart reader makes of it
        const auto back = RestartIO::RstAction::Condition(zacn.data(), iacn.data(), sacn.data()).tokens();
        const bool after = Action::AST(back).eval(ctx).conditionSatisfied();
        std::string a, b; for (auto& t : tk) a += t + " "; for (auto& t : back) b += t + " ";
        std::cout << a << " = " << before << "   after restart:  " << b << " = " << after << (before != after ? "   <-- DIFFERENT" : "") << "\n";
        if (before != after) ++bad;
    }
    return bad ? 1 : 0;
}
