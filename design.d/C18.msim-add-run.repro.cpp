// C18 reproduction: msim never records ActionX runs (no State::add_run), so max_run / min_wait cannot limit an action.
#include <opm/input/eclipse/Parser/Parser.hpp>
#include <opm/input/eclipse/Deck/Deck.hpp>
#include <opm/input/eclipse/EclipseState/EclipseState.hpp>
#include <opm/input/eclipse/EclipseState/SummaryConfig/SummaryConfig.hpp>
#include <opm/input/eclipse/Schedule/Schedule.hpp>
#include <opm/input/eclipse/Schedule/Action/Actions.hpp>
#include <opm/input/eclipse/Schedule/Action/ActionX.hpp>
#include <opm/input/eclipse/Schedule/Action/State.hpp>
#include <opm/input/eclipse/Schedule/Well/Well.hpp>
#include <opm/input/eclipse/Python/Python.hpp>
#include <opm/output/eclipse/EclipseIO.hpp>
#include <opm/common/utility/TimeService.hpp>
#include <filesystem>
#include <iostream>
#include <sstream>
#include <functional>
#include <map>
#include <memory>
#include <string>
#include <vector>
#include <chrono>
#include <opm/output/data/Solution.hpp>
#include <opm/output/data/Wells.hpp>
#include <opm/output/data/Groups.hpp>
#include <opm/input/eclipse/Schedule/SummaryState.hpp>
#include <opm/input/eclipse/Schedule/UDQ/UDQState.hpp>
#include <opm/input/eclipse/Schedule/Well/WellTestState.hpp>
#define private public
#include <opm/msim/msim.hpp>
#undef private
using namespace Opm;
static double opr(const EclipseState& es, const Schedule&, const SummaryState&, const data::Solution&, size_t, double) { return -es.getUnits().to_si(UnitSystem::measure::rate, 1.0); }
static double wpr_hi(const EclipseState& es, const Schedule&, const SummaryState&, const data::Solution&, size_t, double) { return -es.getUnits().to_si(UnitSystem::measure::rate, 2.0); }
static double wpr_0(const EclipseState& es, const Schedule&, const SummaryState&, const data::Solution&, size_t, double) { return 0.0 * es.getUnits().to_si(UnitSystem::measure::rate, 1.0); }
int main() {
#include "actionx1.include"
    std::string deck_string = actionx1;
    const std::string from = "'SHUT_WELL' 100000 /";
    auto pos = deck_string.find(from);
    if (pos == std::string::npos) { std::cout << "deck text not found\n"; return 2; }
    deck_string.replace(pos, from.size(), "'SHUT_WELL' 1 /");          // max_run = 1
    Deck deck = Parser().parseString(deck_string);
    EclipseState state(deck);
    auto python = std::make_shared<Python>();
    Schedule schedule(deck, state, python);
    SummaryConfig sc(deck, schedule, state.fieldProps(), state.aquifer());
    state.getIOConfig().setBaseName("MSIM");
    std::filesystem::create_directories("/tmp/act3s/run"); std::filesystem::current_path("/tmp/act3s/run");
    msim sim(state, schedule);
    EclipseIO io(state, state.getInputGrid(), schedule, sc);
    for (const char* w : { "P1", "P2", "P3", "P4" }) { sim.well_rate(w, data::Rates::opt::oil, opr); sim.well_rate(w, data::Rates::opt::wat, std::string(w) == "P2" ? wpr_hi : wpr_0); }
    sim.run(io, false);
    const auto last = sim.schedule.size() - 1;
    const auto& actions = sim.schedule[last].actions.get();
    const auto& act = actions["SHUT_WELL"];
    std::cout << "max_run=" << act.max_run() << "\n";
    std::cout << "P2 status at end: " << (sim.schedule.getWellatEnd("P2").getStatus() == Well::Status::SHUT ? "SHUT (the action was applied)" : "OPEN") << "\n";
    std::cout << "recorded run_count=" << sim.action_state.run_count(act) << "\n";
    std::cout << "still pending after it ran: " << actions.pending(sim.action_state, sim.schedule.simTime(last)).size() << "\n";
}
