// C05 finding reproduction: RstWell::water_void_rate / gas_void_rate are converted with a *volume* measure
// although XWEL[WatVoidPrRate] / XWEL[GasVoidPrRate] hold reservoir-volume *rates* (-WWVIR / -WGVIR).
#include <opm/output/eclipse/AggregateWellData.hpp>
#include <opm/output/eclipse/AggregateConnectionData.hpp>
#include <opm/output/eclipse/WriteRestartHelpers.hpp>
#include <opm/output/data/Wells.hpp>
#include <opm/io/eclipse/rst/header.hpp>
#include <opm/io/eclipse/rst/well.hpp>
#include <opm/input/eclipse/Deck/Deck.hpp>
#include <opm/input/eclipse/Parser/Parser.hpp>
#include <opm/input/eclipse/Python/Python.hpp>
#include <opm/input/eclipse/EclipseState/EclipseState.hpp>
#include <opm/input/eclipse/EclipseState/Grid/EclipseGrid.hpp>
#include <opm/input/eclipse/Schedule/Schedule.hpp>
#include <opm/input/eclipse/Schedule/SummaryState.hpp>
#include <opm/input/eclipse/Schedule/Action/State.hpp>
#include <opm/input/eclipse/Schedule/Well/WellTestState.hpp>
#include <opm/input/eclipse/Units/UnitSystem.hpp>
#include <opm/common/utility/TimeService.hpp>
#include <cstdio>
#include <memory>
int main() {
    const auto deck = Opm::Parser{}.parseString(R"(RUNSPEC
DIMENS
 3 3 2 /
OIL
GAS
WATER
METRIC
START
 1 JAN 2020 /
WELLDIMS
 4 3 2 4 /
GRID
DXV
 3*100 /
DYV
 3*100 /
DZV
 2*10 /
DEPTHZ
 16*2000 /
PORO
 18*0.2 /
PERMX
 18*100 /
PERMY
 18*100 /
PERMZ
 18*10 /
SCHEDULE
WELSPECS
 'I1' 'G1' 1 1 2000 'WATER' /
 'I2' 'G1' 3 3 2000 'GAS' /
/
COMPDAT
 'I1' 1 1 1 1 'OPEN' 1* 1* 0.2 /
 'I2' 3 3 1 1 'OPEN' 1* 1* 0.2 /
/
WCONINJE
 'I1' 'WATER' 'OPEN' 'RATE' 500 1* 400 /
 'I2' 'GAS' 'OPEN' 'RATE' 50000 1* 400 /
/
DATES
 1 FEB 2020 /
/
DATES
 1 MAR 2020 /
/
END
)");
    Opm::EclipseState es(deck); Opm::EclipseGrid grid(es.getInputGrid());
    Opm::Schedule sched(deck, es, std::make_shared<Opm::Python>());
    const auto& us = es.getUnits();
    Opm::SummaryState st { Opm::TimeService::now(), 0.0 };
    st.update_well_var("I1", "WWIR", 500.0);  st.update_well_var("I1", "WWVIR", 505.0);   // rm3/day (output units)
    st.update_well_var("I2", "WGIR", 50000.0); st.update_well_var("I2", "WGVIR", 210.0);
    const int step = 1;
    const auto ih = Opm::RestartIO::Helpers::createInteHead(es, grid, sched, 0.0, step, step, step);
    Opm::RestartIO::Helpers::AggregateWellData wd(ih);
    wd.captureDeclaredWellData(sched, es.tracer(), step, Opm::Action::State{}, Opm::WellTestState{}, st, ih);
    wd.captureDynamicWellData(sched, es.tracer(), step, Opm::data::Wells{}, st);
    Opm::RestartIO::Helpers::AggregateConnectionData cd(ih);
    cd.captureDeclaredConnData(sched, grid, us, Opm::data::Wells{}, st, step);
    const Opm::RestartIO::RstHeader h { es.runspec(), us, ih, std::vector<bool>(200), std::vector<double>(1000) };
    std::vector<std::string> zwel; for (const auto& s : wd.getZWell()) zwel.push_back(s.c_str());
    for (int iw = 0; iw < h.num_wells; ++iw) {
        const Opm::RestartIO::RstWell rw(us, h, "G1", zwel.data() + h.nzwelz * iw, wd.getIWell().data() + h.niwelz * iw,
            wd.getSWell().data() + h.nswelz * iw, wd.getXWell().data() + h.nxwelz * iw,
            cd.getIConn().data() + h.niconz * h.ncwmax * iw, cd.getSConn().data() + h.nsconz * h.ncwmax * iw, cd.getXConn().data() + h.nxconz * h.ncwmax * iw);
        std::printf("%s: void_rate=%.9g (SI, converted with M::rate)  water_void_rate=%.9g  gas_void_rate=%.9g   expected SI of -WWVIR=%.9g  of -WGVIR=%.9g\n",
            rw.name.c_str(), rw.void_rate, rw.water_void_rate, rw.gas_void_rate,
            us.to_si(Opm::UnitSystem::measure::rate, -st.get_well_var(rw.name, "WWVIR", 0.0)),
            us.to_si(Opm::UnitSystem::measure::rate, -st.get_well_var(rw.name, "WGVIR", 0.0)));
    }
}
