// JFunc::operator== throws for every JFUNC that is not BOTH: the getters it calls refuse the tension of the other
// phase pair.  TableManager::operator== (and with it any comparison of the serialised EclipseState parts) throws.
#include <opm/input/eclipse/Parser/Parser.hpp>
#include <opm/input/eclipse/Deck/Deck.hpp>
#include <opm/input/eclipse/EclipseState/Tables/JFunc.hpp>
#include <opm/input/eclipse/EclipseState/Tables/TableManager.hpp>
#include <iostream>
int main() {
    int bad = 0;
    for (const char* flag : { "BOTH", "WATER", "GAS" }) {
        const auto deck = Opm::Parser{}.parseString(std::string("RUNSPEC\nENDSCALE\n /\nGRID\nJFUNC\n ") + flag + " 30 40 /\n");
        const Opm::JFunc j(deck);
        try { std::cout << "JFUNC " << flag << ": j == j is " << (j == j) << "\n"; }
        catch (const std::exception& e) { std::cout << "JFUNC " << flag << ": j == j THROWS " << e.what() << "\n"; ++bad; }
        const Opm::TableManager tm(deck);
        try { std::cout << "  TableManager == itself: " << (tm == tm) << "\n"; }
        catch (const std::exception& e) { std::cout << "  TableManager == itself THROWS " << e.what() << "\n"; ++bad; }
    }
    return bad ? 1 : 0;
}
