// C04 observation (unchanged tree): an action that changes a well list makes a LATER-step COMPDAT with defaulted I,J reach a
// further well; when `Schedule::applyAction` re-iterates that step its ScheduleGrid has no EclipseGrid (grid == nullptr) and
// `ScheduleGrid::get_cell` -> `CompletedCells::get` throws for the head cell nobody has looked up while the deck was loaded.
// The same keywords written into the deck (the action's WLIST inlined at the end of step 2) load without error.
//
//   g++ -std=c++17 -O1 -I$VERIF_REPO -I<W>/verif/.build/opm -I<W>/verif/.build/opm/include C04.wlist_compdat_runtime_cell.repro.cpp \
//       <W>/verif/.build/opm/lib/libopmcommon.a -L/root/miniconda/lib -lfmt -lboost_system -lcjson -fopenmp -o repro
//   LD_LIBRARY_PATH=/root/miniconda/lib ./repro design.d/C04.wlist_compdat_runtime_cell.repro.DATA
//
// Deck: step 1 `WLIST '*L1' NEW 'I1'`, `ACTIONX ACTP1 { WLIST '*L1' NEW '*L1' 'P3' }`; step 3 `COMPDAT … '*L1' 0 0 2 2 OPEN`.
// Output on the unchanged tree: with the deck cut before that COMPDAT "apply ok", from that COMPDAT on "apply THREW".
#include <opm/input/eclipse/Parser/Parser.hpp>
#include <opm/input/eclipse/Parser/ParseContext.hpp>
#include <opm/input/eclipse/Parser/ErrorGuard.hpp>
#include <opm/input/eclipse/Deck/Deck.hpp>
#include <opm/input/eclipse/EclipseState/EclipseState.hpp>
#include <opm/input/eclipse/Schedule/Schedule.hpp>
#include <opm/input/eclipse/Schedule/ScheduleState.hpp>
#include <opm/input/eclipse/Schedule/Action/Actions.hpp>
#include <opm/input/eclipse/Schedule/Action/ActionX.hpp>
#include <opm/input/eclipse/Schedule/Action/ActionResult.hpp>
#include <opm/input/eclipse/Schedule/Action/SimulatorUpdate.hpp>
#include <opm/input/eclipse/Python/Python.hpp>
#include <fstream>
#include <iostream>
#include <sstream>
using namespace Opm;
int main(int argc, char** argv) {
    if (argc < 2) return 2;
    std::ifstream f(argv[1]); std::stringstream ss; ss << f.rdbuf();
    Parser parser; ParseContext pc; ErrorGuard eg;
    auto deck = parser.parseString(ss.str(), pc, eg); eg.clear();
    EclipseState es(deck);
    size_t start = 0; for (size_t i = 0; i < deck.size(); ++i) if (deck[i].name() == "SCHEDULE") start = i;
    for (size_t n = deck.size(); n > start + 1; --n) {
        Deck d(deck); if (n < d.size()) d.remove_keywords((int) n, (int) d.size());
        try {
            Schedule s(d, es, pc, eg, std::make_shared<Python>()); eg.clear();
            if (s.size() <= 2) break;
            const Action::ActionX act = s[2].actions()["ACTP1"];
            const auto res = Action::Result{ true }.wells({ "P3", "P1" });
            std::unordered_map<std::string, double> wellpi; for (const auto& w : s.wellNames(2)) wellpi[w] = 1.0;
            try { s.applyAction(2, act, res.matches(), wellpi); std::cout << "keywords 0.." << n - 1 << " (last " << d[n - 1].name() << "): apply ok\n"; }
            catch (const std::exception&) { std::cout << "keywords 0.." << n - 1 << " (last " << d[n - 1].name() << "): apply THREW\n"; }
        } catch (const std::exception&) { std::cout << "keywords 0.." << n - 1 << ": build threw\n"; }
    }
    return 0;
}
