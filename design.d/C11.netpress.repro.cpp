// C11 candidate -> finding: EclipseState::m_restart_network_pressures is not serialized.
// EclipseState::loadRestartNetworkPressures() (called by the simulator in a restarted run with an
// extended network) fills it from the restart file; the public getRestartNetworkPressures() answers
// {PLAT:123bar, MANI:45bar} on the original and nullopt on the pack/unpack copy.
//   cd $REPO && g++ -std=c++17 -O1 -I$REPO -I$BUILD -I$BUILD/include C11.netpress.repro.cpp $BUILD/lib/libopmcommon.a \
//       -L/root/miniconda/lib -lfmt -lboost_system -lcjson -fopenmp -o repro && LD_LIBRARY_PATH=/root/miniconda/lib ./repro tests/SPE1CASE1.DATA
// (every class reachable from EclipseState must be complete for Serializer's dispatch)
#include <opm/common/OpmLog/KeywordLocation.hpp>
#include <opm/common/utility/MemPacker.hpp>
#include <opm/common/utility/OpmInputError.hpp>
#include <opm/common/utility/Serializer.hpp>
#include <opm/common/utility/TimeService.hpp>
#include <opm/input/eclipse/Deck/Deck.hpp>
#include <opm/input/eclipse/Deck/DeckItem.hpp>
#include <opm/input/eclipse/Deck/DeckKeyword.hpp>
#include <opm/input/eclipse/Deck/DeckRecord.hpp>
#include <opm/input/eclipse/EclipseState/Aquifer/Aquancon.hpp>
#include <opm/input/eclipse/EclipseState/Aquifer/AquiferCT.hpp>
#include <opm/input/eclipse/EclipseState/Aquifer/AquiferConfig.hpp>
#include <opm/input/eclipse/EclipseState/Aquifer/Aquifetp.hpp>
#include <opm/input/eclipse/EclipseState/EclipseConfig.hpp>
#include <opm/input/eclipse/EclipseState/Grid/EclipseGrid.hpp>
#include <opm/input/eclipse/EclipseState/Grid/FIPRegionStatistics.hpp>
#include <opm/input/eclipse/EclipseState/Grid/FaceDir.hpp>
#include <opm/input/eclipse/EclipseState/Grid/Fault.hpp>
#include <opm/input/eclipse/EclipseState/Grid/FaultCollection.hpp>
#include <opm/input/eclipse/EclipseState/Grid/FaultFace.hpp>
#include <opm/input/eclipse/EclipseState/Grid/FieldPropsManager.hpp>
#include <opm/input/eclipse/EclipseState/Grid/MULTREGTScanner.hpp>
#include <opm/input/eclipse/EclipseState/Grid/NNC.hpp>
#include <opm/input/eclipse/EclipseState/Grid/TranCalculator.hpp>
#include <opm/input/eclipse/EclipseState/Grid/TransMult.hpp>
#include <opm/input/eclipse/EclipseState/IOConfig/IOConfig.hpp>
#include <opm/input/eclipse/EclipseState/InitConfig/Equil.hpp>
#include <opm/input/eclipse/EclipseState/InitConfig/FoamConfig.hpp>
#include <opm/input/eclipse/EclipseState/InitConfig/InitConfig.hpp>
#include <opm/input/eclipse/EclipseState/Runspec.hpp>
#include <opm/input/eclipse/EclipseState/SimulationConfig/BCConfig.hpp>
#include <opm/input/eclipse/EclipseState/SimulationConfig/DatumDepth.hpp>
#include <opm/input/eclipse/EclipseState/SimulationConfig/RockConfig.hpp>
#include <opm/input/eclipse/EclipseState/SimulationConfig/SimulationConfig.hpp>
#include <opm/input/eclipse/EclipseState/SimulationConfig/ThresholdPressure.hpp>
#include <opm/input/eclipse/EclipseState/SummaryConfig/SummaryConfig.hpp>
#include <opm/input/eclipse/EclipseState/Tables/Aqudims.hpp>
#include <opm/input/eclipse/EclipseState/Tables/ColumnSchema.hpp>
#include <opm/input/eclipse/EclipseState/Tables/DenT.hpp>
#include <opm/input/eclipse/EclipseState/Tables/Eqldims.hpp>
#include <opm/input/eclipse/EclipseState/Tables/EzrokhiTable.hpp>
#include <opm/input/eclipse/EclipseState/Tables/FlatTable.hpp>
#include <opm/input/eclipse/EclipseState/Tables/JFunc.hpp>
#include <opm/input/eclipse/EclipseState/Tables/PlymwinjTable.hpp>
#include <opm/input/eclipse/EclipseState/Tables/PlyshlogTable.hpp>
#include <opm/input/eclipse/EclipseState/Tables/PvtgTable.hpp>
#include <opm/input/eclipse/EclipseState/Tables/PvtoTable.hpp>
#include <opm/input/eclipse/EclipseState/Tables/Regdims.hpp>
#include <opm/input/eclipse/EclipseState/Tables/Rock2dTable.hpp>
#include <opm/input/eclipse/EclipseState/Tables/Rock2dtrTable.hpp>
#include <opm/input/eclipse/EclipseState/Tables/RocktabTable.hpp>
#include <opm/input/eclipse/EclipseState/Tables/SimpleTable.hpp>
#include <opm/input/eclipse/EclipseState/Tables/SkprpolyTable.hpp>
#include <opm/input/eclipse/EclipseState/Tables/SkprwatTable.hpp>
#include <opm/input/eclipse/EclipseState/Tables/Tabdims.hpp>
#include <opm/input/eclipse/EclipseState/Tables/TableColumn.hpp>
#include <opm/input/eclipse/EclipseState/Tables/TableContainer.hpp>
#include <opm/input/eclipse/EclipseState/Tables/TableManager.hpp>
#include <opm/input/eclipse/EclipseState/Tables/TableSchema.hpp>
#include <opm/input/eclipse/EclipseState/TracerConfig.hpp>
#include <opm/input/eclipse/Parser/ErrorGuard.hpp>
#include <opm/input/eclipse/Parser/ParseContext.hpp>
#include <opm/input/eclipse/Parser/Parser.hpp>
#include <opm/input/eclipse/Python/Python.hpp>
#include <opm/input/eclipse/Schedule/Action/ASTNode.hpp>
#include <opm/input/eclipse/Schedule/Action/ActionAST.hpp>
#include <opm/input/eclipse/Schedule/Action/ActionResult.hpp>
#include <opm/input/eclipse/Schedule/Action/ActionX.hpp>
#include <opm/input/eclipse/Schedule/Action/Actions.hpp>
#include <opm/input/eclipse/Schedule/Action/Condition.hpp>
#include <opm/input/eclipse/Schedule/Action/PyAction.hpp>
#include <opm/input/eclipse/Schedule/Action/State.hpp>
#include <opm/input/eclipse/Schedule/Events.hpp>
#include <opm/input/eclipse/Schedule/GasLiftOpt.hpp>
#include <opm/input/eclipse/Schedule/Group/GConSale.hpp>
#include <opm/input/eclipse/Schedule/Group/GConSump.hpp>
#include <opm/input/eclipse/Schedule/Group/Group.hpp>
#include <opm/input/eclipse/Schedule/Group/GroupEconProductionLimits.hpp>
#include <opm/input/eclipse/Schedule/Group/GuideRate.hpp>
#include <opm/input/eclipse/Schedule/Group/GuideRateConfig.hpp>
#include <opm/input/eclipse/Schedule/Group/GuideRateModel.hpp>
#include <opm/input/eclipse/Schedule/MSW/AICD.hpp>
#include <opm/input/eclipse/Schedule/MSW/SICD.hpp>
#include <opm/input/eclipse/Schedule/MSW/Valve.hpp>
#include <opm/input/eclipse/Schedule/MSW/WellSegments.hpp>
#include <opm/input/eclipse/Schedule/MSW/icd.hpp>
#include <opm/input/eclipse/Schedule/MessageLimits.hpp>
#include <opm/input/eclipse/Schedule/Network/Balance.hpp>
#include <opm/input/eclipse/Schedule/Network/ExtNetwork.hpp>
#include <opm/input/eclipse/Schedule/Network/Node.hpp>
#include <opm/input/eclipse/Schedule/OilVaporizationProperties.hpp>
#include <opm/input/eclipse/Schedule/RFTConfig.hpp>
#include <opm/input/eclipse/Schedule/RPTConfig.hpp>
#include <opm/input/eclipse/Schedule/RSTConfig.hpp>
#include <opm/input/eclipse/Schedule/ResCoup/ReservoirCouplingInfo.hpp>
#include <opm/input/eclipse/Schedule/Schedule.hpp>
#include <opm/input/eclipse/Schedule/ScheduleState.hpp>
#include <opm/input/eclipse/Schedule/ScheduleTypes.hpp>
#include <opm/input/eclipse/Schedule/SummaryState.hpp>
#include <opm/input/eclipse/Schedule/Tuning.hpp>
#include <opm/input/eclipse/Schedule/UDQ/UDQASTNode.hpp>
#include <opm/input/eclipse/Schedule/UDQ/UDQActive.hpp>
#include <opm/input/eclipse/Schedule/UDQ/UDQAssign.hpp>
#include <opm/input/eclipse/Schedule/UDQ/UDQConfig.hpp>
#include <opm/input/eclipse/Schedule/UDQ/UDQDefine.hpp>
#include <opm/input/eclipse/Schedule/UDQ/UDQFunction.hpp>
#include <opm/input/eclipse/Schedule/UDQ/UDQFunctionTable.hpp>
#include <opm/input/eclipse/Schedule/UDQ/UDQInput.hpp>
#include <opm/input/eclipse/Schedule/UDQ/UDQState.hpp>
#include <opm/input/eclipse/Schedule/VFPInjTable.hpp>
#include <opm/input/eclipse/Schedule/VFPProdTable.hpp>
#include <opm/input/eclipse/Schedule/Well/Connection.hpp>
#include <opm/input/eclipse/Schedule/Well/FilterCake.hpp>
#include <opm/input/eclipse/Schedule/Well/NameOrder.hpp>
#include <opm/input/eclipse/Schedule/Well/PAvg.hpp>
#include <opm/input/eclipse/Schedule/Well/WDFAC.hpp>
#include <opm/input/eclipse/Schedule/Well/WList.hpp>
#include <opm/input/eclipse/Schedule/Well/WListManager.hpp>
#include <opm/input/eclipse/Schedule/Well/WVFPDP.hpp>
#include <opm/input/eclipse/Schedule/Well/WVFPEXP.hpp>
#include <opm/input/eclipse/Schedule/Well/Well.hpp>
#include <opm/input/eclipse/Schedule/Well/WellBrineProperties.hpp>
#include <opm/input/eclipse/Schedule/Well/WellConnections.hpp>
#include <opm/input/eclipse/Schedule/Well/WellEconProductionLimits.hpp>
#include <opm/input/eclipse/Schedule/Well/WellFoamProperties.hpp>
#include <opm/input/eclipse/Schedule/Well/WellMICPProperties.hpp>
#include <opm/input/eclipse/Schedule/Well/WellMatcher.hpp>
#include <opm/input/eclipse/Schedule/Well/WellPolymerProperties.hpp>
#include <opm/input/eclipse/Schedule/Well/WellTestConfig.hpp>
#include <opm/input/eclipse/Schedule/Well/WellTestState.hpp>
#include <opm/input/eclipse/Schedule/Well/WellTracerProperties.hpp>
#include <opm/input/eclipse/Schedule/WriteRestartFileEvents.hpp>
#include <opm/input/eclipse/Units/Dimension.hpp>
#include <opm/input/eclipse/Units/UnitSystem.hpp>
#include <opm/output/data/Aquifer.hpp>
#include <opm/output/eclipse/RestartValue.hpp>
#include <opm/input/eclipse/Parser/InputErrorAction.hpp>
#include <opm/input/eclipse/EclipseState/EclipseState.hpp>
#include <opm/input/eclipse/EclipseState/SummaryConfig/SummaryConfig.hpp>
#include <opm/input/eclipse/Parser/Parser.hpp>
#include <opm/io/eclipse/EclOutput.hpp>
#include <opm/io/eclipse/ERst.hpp>
#include <opm/io/eclipse/RestartFileView.hpp>
#include <opm/io/eclipse/rst/network.hpp>
#include <cstdio>
#include <iostream>
#include <fstream>

using namespace Opm;

int main(int argc, char** argv) {
    const std::string deckFile = argc > 1 ? argv[1] : "tests/SPE1CASE1.DATA";
    // a restart step with a two-node extended network: node pressures 123 and 45 barsa
    const std::string rstFile = "/tmp/C11_NETPRESS.UNRST";
    {
        EclIO::EclOutput out(rstFile, /*formatted=*/false);
        std::vector<int> intehead(411, 0);
        intehead[129] = 2;  // NOACTNOD
        intehead[130] = 1;  // NOACTBR
        intehead[133] = 14; // NIBRAN
        intehead[135] = 10; // NINODE
        intehead[136] = 17; // NRNODE
        intehead[137] = 2;  // NZNODE
        std::vector<int> ibran(14, 0); ibran[0] = 2; ibran[1] = 1; ibran[2] = 9999;
        std::vector<int> inode(2 * 10, 0); inode[3] = 1;      // node 1 is a fixed-pressure (terminal) node
        std::vector<double> rnode(2 * 17, 0.0); rnode[0] = 123.0; rnode[2] = 123.0; rnode[17] = 45.0;
        std::vector<std::string> znode{ "PLAT", "", "MANI", "" };
        out.write("SEQNUM", std::vector<int>{ 1 });
        out.write("INTEHEAD", intehead);
        out.write("LOGIHEAD", std::vector<bool>(121, false));
        out.write("DOUBHEAD", std::vector<double>(229, 0.0));
        out.write("IBRAN", ibran);
        out.write("INODE", inode);
        out.write("RNODE", rnode);
        out.write("ZNODE", znode);
    }
    auto rst = std::make_shared<EclIO::ERst>(rstFile);
    auto view = std::make_shared<EclIO::RestartFileView>(rst, 1);
    const RestartIO::RstNetwork net(view, UnitSystem::newMETRIC());
    std::cout << "restart network active: " << net.isActive() << ", nodes: " << net.nodes().size() << "\n";

    Parser parser;
    const Deck deck = parser.parseFile(deckFile);
    EclipseState orig(deck);
    orig.loadRestartNetworkPressures(net);          // what the simulator does in a restarted network run

    Serialization::MemPacker packer;
    Serializer<Serialization::MemPacker> ser(packer);
    ser.pack(orig);
    const std::size_t packed = ser.position();
    EclipseState copy;
    ser.unpack(copy);
    std::cout << "packed " << packed << " bytes, unpack consumed " << ser.position() << "\n";
    auto show = [](const EclipseState& es) {
        const auto& p = es.getRestartNetworkPressures();
        if (!p) return std::string("nullopt");
        std::string s = "{";
        for (const auto& kv : *p) s += kv.first + ":" + std::to_string(kv.second / 1e5) + "bar ";
        return s + "}";
    };
    std::cout << "getRestartNetworkPressures() original: " << show(orig) << "\n";
    std::cout << "getRestartNetworkPressures() copy    : " << show(copy) << "\n";
    std::remove(rstFile.c_str());
    return 0;
}
