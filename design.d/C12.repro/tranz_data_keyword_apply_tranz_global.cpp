#include <opm/input/eclipse/Parser/Parser.hpp>
#include <opm/input/eclipse/Deck/Deck.hpp>
#include <opm/input/eclipse/EclipseState/EclipseState.hpp>
#include <opm/input/eclipse/EclipseState/Grid/FieldPropsManager.hpp>
#include <opm/common/OpmLog/OpmLog.hpp>
#include <iostream>
using namespace Opm;
static void run(const char* name, const std::string& edit) {
    const std::string deck = "RUNSPEC\nDIMENS\n 2 1 2 /\nOIL\nWATER\nMETRIC\nGRID\nDX\n 4*1 /\nDY\n 4*1 /\nDZ\n 4*1 /\nTOPS\n 2*1000 /\nPORO\n 4*0.3 /\nEDIT\n" + edit;
    Parser p; auto d = p.parseString(deck); EclipseState es(d);
    const auto& fp = es.fieldProps();
    std::vector<double> data = { 10, 20, 30, 40 };
    std::vector<std::size_t> idx = { 0, 1, 2, 3 };
    std::cout << name << ": tran_active=" << fp.tran_active("TRANZ") << std::flush;
    fp.apply_tranz_global(idx, data);
    std::cout << " ->";
    for (double v : data) std::cout << " " << v;
    std::cout << std::endl;
}
int main(int argc, char** argv) {
    OpmLog::removeAllBackends();
    if (argc > 1 && std::string(argv[1]) == "op") run("EQUALS TRANZ 5 (operation keyword)", "EQUALS\n TRANZ 5 /\n/\n");
    else run("TRANZ 4*5 (data keyword)", "TRANZ\n 4*5 /\n");
}
