// C15 finding F-C15-2: EclEpsGridProperties::permz() returns perm(permy_, …): with JFUNC direction Z
// the Leverett factor is computed from PERMY instead of PERMZ.
// build (from the verif directory): g++ -std=c++17 -O1 -I$VERIF_REPO -I.build/opm -I.build/opm/include -I/root/miniconda/include \
//   design.d/C15.repro-jfunc-permz.cpp .build/opm/lib/libopmcommon.a -L/root/miniconda/lib -lfmt -lboost_system -lboost_filesystem -lcjson -fopenmp -o /tmp/repro
// run: LD_LIBRARY_PATH=/root/miniconda/lib /tmp/repro      (exit status 1 = reproduced)
#include <config.h>
#include <opm/material/fluidmatrixinteractions/EclMaterialLawManager.hpp>
#include <opm/material/fluidstates/SimpleModularFluidState.hpp>
#include <opm/input/eclipse/Deck/Deck.hpp>
#include <opm/input/eclipse/EclipseState/EclipseState.hpp>
#include <opm/input/eclipse/EclipseState/Grid/FieldPropsManager.hpp>
#include <opm/input/eclipse/Parser/Parser.hpp>
#include <cmath>
#include <cstdio>
#include <functional>
#include <iostream>
#include <memory>
using Traits = Opm::ThreePhaseMaterialTraits<double, 0, 1, 2>;
using Manager = Opm::EclMaterialLawManager<Traits>;
using MaterialLaw = Manager::MaterialLaw;
using FluidState = Opm::SimpleModularFluidState<double, 3, 3, void, false, false, false, false, true, false, false, false>;
static const std::function<std::vector<int>(const Opm::FieldPropsManager&, const std::string&, bool)> doOldLookup =
    [](const Opm::FieldPropsManager& fp, const std::string& kw, bool tr) { std::vector<int> d; for (int v : fp.get_int(kw)) d.push_back(v - tr); return d; };
static const std::function<unsigned(unsigned)> doNothing = [](unsigned e) { return e; };
struct Built { std::unique_ptr<Opm::EclipseState> es; std::unique_ptr<Manager> mgr; };
static Built build(const std::string& text)
{
    Built b; Opm::Parser parser; const auto deck = parser.parseString(text);
    b.es = std::make_unique<Opm::EclipseState>(deck); b.mgr = std::make_unique<Manager>();
    b.mgr->initFromState(*b.es); b.mgr->initParamsForElements(*b.es, b.es->getInputGrid().getCartesianSize(), doOldLookup, doNothing);
    return b;
}
int main()
{
    const std::string deck = R"(RUNSPEC
DIMENS
 1 1 1 /
TABDIMS
 1 /
OIL
GAS
WATER
METRIC
ENDSCALE
 'NODIR' 'REVERS' 1 20 /
GRID
DX
 100 /
DY
 100 /
DZ
 10 /
TOPS
 2000 /
PORO
 0.2 /
PERMX
 100 /
PERMY
 50 /
PERMZ
 10 /
JFUNC
 WATER 22.0 1* 0.5 0.5 Z /
PROPS
SWOF
 0.2 0 0.9 2.0
 0.5 0.2 0.3 1.0
 1.0 0.8 0 0 /
SGOF
 0 0 0.9 0
 0.4 0.3 0.2 0
 0.8 0.9 0 0 /
REGIONS
SATNUM
 1 /
)";
    Built b = build(deck);
    const double got = b.mgr->oilWaterScaledEpsInfoDrainage(0).pcowLeverettFactor;
    auto lev = [](double permmD) { return std::pow(0.2, 0.5) / std::pow(permmD, 0.5) * 22.0 * 0.318316 * 1e5; };
    std::printf("Leverett factor of the cell      : %.10g\n", got);
    std::printf("expected with PERMZ = 10 mD      : %.10g\n", lev(10.0));
    std::printf("what PERMY = 50 mD would give    : %.10g\n", lev(50.0));
    const bool usesY = std::fabs(got - lev(50.0)) < 1e-6 * got, usesZ = std::fabs(got - lev(10.0)) < 1e-6 * got;
    std::printf(usesY && !usesZ ? "REPRODUCED: JFUNC direction Z uses PERMY\n" : "not reproduced\n");
    return usesY && !usesZ ? 1 : 0;
}
