// C15 finding F-C15-1: PCW given for a cell whose saturation table has no capillary pressure
// (maximum Pcow of the table = 0): EclEpsTwoPhaseLaw::unscaledToScaledPcnw_ computes
// alpha = PCW / 0 = inf and returns 0 * inf = NaN for every saturation.
// build (from the verif directory): g++ -std=c++17 -O1 -I$VERIF_REPO -I.build/opm -I.build/opm/include -I/root/miniconda/include \
//   design.d/C15.repro-pcw-zero.cpp .build/opm/lib/libopmcommon.a -L/root/miniconda/lib -lfmt -lboost_system -lboost_filesystem -lcjson -fopenmp -o /tmp/repro
// run: LD_LIBRARY_PATH=/root/miniconda/lib /tmp/repro      (exit status 1 = reproduced)
#include <config.h>
#include <opm/material/fluidmatrixinteractions/EclMaterialLawManager.hpp>
#include <opm/material/fluidstates/SimpleModularFluidState.hpp>
#include <opm/input/eclipse/Deck/Deck.hpp>
#include <opm/input/eclipse/EclipseState/EclipseState.hpp>
#include <opm/input/eclipse/EclipseState/Grid/FieldPropsManager.hpp>
#include <opm/input/eclipse/Parser/Parser.hpp>
#include <cmath>
#include <cstdio>
#include <functional>
#include <iostream>
#include <memory>
using Traits = Opm::ThreePhaseMaterialTraits<double, 0, 1, 2>;
using Manager = Opm::EclMaterialLawManager<Traits>;
using MaterialLaw = Manager::MaterialLaw;
using FluidState = Opm::SimpleModularFluidState<double, 3, 3, void, false, false, false, false, true, false, false, false>;
static const std::function<std::vector<int>(const Opm::FieldPropsManager&, const std::string&, bool)> doOldLookup =
    [](const Opm::FieldPropsManager& fp, const std::string& kw, bool tr) { std::vector<int> d; for (int v : fp.get_int(kw)) d.push_back(v - tr); return d; };
static const std::function<unsigned(unsigned)> doNothing = [](unsigned e) { return e; };
struct Built { std::unique_ptr<Opm::EclipseState> es; std::unique_ptr<Manager> mgr; };
static Built build(const std::string& text)
{
    Built b; Opm::Parser parser; const auto deck = parser.parseString(text);
    b.es = std::make_unique<Opm::EclipseState>(deck); b.mgr = std::make_unique<Manager>();
    b.mgr->initFromState(*b.es); b.mgr->initParamsForElements(*b.es, b.es->getInputGrid().getCartesianSize(), doOldLookup, doNothing);
    return b;
}
int main()
{
    const std::string deck = R"(RUNSPEC
DIMENS
 2 1 1 /
TABDIMS
 2 /
OIL
GAS
WATER
METRIC
ENDSCALE
 'NODIR' 'REVERS' 1 20 /
GRID
DX
 2*100 /
DY
 2*100 /
DZ
 2*10 /
TOPS
 2*2000 /
PORO
 2*0.2 /
PERMX
 2*100 /
PROPS
SWOF
 0.2 0 0.9 0.5
 0.5 0.2 0.3 0.2
 1.0 0.8 0 0 /
 0.2 0 0.9 0
 0.5 0.2 0.3 0
 1.0 0.8 0 0 /
SGOF
 0 0 0.9 0
 0.4 0.3 0.2 0
 0.8 0.9 0 0 /
 0 0 0.9 0
 0.4 0.3 0.2 0
 0.8 0.9 0 0 /
PCW
 2*1.5 /
REGIONS
SATNUM
 1 2 /
)";
    Built b = build(deck);
    int bad = 0;
    for (int cell = 0; cell < 2; ++cell) {
        FluidState fs; fs.setSaturation(0, 0.5); fs.setSaturation(1, 0.5); fs.setSaturation(2, 0.0);
        std::array<double, 3> pc{};
        MaterialLaw::capillaryPressures(pc, b.mgr->materialLawParams(cell), fs);
        std::printf("cell %d (SATNUM %d): pcow(Sw=0.5) = %g\n", cell, cell + 1, -pc[0]);
        if (std::isnan(pc[0])) ++bad;
    }
    std::printf(bad ? "REPRODUCED: capillary pressure is NaN where the table's maximum Pc is 0 and PCW is given\n" : "not reproduced\n");
    return bad ? 1 : 0;
}
