// Reproduction of two C09 candidates on the unchanged opm-common (see design.d/C09.md, "Findings", F-C09-2/3).
//  (1) region_rate<> has no dynamicStatus test: a well reported SHUT by the simulator still adds its
//      connection rates to ROPR/ROPT, while WOPR, COPR, GOPR, FOPR are 0 for the same input.
//  (2) crate<rt::polymer|brine> returns its *zero* quantity with rate_unit<phase>() (liquid_surface_rate);
//      the SMSPEC unit of CCIR/CSIR/CCIT/... is taken from a call with empty arguments, i.e. from that
//      zero: the file says SM3/DAY (SM3) while the values are converted as mass rates (KG/DAY, KG).
// build: g++ -std=c++17 -O1 -I$VERIF_REPO -I.build/opm -I.build/opm/include design.d/C09.findings_levels.cpp \
//        .build/opm/lib/libopmcommon.a -L/root/miniconda/lib -lfmt -lboost_system -lcjson -fopenmp
#include <opm/input/eclipse/Parser/Parser.hpp>
#include <opm/input/eclipse/Deck/Deck.hpp>
#include <opm/input/eclipse/EclipseState/EclipseState.hpp>
#include <opm/input/eclipse/EclipseState/SummaryConfig/SummaryConfig.hpp>
#include <opm/input/eclipse/Schedule/Schedule.hpp>
#include <opm/input/eclipse/Schedule/SummaryState.hpp>
#include <opm/input/eclipse/Python/Python.hpp>
#include <opm/output/eclipse/Summary.hpp>
#include <opm/output/data/Wells.hpp>
#include <opm/output/data/Groups.hpp>
#include <opm/output/data/Aquifer.hpp>
#include <opm/output/eclipse/Inplace.hpp>
#include <opm/io/eclipse/EclFile.hpp>
#include <opm/common/utility/TimeService.hpp>
#include <opm/common/OpmLog/OpmLog.hpp>
#include <iostream>
using namespace Opm;
int main() {
    OpmLog::removeAllBackends();
    const std::string deck = R"(RUNSPEC
DIMENS
 10 10 3 /
OIL
GAS
WATER
POLYMER
METRIC
START
 1 'JAN' 2020 /
WELLDIMS
 4 4 2 4 /
UNIFOUT
GRID
DX
300*100 /
DY
300*100 /
DZ
300*10 /
TOPS
100*2000 /
PORO
300*0.2 /
PERMX
300*100 /
PERMY
300*100 /
PERMZ
300*10 /
REGIONS
FIPNUM
300*1 /
SUMMARY
FOPR
WOPR
/
COPR
 'P1' /
/
ROPR
/
ROPT
/
CWIR
 'I1' /
/
CCIR
 'I1' /
/
CCIT
 'I1' /
/
SCHEDULE
WELSPECS
 'P1' 'G1' 1 1 1* 'OIL' /
 'I1' 'G1' 5 5 1* 'WATER' /
/
COMPDAT
 'P1' 1 1 1 1 'OPEN' 1* 1* 0.2 /
 'I1' 5 5 1 1 'OPEN' 1* 1* 0.2 /
/
WCONHIST
 'P1' 'OPEN' 'ORAT' 100 0 0 /
/
WCONINJH
 'I1' 'WATER' 'OPEN' 100 /
/
TSTEP
 1 /
END
)";
    Parser parser;
    const auto d = parser.parseString(deck);
    EclipseState es(d);
    Schedule sched(d, es, std::make_shared<Python>());
    SummaryConfig cfg(d, sched, es.fieldProps(), es.aquifer());
    out::Summary writer(cfg, es, es.getInputGrid(), sched, "C09F");
    SummaryState st(TimeService::from_time_t(sched.getStartTime()), 0.0);
    data::Wells wd;
    using rt = data::Rates::opt;
    {   // the simulator reports P1 as SHUT but still carries a connection rate (e.g. the last iterate)
        data::Well w; w.dynamicStatus = Well::Status::SHUT; w.current_control.isProducer = true;
        w.rates.set(rt::oil, -1.0 / 86400);
        data::Connection c; c.index = 0; c.rates.set(rt::oil, -1.0 / 86400); w.connections.push_back(c);
        wd["P1"] = w;
    }
    {
        data::Well w; w.dynamicStatus = Well::Status::OPEN; w.current_control.isProducer = false;
        w.rates.set(rt::wat, 1.0 / 86400); w.rates.set(rt::polymer, 2.0 / 86400);
        data::Connection c; c.index = 44; c.rates.set(rt::wat, 1.0 / 86400); c.rates.set(rt::polymer, 2.0 / 86400); w.connections.push_back(c);
        wd["I1"] = w;
    }
    writer.eval(st, 1, 86400.0, wd, {}, {}, {}, {}, {});
    std::cout << "P1 is dynamically SHUT with connection oil rate 1 sm3/day:\n"
              << "  WOPR:P1 = " << st.get_well_var("P1", "WOPR") << "  COPR:P1:1 = " << st.get_conn_var("P1", "COPR", 1)
              << "  FOPR = " << st.get("FOPR") << "  ROPR:1 = " << st.get_region_var("FIPNUM", "ROPR", 1)
              << "  ROPT:1 = " << st.get_region_var("FIPNUM", "ROPT", 1) << "   (property: shut wells contribute nothing)\n";
    std::cout << "I1 injects 1 sm3/day water and 2 kg/day polymer through connection 45:\n"
              << "  CWIR = " << st.get_conn_var("I1", "CWIR", 45) << "  CCIR = " << st.get_conn_var("I1", "CCIR", 45)
              << "  CCIT = " << st.get_conn_var("I1", "CCIT", 45) << "\n";
    writer.add_timestep(st, 1, false);
    writer.write(true);
    EclIO::EclFile f("C09F.SMSPEC");
    f.loadData();
    const auto kw = f.get<std::string>("KEYWORDS"), un = f.get<std::string>("UNITS");
    std::cout << "units in C09F.SMSPEC:";
    for (size_t i = 0; i < kw.size(); ++i) if (kw[i][0] == 'C') std::cout << "  " << kw[i] << " [" << un[i] << "]";
    std::cout << "   (values above are KG/DAY and KG)\n";
    return 0;
}
