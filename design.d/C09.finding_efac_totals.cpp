// C09 finding F-C09-1: brine / energy totals ignore the efficiency factors that the polymer /
// oil totals honour (SummaryConfig's `is_total` list lacks SPT, SIT, EPT, EIT, so the node type is
// not Total and EfficiencyFactor::setFactors takes the *rate* rule).
#include <opm/input/eclipse/Parser/Parser.hpp>
#include <opm/input/eclipse/Deck/Deck.hpp>
#include <opm/input/eclipse/EclipseState/EclipseState.hpp>
#include <opm/input/eclipse/EclipseState/SummaryConfig/SummaryConfig.hpp>
#include <opm/input/eclipse/Schedule/Schedule.hpp>
#include <opm/input/eclipse/Schedule/SummaryState.hpp>
#include <opm/input/eclipse/Python/Python.hpp>
#include <opm/output/eclipse/Summary.hpp>
#include <opm/output/data/Wells.hpp>
#include <opm/output/data/Groups.hpp>
#include <opm/output/eclipse/Inplace.hpp>
#include <opm/common/utility/TimeService.hpp>
#include <opm/common/OpmLog/OpmLog.hpp>
#include <cstdio>
#include <memory>
using namespace Opm;
int main() {
    const std::string deck = R"(
RUNSPEC
DIMENS
 10 10 3 /
OIL
GAS
WATER
METRIC
START
 1 'JAN' 2020 /
WELLDIMS
 10 10 10 10 /
GRID
DX
300*100 /
DY
300*100 /
DZ
300*10 /
TOPS
100*2000 /
PORO
300*0.2 /
PERMX
300*100 /
PERMY
300*100 /
PERMZ
300*10 /
SUMMARY
WOPR
/
WOPT
/
WCPR
/
WCPT
/
WSPR
/
WSPT
/
WEPR
/
WEPT
/
GOPT
/
GCPT
/
GEPT
/
FOPT
FCPT
FSPT
FEPT
SCHEDULE
GRUPTREE
 'G1' 'FIELD' /
/
WELSPECS
 'P1' 'G1' 1 1 1* 'OIL' /
/
COMPDAT
 'P1' 1 1 1 2 'OPEN' 1* 1* 0.2 /
/
WCONHIST
 'P1' 'OPEN' 'ORAT' 1 1 1 /
/
WEFAC
 'P1' 0.5 /
/
GEFAC
 'G1' 0.5 /
/
TSTEP
 1 /
END
)";
    OpmLog::removeAllBackends();
    Parser parser;
    auto d = parser.parseString(deck);
    EclipseState es(d);
    Schedule sched(d, es, std::make_shared<Python>());
    SummaryConfig cfg(d, sched, es.fieldProps(), es.aquifer());
    out::Summary writer(cfg, es, es.getInputGrid(), sched, "/tmp/sumfuns_finding");
    SummaryState st(TimeService::from_time_t(sched.getStartTime()), 0.0);
    data::Wells wd;
    data::Well w;
    using rt = data::Rates::opt;
    const double perDay = 1.0 / 86400.0;
    w.rates.set(rt::oil, -1.0 * perDay).set(rt::polymer, -1.0 * perDay).set(rt::brine, -1.0 * perDay).set(rt::energy, -1.0 * perDay);
    w.current_control.isProducer = true;
    wd["P1"] = w;
    writer.eval(st, 1, 86400.0, wd, {}, {}, {}, {}, {});
    std::printf("one day, every rate = 1 unit/day, WEFAC 0.5, GEFAC(G1) 0.5 => every total should be 0.25\n");
    for (const char* k : {"WOPT", "WCPT", "WSPT", "WEPT"}) std::printf("  %s:P1 = %g\n", k, st.has_well_var("P1", k) ? st.get_well_var("P1", k) : -1.0);
    for (const char* k : {"GOPT", "GCPT", "GEPT"}) std::printf("  %s:G1 = %g\n", k, st.has_group_var("G1", k) ? st.get_group_var("G1", k) : -1.0);
    for (const char* k : {"FOPT", "FCPT", "FSPT", "FEPT"}) std::printf("  %s = %g\n", k, st.has(k) ? st.get(k) : -1.0);
    return 0;
}
