// Observation (third round): with Killough capillary-pressure hysteresis (EHYSTR flag PC/BOTH) the Pc scanning curve ends at
// Swma = 1 - Sncrt on pcWght()*Pci(Swma), but for Sw >= Swma twoPhaseSatPcnw returns the unweighted Pci(Sw):
// a jump by the factor pcWght() = pcmaxd/(pcmaxi + 1e-6) at the trapped saturation (upwards in Sw when pcmaxd < pcmaxi).
#include <config.h>
#include <opm/material/fluidmatrixinteractions/EclEpsConfig.hpp>
#include <opm/material/fluidmatrixinteractions/EclEpsScalingPoints.hpp>
#include <opm/material/fluidmatrixinteractions/EclEpsTwoPhaseLaw.hpp>
#include <opm/material/fluidmatrixinteractions/EclHysteresisConfig.hpp>
#include <opm/material/fluidmatrixinteractions/EclHysteresisTwoPhaseLaw.hpp>
#include <opm/material/fluidmatrixinteractions/MaterialTraits.hpp>
#include <opm/material/fluidmatrixinteractions/PiecewiseLinearTwoPhaseMaterial.hpp>
#include <opm/input/eclipse/Deck/Deck.hpp>
#include <opm/input/eclipse/EclipseState/Runspec.hpp>
#include <opm/input/eclipse/Parser/Parser.hpp>
#include <cstdio>
#include <cmath>
#include <memory>
using Traits = Opm::TwoPhaseMaterialTraits<double, 0, 1>;
using PL = Opm::PiecewiseLinearTwoPhaseMaterial<Traits>;
using Eps = Opm::EclEpsTwoPhaseLaw<PL>;
using Hyst = Opm::EclHysteresisTwoPhaseLaw<Eps>;
int main()
{
    // gas-oil system, "Sw" = So = 1 - Swl - Sg; drainage Pc up to 2 bar, imbibition Pc up to 1 bar
    std::vector<double> sw = {0.2, 0.4, 0.6, 0.8, 1.0};
    auto mk = [&](double pcmax, double sncr) {
        auto p = std::make_shared<PL::Params>();
        p->setPcnwSamples(sw, std::vector<double>{pcmax, 0.6 * pcmax, 0.3 * pcmax, 0.1 * pcmax, 0.0});
        p->setKrwSamples(sw, std::vector<double>{0.0, 0.1, 0.3, 0.6, 1.0});
        p->setKrnSamples(sw, sncr > 0.15 ? std::vector<double>{0.9, 0.5, 0.2, 0.0, 0.0} : std::vector<double>{0.9, 0.5, 0.2, 0.05, 0.0});
        p->finalize();
        return p;
    };
    auto plD = mk(2.0e5, 0.0), plI = mk(1.0e5, 0.2);
    auto ecfg = std::make_shared<Opm::EclEpsConfig>();               // no end-point scaling
    auto pts = std::make_shared<Opm::EclEpsScalingPoints<double>>();
    auto eps = [&](std::shared_ptr<PL::Params> pl) { Eps::Params e; e.setConfig(ecfg); e.setUnscaledPoints(pts); e.setScaledPoints(*pts); e.setEffectiveLawParams(pl); e.finalize(); return e; };
    auto hc = std::make_shared<Opm::EclHysteresisConfig>();
    {   // EHYSTR: curvature 0.1, Killough (2), trapping parameter 0.1, relperm and capillary-pressure hysteresis
        Opm::Parser parser;
        const auto deck = parser.parseString("RUNSPEC\nOIL\nWATER\nGAS\nSATOPTS\n HYSTER /\nPROPS\nEHYSTR\n 0.1 2 1.0 0.1 BOTH /\n");
        const Opm::Runspec rs(deck);
        hc->initFromState(rs);
    }
    Opm::EclEpsScalingPointsInfo<double> iD{}, iI{};
    iD.Swl = 0.0; iD.Sgl = 0.0; iD.Sgcr = 0.0; iD.Sgu = 0.8; iD.Sogcr = 0.2; iD.maxPcgo = 2.0e5;
    iI = iD; iI.Sgcr = 0.2; iI.maxPcgo = 1.0e5;
    Hyst::Params P;
    P.setConfig(hc);
    P.setDrainageParams(eps(plD), iD, Opm::EclTwoPhaseSystemType::GasOil);
    P.setImbibitionParams(eps(plI), iI, Opm::EclTwoPhaseSystemType::GasOil);
    P.finalize();
    P.update(0.5, 0.5, 0.5);            // drainage down to So = 0.5, then imbibition
    const double swma = 1.0 - P.Sncrt();
    std::printf("pcSwMdc %.3f  Sncrt %.4f  Swma %.4f  pcWght %.4f\n", P.pcSwMdc(), P.Sncrt(), swma, P.pcWght());
    for (double s : {0.6, 0.7, 0.8, std::nextafter(swma, 0.0), swma, 0.85, 0.9})
        std::printf("  Sw = %.17g  pc = %.3f Pa\n", s, Hyst::twoPhaseSatPcnw(P, s));
    return 0;
}
