// C13 reproduction: TOPS given for every layer with a gap between two layers.
// createTOPSVector keeps the gap in the TOPS vector it returns ("barriers must be thicker than
// 1e-6 m to be retained"), but makeZcornDzTops / makeCoordDxDyDzTops read only the first layer of
// that vector and stack all lower layers from DZ: the gap is lost, the lower cell sits 5 m too high.
//
// Build (see AGENT_GUIDE.md):
//   g++ -std=c++17 -O1 -I$VERIF_REPO -I.build/opm -I.build/opm/include design.d/C13.repro_tops_gap.cpp \
//       .build/opm/lib/libopmcommon.a -L/root/miniconda/lib -lfmt -lboost_system -lcjson -fopenmp
#include <opm/input/eclipse/Deck/Deck.hpp>
#include <opm/input/eclipse/EclipseState/Grid/EclipseGrid.hpp>
#include <opm/input/eclipse/Parser/Parser.hpp>
#include <cstdio>

int main() {
    const char* tops_deck =
        "RUNSPEC\nDIMENS\n 1 1 2 /\nGRID\n"
        "DX\n 2*10 /\nDY\n 2*10 /\nDZ\n 2*1 /\n"
        "TOPS\n 1000 1006 /\n";            // layer 2 starts 5 m below the bottom of layer 1
    const char* cp_deck =                  // the equivalent corner-point description
        "RUNSPEC\nDIMENS\n 1 1 2 /\nGRID\n"
        "COORD\n 0 0 1000 0 0 1007  10 0 1000 10 0 1007  0 10 1000 0 10 1007  10 10 1000 10 10 1007 /\n"
        "ZCORN\n 4*1000 4*1001 4*1006 4*1007 /\n";
    Opm::Parser parser;
    const Opm::EclipseGrid a(parser.parseString(tops_deck));
    const Opm::EclipseGrid b(parser.parseString(cp_deck));
    std::printf("cell (0,0,1): depth  TOPS deck %.3f   COORD/ZCORN deck %.3f   (TOPS + DZ/2 = 1006.5)\n",
                a.getCellDepth(0, 0, 1), b.getCellDepth(0, 0, 1));
    std::printf("ZCORN of the TOPS deck:");
    for (double z : a.getZCORN()) std::printf(" %g", z);
    std::printf("\n");
    return a.getCellDepth(0, 0, 1) == b.getCellDepth(0, 0, 1) ? 0 : 1;
}
