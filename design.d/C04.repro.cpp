// Does an ACTIONX WELPI applied at report step 2 change the connection factors of EARLIER snapshots?
#include <opm/input/eclipse/Parser/Parser.hpp>
#include <opm/input/eclipse/Deck/Deck.hpp>
#include <opm/input/eclipse/EclipseState/EclipseState.hpp>
#include <opm/input/eclipse/Schedule/Schedule.hpp>
#include <opm/input/eclipse/Schedule/ScheduleState.hpp>
#include <opm/input/eclipse/Schedule/Action/Actions.hpp>
#include <opm/input/eclipse/Schedule/Action/ActionX.hpp>
#include <opm/input/eclipse/Schedule/Action/ActionResult.hpp>
#include <opm/input/eclipse/Schedule/Action/SimulatorUpdate.hpp>
#include <opm/input/eclipse/Schedule/Well/Well.hpp>
#include <opm/input/eclipse/Schedule/Well/WellConnections.hpp>
#include <opm/input/eclipse/Schedule/Well/Connection.hpp>
#include <opm/input/eclipse/Python/Python.hpp>
#include <opm/common/OpmLog/OpmLog.hpp>
#include <iostream>
#include <cstdio>
using namespace Opm;

int main() {
    const std::string s = R"(
RUNSPEC
DIMENS
 6 6 4 /
OIL
GAS
WATER
METRIC
START
 1 'JAN' 2015 /
WELLDIMS
 20 20 20 20 /
ACTDIMS
 10 10 /
GRID
DX
 144*100 /
DY
 144*100 /
DZ
 144*10 /
TOPS
 36*2000 /
PORO
 144*0.3 /
PERMX
 144*100 /
PERMY
 144*100 /
PERMZ
 144*100 /
SCHEDULE
WELSPECS
 'P1' 'G1' 2 2 1* 'OIL' /
/
COMPDAT
 'P1' 0 0 1 2 'OPEN' 2* 0.2 /
/
WCONPROD
 'P1' 'OPEN' 'ORAT' 1000 4* 50 /
/
ACTIONX
 'A' 10 /
 WWCT 'P1' > 0.5 /
/
WELPI
 'P1' 10 /
/
ENDACTIO
TSTEP
 10 10 10 /
)";
    OpmLog::removeAllBackends();
    auto deck = Parser{}.parseString(s);
    EclipseState es(deck);
    Schedule sched(deck, es, std::make_shared<Python>());
    Schedule ref(deck, es, std::make_shared<Python>());
    auto show = [](const char* tag, const Schedule& sc) {
        for (size_t k = 0; k < sc.size(); ++k) {
            std::printf("%s state %zu CF:", tag, k);
            for (const auto& c : sc.getWell("P1", k).getConnections()) std::printf(" %.12g", c.CF());
            std::printf("\n");
        }
    };
    show("before", sched);
    const Action::ActionX act = sched[2].actions()["A"];
    const auto res = Action::Result{ true }.wells({ "P1" });
    sched.applyAction(2, act, res.matches(), std::unordered_map<std::string, double>{ { "P1", 1.0 } });
    show("after ", sched);
    bool past_changed = false;
    for (size_t k = 0; k < 2; ++k) if (!(sched[k] == ref[k])) { std::printf("state %zu (before the action step 2) differs from the untouched schedule\n", k); past_changed = true; }
    std::printf(past_changed ? "PAST CHANGED\n" : "past untouched\n");
    return past_changed ? 1 : 0;
}
