// C15, fifth round: the two statements left open in the third round, on the unchanged code.
//
// One deck, Killough non-wetting hysteresis (EHYSTR item 2 = 2, flag KR), one drainage region (SATNUM 1) and
// four imbibition regions; all cells are drained with gas at connate water up to Sg = 0.75 and then evaluated on the
// scanning curve.
//   cell 0  IMBNUM 2: imbibition krg reaches 0.8 at the drainage maximum gas saturation (drainage: 0.575)
//                     -> (i) the scanning curve starts 39 % ABOVE the drainage value at the reversal point and exceeds
//                        max krg of the drainage table
//   cell 1  IMBNUM 3: imbibition critical gas saturation 0.05 BELOW the drainage one (0.2)
//                     -> (ii) Land's constant C is negative: trapped saturation above Sghy (or below Sgcr_d)
//   cell 2  IMBNUM 4: consistent input (curves meet at Sgu, Sgcr_i >= Sgcr_d): continuous start, Sgcr_d <= Sgt <= Sghy
//   cell 3  IMBNUM 1: identical curves
//
// g++ -std=c++17 -O1 -I$VERIF_REPO -I.build/opm -I.build/opm/include design.d/C15.repro-killough-open.cpp \
//     .build/opm/lib/libopmcommon.a -L/root/miniconda/lib -lfmt -lboost_system -lcjson -fopenmp
#include <config.h>

#include <opm/material/fluidmatrixinteractions/EclMaterialLawManager.hpp>
#include <opm/material/fluidstates/SimpleModularFluidState.hpp>
#include <opm/input/eclipse/Deck/Deck.hpp>
#include <opm/input/eclipse/EclipseState/EclipseState.hpp>
#include <opm/input/eclipse/EclipseState/Grid/FieldPropsManager.hpp>
#include <opm/input/eclipse/Parser/Parser.hpp>

#include <array>
#include <cmath>
#include <cstdio>
#include <functional>

using Traits = Opm::ThreePhaseMaterialTraits<double, 0, 1, 2>;
using Manager = Opm::EclMaterialLawManager<Traits>;
using MaterialLaw = Manager::MaterialLaw;
using FluidState = Opm::SimpleModularFluidState<double, 3, 3, void, false, false, false, false, true, false, false, false>;

static const char* DECK = R"(RUNSPEC
DIMENS
 4 1 1 /
TABDIMS
 4 /
OIL
GAS
WATER
METRIC
SATOPTS
 HYSTER /
GRID
DX
 4*100 /
DY
 4*100 /
DZ
 4*10 /
TOPS
 4*2000 /
PORO
 4*0.2 /
PERMX
 4*100 /
PROPS
SWOF
 0.2 0 1 0
 0.5 0.2 0.3 0
 0.8 0.75 0 0
 1.0 1.0 0 0 /
 0.2 0 1 0
 0.5 0.2 0.3 0
 0.8 0.75 0 0
 1.0 1.0 0 0 /
 0.2 0 1 0
 0.5 0.2 0.3 0
 0.8 0.75 0 0
 1.0 1.0 0 0 /
 0.2 0 1 0
 0.5 0.2 0.3 0
 0.8 0.75 0 0
 1.0 1.0 0 0 /
SGOF
 0 0 1 0
 0.2 0 0.75 0
 0.5 0.3 0.1 0
 0.8 0.575 0 0 /
 0 0 1 0
 0.3 0 0.4 0
 0.5 0.35 0.1 0
 0.8 0.8 0 0 /
 0 0 1 0
 0.05 0 0.9 0
 0.5 0.3 0.1 0
 0.8 0.575 0 0 /
 0 0 1 0
 0.3 0 0.4 0
 0.5 0.2 0.1 0
 0.8 0.575 0 0 /
EHYSTR
 0.1 2 1.0 0.1 KR /
REGIONS
SATNUM
 1 1 1 1 /
IMBNUM
 2 3 4 1 /
)";

int main()
{
    Opm::Parser parser;
    const auto deck = parser.parseString(DECK);
    Opm::EclipseState es(deck);
    Manager m;
    m.initFromState(es);
    const std::function<std::vector<int>(const Opm::FieldPropsManager&, const std::string&, bool)> lookup =
        [](const Opm::FieldPropsManager& fp, const std::string& kw, bool tr) {
            std::vector<int> d; for (int v : fp.get_int(kw)) d.push_back(v - tr); return d; };
    const std::function<unsigned(unsigned)> id = [](unsigned e) { return e; };
    m.initParamsForElements(es, 4, lookup, id);

    auto krg = [&](int cell, double sg) {
        FluidState fs; fs.setSaturation(0, 0.2); fs.setSaturation(1, 0.8 - sg); fs.setSaturation(2, sg);
        std::array<double, 3> kr{}; MaterialLaw::relativePermeabilities(kr, m.materialLawParams(cell), fs); return kr[2]; };
    int bad = 0;
    for (int cell = 0; cell < 4; ++cell) {
        const double atRevDrain = krg(cell, 0.75);                                   // no update yet: drainage curve
        for (double sg : {0.1, 0.3, 0.45, 0.75}) {
            FluidState fs; fs.setSaturation(0, 0.2); fs.setSaturation(1, 0.8 - sg); fs.setSaturation(2, sg);
            m.updateHysteresis(fs, cell);
        }
        auto& go = m.materialLawParams(cell).template getRealParams<Opm::EclMultiplexerApproach::Default>().gasOilParams();
        const double scan = krg(cell, std::nextafter(0.75, 0.0));
        double mx = 0; bool mono = true; double prev = 2;
        for (int t = 0; t <= 600; ++t) { const double v = krg(cell, 0.75 * (1 - t / 600.0) - 1e-12); mx = std::max(mx, v); mono = mono && v <= prev + 1e-14; prev = v; }
        std::printf("cell %d: krg_d(0.75) = %.6f  scanning curve just below the reversal point = %.6f (ratio %.4f)  max on the scanning curve = %.6f (drainage table max 0.575)  monotone %d\n"
                    "        Sncrd = %.6f  Sncri = %.6f  Snmaxd = %.6f  Snhy = %.6f  Sncrt = %.6f  krnWght = %.6f\n",
                    cell, atRevDrain, scan, scan / atRevDrain, mx, int(mono), go.Sncrd(), go.Sncri(), go.Snmaxd(), go.Snhy(), go.Sncrt(), go.krnWght());
        if (cell == 0) bad += !(std::fabs(scan - atRevDrain) < 1e-6) + !(mx <= 0.575);
        if (cell == 1) bad += !(go.Sncrt() <= go.Snhy() && go.Sncrt() >= go.Sncrd());
        if (cell >= 2 && !(std::fabs(scan - atRevDrain) < 1e-6 && go.Sncrt() <= go.Snhy() && go.Sncrt() >= go.Sncrd())) std::printf("UNEXPECTED: the consistent cell misbehaves\n");
    }
    std::printf("%d statements violated on inconsistent input (cells 0, 1); cells 2, 3 are the consistent controls\n", bad);
    return 0;
}
