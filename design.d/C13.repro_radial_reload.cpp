// C13 observation (third round): a RADIAL grid does not survive EclipseGrid::save -> EclipseGrid(file).
//
// initSpiderwebOrCylindricalGrid keeps the radii and sector angles (m_rv, m_thetav) and getCellVolume /
// activeVolume use calculateCylindricalCellVol (exact cylinder sectors).  save() writes FILEHEAD[6] = 1 and
// GRIDHEAD[0] = GRIDHEAD[24] = 1 ("corner point grid") and neither the radii nor a radial marker, so the
// reloaded object takes the hexahedron branch: chords instead of arcs.  COORD/ZCORN/ACTNUM come back, the
// cell volumes (hence pore volumes) do not: 4 sectors of 90 degrees lose 1 - 2/pi = 36 %.
//
// Build (see AGENT_GUIDE.md "Scratch programs"), run with LD_LIBRARY_PATH=/root/miniconda/lib:
//   g++ -std=c++17 -O1 -I$VERIF_REPO -I<W>/verif/.build/opm -I<W>/verif/.build/opm/include C13.repro_radial_reload.cpp \
//       <W>/verif/.build/opm/lib/libopmcommon.a -L/root/miniconda/lib -lfmt -lboost_system -lcjson -fopenmp
#include <opm/input/eclipse/Deck/Deck.hpp>
#include <opm/input/eclipse/EclipseState/Grid/EclipseGrid.hpp>
#include <opm/input/eclipse/EclipseState/Grid/NNC.hpp>
#include <opm/input/eclipse/Parser/Parser.hpp>
#include <opm/input/eclipse/Units/UnitSystem.hpp>

#include <cmath>
#include <cstdio>

int main()
{
    const char* deck_text = R"(
RUNSPEC
DIMENS
 1 4 1 /
RADIAL
METRIC
GRID
INRAD
 1 /
DRV
 9 /
DTHETAV
 4*90 /
DZV
 1 /
TOPS
 4*1000 /
)";
    Opm::Parser parser;
    const auto deck = parser.parseString(deck_text);
    const Opm::EclipseGrid g(deck);

    double v0 = 0.0;
    for (std::size_t c = 0; c < g.getCartesianSize(); ++c) v0 += g.getCellVolume(c);

    g.save("/tmp/C13_radial.EGRID", false, {}, Opm::UnitSystem(Opm::UnitSystem::UnitType::UNIT_TYPE_METRIC));
    const Opm::EclipseGrid h("/tmp/C13_radial.EGRID");

    double v1 = 0.0;
    for (std::size_t c = 0; c < h.getCartesianSize(); ++c) v1 += h.getCellVolume(c);

    const double exact = M_PI * (10.0 * 10.0 - 1.0 * 1.0) * 1.0;
    std::printf("annulus r=1..10, h=1: exact %.6f\n", exact);
    std::printf("in memory (RADIAL deck):   %.6f\n", v0);
    std::printf("after save + load:         %.6f  (ratio %.4f)\n", v1, v1 / v0);
    return std::fabs(v1 / v0 - 1.0) < 1e-6 ? 0 : 1;
}
