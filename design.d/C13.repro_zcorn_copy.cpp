// C13 finding (a): EclipseGrid(src, zcorn, actnum) keeps src's m_input_zcorn; save() of the
// copy then writes the OLD ZCORN.  In memory: volume 2; after save + load: volume 1.
#include <opm/input/eclipse/EclipseState/Grid/EclipseGrid.hpp>
#include <opm/input/eclipse/EclipseState/Grid/NNC.hpp>
#include <opm/input/eclipse/Units/UnitSystem.hpp>
#include <cstdio>
#include <vector>
int main() {
    using namespace Opm;
    // one unit cube given as COORD/ZCORN
    std::vector<double> coord = { 0,0,0, 0,0,1,  1,0,0, 1,0,1,  0,1,0, 0,1,1,  1,1,0, 1,1,1 };
    std::vector<double> zcorn = { 0,0,0,0, 1,1,1,1 };
    EclipseGrid src(std::array<int,3>{1,1,1}, coord, zcorn);
    std::vector<double> z2 = { 0,0,0,0, 2,2,2,2 };           // twice as thick
    EclipseGrid thick(src, z2.data(), std::vector<int>{1});
    std::printf("copy in memory      : volume %g  zcorn[4] %g\n", thick.getCellVolume(0), thick.getZCORN()[4]);
    thick.save("REPRO_A.EGRID", false, {}, UnitSystem(UnitSystem::UnitType::UNIT_TYPE_METRIC));
    EclipseGrid back("REPRO_A.EGRID");
    std::printf("after save + load   : volume %g  zcorn[4] %g\n", back.getCellVolume(0), back.getZCORN()[4]);
    // second save of the same object writes the current arrays (m_input_* was reset by the first save)
    thick.save("REPRO_A2.EGRID", false, {}, UnitSystem(UnitSystem::UnitType::UNIT_TYPE_METRIC));
    EclipseGrid back2("REPRO_A2.EGRID");
    std::printf("second save + load  : volume %g\n", back2.getCellVolume(0));
    const bool bad = back.getCellVolume(0) != thick.getCellVolume(0);
    std::printf(bad ? "VIOLATION: save/load does not preserve the geometry of the copy\n" : "ok\n");
    return bad ? 1 : 0;
}
