#include <opm/io/eclipse/EclFile.hpp>
#include <opm/io/eclipse/ERst.hpp>
#include <iostream>
#include <chrono>
#include <csignal>
#include <unistd.h>
int main(int argc, char** argv) {
    std::string path = argv[1]; bool formatted = std::string(argv[2]) == "1"; int kind = std::stoi(argv[3]);
    alarm(40);
    auto t0 = std::chrono::steady_clock::now();
    auto el = [&]() { return std::chrono::duration<double>(std::chrono::steady_clock::now() - t0).count(); };
    try {
        { Opm::EclIO::EclFile f(path, Opm::EclIO::EclFile::Formatted{formatted}); std::cerr << "opened, " << f.size() << " arrays at " << el() << "\n"; f.loadData(); std::cerr << "loaded at " << el() << "\n"; }
        if (kind == 1) { Opm::EclIO::ERst r(path); std::cerr << "erst at " << el() << "\n"; for (int s : r.listOfReportStepNumbers()) { r.loadReportStepNumber(s); (void) r.listOfRstArrays(s); } }
        std::cerr << "returned at " << el() << "\n";
    } catch (const std::exception& e) { std::cerr << "exception at " << el() << ": " << std::string(e.what()).substr(0, 120) << "\n"; }
}
