// C20 adjudication: std::isdigit / std::toupper / std::isalpha / std::isalnum on plain char with
// 8-bit bytes (negative int arguments other than EOF: undefined by C11 7.4p1).
#include <opm/input/eclipse/Parser/Parser.hpp>
#include <opm/input/eclipse/Parser/ParserKeyword.hpp>
#include <opm/input/eclipse/Parser/ParseContext.hpp>
#include <opm/input/eclipse/Parser/ErrorGuard.hpp>
#include <opm/input/eclipse/Deck/Deck.hpp>
#include <opm/common/utility/String.hpp>
#include "opm/input/eclipse/Parser/raw/StarToken.hpp"
#include <iostream>
#include <cctype>
int main() {
    int flagged = 0;
    for (int b = 128; b < 256; ++b) {
        std::string tok(1, static_cast<char>(b)); tok += "*5";
        std::string cs, vs;
        bool st = Opm::isStarToken(tok, cs, vs);                 // std::isdigit(token[pos])
        std::string up = Opm::uppercase(std::string("ab") + static_cast<char>(b));   // std::toupper(char)
        bool vd = Opm::ParserKeyword::validDeckName(std::string("A") + static_cast<char>(b));   // std::isalnum(char)
        bool vd0 = Opm::ParserKeyword::validDeckName(std::string(1, static_cast<char>(b)) + "A");  // std::isalpha(char)
        if (st || up != std::string("AB") + static_cast<char>(b) || vd || vd0) { ++flagged; std::cout << "byte " << b << ": star=" << st << " up=" << (int)(unsigned char)up[2] << " valid=" << vd << vd0 << "\n"; }
    }
    std::cout << "bytes 128..255 through isStarToken/uppercase/validDeckName: " << flagged << " deviate from the C-locale ASCII reading\n";
    // whole-parser path: 8-bit bytes in keyword names, tokens, strings
    Opm::Parser parser;
    for (int b = 128; b < 256; ++b) {
        std::string c(1, static_cast<char>(b));
        for (const std::string& deck : {"RUNSPEC\n" + c + "OIL\n", "RUNSPEC\nOIL" + c + "\n", "DIMENS\n 1" + c + " 2 3 /\n", "DIMENS\n " + c + "*1 2 3 /\n",
                                        "WELSPECS\n 'W" + c + "' 'G' 1 1 1* OIL /\n/\n", "WELSPECS\n W" + c + " G 1 1 1* o" + c + " /\n/\n"}) {
            Opm::ParseContext ctx; Opm::ErrorGuard errors;
            try { auto d = parser.parseString(deck, ctx, errors); (void) d; } catch (const std::exception&) {}
            errors.clear();
        }
    }
    std::cout << "parseString on 768 decks with 8-bit bytes: done, no sanitizer report\n";
    return 0;
}
