// C20 adjudication: does section-selective Parser::parseFile terminate?
#include <opm/input/eclipse/Parser/Parser.hpp>
#include <opm/input/eclipse/Parser/ParseContext.hpp>
#include <opm/input/eclipse/Parser/ErrorGuard.hpp>
#include <opm/input/eclipse/Deck/Deck.hpp>
#include <opm/input/eclipse/EclipseState/Grid/EclipseGrid.hpp>
#include <opm/input/eclipse/Deck/DeckSection.hpp>
#include <fstream>
#include <iostream>
#include <csignal>
#include <unistd.h>
static void onalarm(int) { const char m[] = "TIMEOUT (alarm): parse did not terminate\n"; write(1, m, sizeof m - 1); _exit(124); }
int main(int argc, char** argv) {
    std::string path = argv[1];
    std::string mode = argc > 2 ? argv[2] : "string";
    signal(SIGALRM, onalarm); alarm(5);
    Opm::Parser parser; Opm::ParseContext ctx; Opm::ErrorGuard errors;
    try {
        if (mode == "string") {
            std::ifstream f(path); std::string s((std::istreambuf_iterator<char>(f)), std::istreambuf_iterator<char>());
            auto deck = parser.parseString(s, ctx, errors);
            std::cout << "returned, " << deck.size() << " keywords\n";
        } else if (mode == "file") {
            auto deck = parser.parseFile(path, ctx, errors);
            std::cout << "returned, " << deck.size() << " keywords\n";
        } else {
            std::vector<Opm::Ecl::SectionType> sections = {Opm::Ecl::RUNSPEC};
            auto deck = parser.parseFile(path, ctx, errors, sections);
            std::cout << "returned, " << deck.size() << " keywords\n";
        }
    } catch (const std::exception& e) { std::cout << "std::exception: " << std::string(e.what()).substr(0, 120) << "\n"; }
    errors.clear();
    return 0;
}
