// C05 finding (third round) -- reproduction on the UNCHANGED tree.
//
// A multi-segment well with gaps in its segment numbers (1,2,3,6,7,8,12; NSEGMX = 20) is written to a restart file
// and read back.  The dynamic state (RestartIO::load) is restored correctly, but RstState::load decodes the segment
// set {1..7}: AggregateMSWData stores ISEG item SegNo at window `ind` (storage position), RstWell (rst/well.cpp) takes
// ISEG[SegNo] != 0 of window k as "segment k+1 exists".  Segments 4 and 5 are phantoms (type 0), 8 and 12 are lost;
// Schedule(deck, &rst_state) throws "Unhandled integer segment type 0".  Output on the unchanged tree:
//
//   RstWell PROD segments: 1(outlet 0, branch 1) 2(...) 3(...) 4(outlet 0, branch 0) 5(outlet 0, branch 0) 6(...) 7(...)
//   schedule segments: 1 2 3 6 7 8 12
//   ISEG[SegNo] per window: 12 8 7 6 3 2 1 0 0 0 ...
//   restarted schedule throws: Unhandled integer segment type 0
//
// (deck and dynamic state are those of seeded/C05-4/demo.cpp).  Build as in AGENT_GUIDE.md "Scratch programs".
// Candidate repair: design.d/C05.fix3.patch.

#include <opm/output/data/Cells.hpp>
#include <opm/output/data/Groups.hpp>
#include <opm/output/data/Solution.hpp>
#include <opm/output/data/Wells.hpp>
#include <opm/output/eclipse/AggregateAquiferData.hpp>
#include <opm/output/eclipse/RestartIO.hpp>
#include <opm/output/eclipse/RestartValue.hpp>

#include <opm/io/eclipse/OutputStream.hpp>
#include <opm/io/eclipse/ERst.hpp>
#include <opm/io/eclipse/RestartFileView.hpp>
#include <opm/io/eclipse/rst/state.hpp>
#include <opm/input/eclipse/Parser/Parser.hpp>

#include <opm/input/eclipse/Deck/Deck.hpp>
#include <opm/input/eclipse/EclipseState/EclipseState.hpp>
#include <opm/input/eclipse/EclipseState/Grid/EclipseGrid.hpp>
#include <opm/input/eclipse/Parser/Parser.hpp>
#include <opm/input/eclipse/Python/Python.hpp>
#include <opm/input/eclipse/Schedule/Action/State.hpp>
#include <opm/input/eclipse/Schedule/MSW/WellSegments.hpp>
#include <opm/input/eclipse/Schedule/Schedule.hpp>
#include <opm/input/eclipse/Schedule/SummaryState.hpp>
#include <opm/input/eclipse/Schedule/UDQ/UDQState.hpp>
#include <opm/input/eclipse/Schedule/Well/Connection.hpp>
#include <opm/input/eclipse/Schedule/Well/Well.hpp>
#include <opm/input/eclipse/Schedule/Well/WellConnections.hpp>
#include <opm/input/eclipse/Schedule/Well/WellTestState.hpp>
#include <opm/input/eclipse/Units/UnitSystem.hpp>

#include <opm/common/utility/TimeService.hpp>

#include <cmath>
#include <cstdio>
#include <filesystem>
#include <iostream>
#include <memory>
#include <optional>
#include <string>
#include <vector>

namespace {

const char* deck_string = R"(
RUNSPEC
DIMENS
 5 5 6 /
OIL
WATER
GAS
METRIC
START
 1 JAN 2020 /
WELLDIMS
 4 10 2 4 /
WSEGDIMS
 2 20 5 /
UNIFOUT
UNIFIN
GRID
DXV
 5*100 /
DYV
 5*100 /
DZV
 6*10 /
TOPS
 25*2000 /
PORO
 150*0.25 /
PERMX
 150*100 /
PERMY
 150*100 /
PERMZ
 150*10 /
ACTNUM
 2*1 0 147*1 /
SOLUTION
SCHEDULE
RPTRST
 BASIC=2 /
WELSPECS
 'PROD' 'G1' 3 3 1* 'OIL' /
 'INJ'  'G1' 1 1 1* 'WATER' /
/
COMPDAT
 'PROD' 3 3 1 6 'OPEN' 1* 1* 0.2 /
 'INJ'  1 1 1 2 'OPEN' 1* 1* 0.2 /
/
WELSEGS
 'PROD' 2000 0 1* 'INC' 'HFA' /
  2  3  1  1  10 10 0.15 0.0001 /
  6  8  1  3  10 10 0.15 0.0001 /
  12 12 2  7   5  0 0.10 0.0001 /
/
COMPSEGS
 'PROD' /
 3 3 1 1  0 10 /
 3 3 2 1 10 20 /
 3 3 3 1 20 30 /
 3 3 4 1 30 40 /
 3 3 5 1 40 50 /
 3 3 6 2 40 45 /
/
WCONPROD
 'PROD' 'OPEN' 'ORAT' 1000 4* 50 /
/
WCONINJE
 'INJ' 'WATER' 'OPEN' 'RATE' 1000 1* 500 /
/
TSTEP
 10 10 /
END
)";

int nfail = 0;

void check_close(const std::string& what, const double expect, const double got)
{
    const auto scale = std::max(std::abs(expect), 1.0e-30);
    if (!(std::abs(expect - got) <= 1.0e-6 * scale)) {
        std::cout << "MISMATCH " << what << ": saved " << expect
                  << " but restart gave " << got << '\n';
        ++nfail;
    }
}

} // namespace

int main()
{
    using namespace Opm;
    using M = UnitSystem::measure;

    const auto deck  = Parser{}.parseString(deck_string);
    auto       es    = EclipseState { deck };
    const auto& grid = es.getInputGrid();
    const auto sched = Schedule { deck, es, std::make_shared<Python>() };
    const auto& usys = es.getUnits();

    es.getIOConfig().setEclCompatibleRST(false);

    const int report_step = 1;
    const auto sim_step   = static_cast<std::size_t>(report_step - 1);

    const auto& prod = sched.getWell("PROD", sim_step);
    if (!prod.isMultiSegment()) {
        std::cout << "model error: PROD is not a multi-segmented well\n";
        return 2;
    }

    // ------------------------------------------------------------------
    // Simulator state: per-segment pressure and flow rates (output units,
    // positive for production) in the summary state, well results with one
    // data::Segment per segment.
    auto st = SummaryState { TimeService::now(), 0.0 };

    auto xw = data::Wells{};
    {
        auto& w = xw["PROD"];
        w.rates.set(data::Rates::opt::oil, -usys.to_si(M::liquid_surface_rate, 800.0));
        w.rates.set(data::Rates::opt::wat, -usys.to_si(M::liquid_surface_rate, 100.0));
        w.rates.set(data::Rates::opt::gas, -usys.to_si(M::gas_surface_rate, 50000.0));
        w.bhp = usys.to_si(M::pressure, 123.0);
        w.dynamicStatus = Well::Status::OPEN;
        w.current_control.isProducer = true;
        w.current_control.prod = Well::ProducerCMode::ORAT;

        for (const auto& conn : prod.getConnections()) {
            auto& c = w.connections.emplace_back();
            c.index = conn.global_index();
            c.rates.set(data::Rates::opt::oil, -usys.to_si(M::liquid_surface_rate, 100.0));
            c.rates.set(data::Rates::opt::wat, -usys.to_si(M::liquid_surface_rate, 10.0));
            c.rates.set(data::Rates::opt::gas, -usys.to_si(M::gas_surface_rate, 5000.0));
            c.pressure = usys.to_si(M::pressure, 150.0);
            c.trans_factor = conn.CF();
        }

        for (const auto& seg : prod.getSegments()) {
            const auto n = seg.segmentNumber();
            auto& s = w.segments[n];
            s.segNumber = n;

            // Values in output units (METRIC: SM3/DAY, BARSA).
            st.update_segment_var("PROD", "SOFR", n, 100.0 + 7.0*n);
            st.update_segment_var("PROD", "SWFR", n,  10.0 + 3.0*n);
            st.update_segment_var("PROD", "SGFR", n, 5000.0 + 11.0*n);
            st.update_segment_var("PROD", "SPR" , n, 200.0 + 1.5*n);
        }

        st.update_well_var("PROD", "WOPR", 800.0);
        st.update_well_var("PROD", "WWPR", 100.0);
        st.update_well_var("PROD", "WGPR", 50000.0);
        st.update_well_var("PROD", "WBHP", 123.0);

        auto& i = xw["INJ"];
        i.rates.set(data::Rates::opt::wat, usys.to_si(M::liquid_surface_rate, 900.0));
        i.bhp = usys.to_si(M::pressure, 321.0);
        i.dynamicStatus = Well::Status::OPEN;
        i.current_control.isProducer = false;
        i.current_control.inj = Well::InjectorCMode::RATE;
        for (const auto& conn : sched.getWell("INJ", sim_step).getConnections()) {
            auto& c = i.connections.emplace_back();
            c.index = conn.global_index();
            c.rates.set(data::Rates::opt::wat, usys.to_si(M::liquid_surface_rate, 450.0));
            c.pressure = usys.to_si(M::pressure, 330.0);
            c.trans_factor = conn.CF();
        }
        st.update_well_var("INJ", "WWIR", 900.0);
        st.update_well_var("INJ", "WBHP", 321.0);
    }

    const auto nact = grid.getNumActive();
    auto sol = data::Solution {};
    sol.insert("PRESSURE", M::pressure, std::vector<double>(nact, 2.0e7), data::TargetType::RESTART_SOLUTION);
    sol.insert("SWAT", M::identity, std::vector<double>(nact, 0.25), data::TargetType::RESTART_SOLUTION);
    sol.insert("SGAS", M::identity, std::vector<double>(nact, 0.10), data::TargetType::RESTART_SOLUTION);

    const auto value = RestartValue { sol, xw, data::GroupAndNetworkValues{}, data::Aquifers{} };

    // ------------------------------------------------------------------
    // Save
    const auto dir = std::filesystem::temp_directory_path() / "c05_seed2_demo1";
    std::filesystem::remove_all(dir);
    std::filesystem::create_directories(dir);

    namespace OS = EclIO::OutputStream;
    const auto rset = OS::ResultSet { dir.string(), "MSWGAP" };

    auto action_state = Action::State{};
    auto wtest_state  = WellTestState{};
    auto udq_state    = UDQState{ 0.0 };
    auto aquiferData  = std::optional<RestartIO::Helpers::AggregateAquiferData>{};

    {
        auto rstFile = OS::Restart { rset, report_step, OS::Formatted{false}, OS::Unified{true} };
        RestartIO::save(rstFile, report_step, sched.seconds(report_step), value,
                        es, grid, sched, action_state, wtest_state, st, udq_state,
                        aquiferData, /* write_double = */ true);
    }

    // ------------------------------------------------------------------
    // Load
    auto st2 = SummaryState { TimeService::now(), 0.0 };
    const auto keys = std::vector<RestartKey> {
        { "PRESSURE", M::pressure }, { "SWAT", M::identity }, { "SGAS", M::identity },
    };

    const auto loaded = RestartIO::load(OS::outputFileName(rset, "UNRST"), report_step,
                                        action_state, st2, keys, es, grid, sched);


    {
        auto erst = std::make_shared<EclIO::ERst>(OS::outputFileName(rset, "UNRST"));
        auto view = std::make_shared<EclIO::RestartFileView>(erst, report_step);
        const auto state = RestartIO::RstState::load(view, es.runspec(), Parser{}, &grid);
        const auto& rw = state.get_well("PROD");
        std::cout << "RstWell PROD segments:";
        for (const auto& s : rw.segments) std::cout << " " << s.segment << "(outlet " << s.outlet_segment << ", branch " << s.branch << ")";
        std::cout << "\nschedule segments:";
        for (const auto& seg : prod.getSegments()) std::cout << " " << seg.segmentNumber() << "(outlet " << seg.outletSegment() << ", branch " << seg.branchNumber() << ")";
        std::cout << "\n";
        const auto& iseg = view->getKeyword<int>("ISEG");
        const int nisegz = view->intehead()[178];
        std::cout << "ISEG[SegNo] per window:";
        for (int w = 0; w < 20; ++w) std::cout << " " << iseg[w * nisegz + 0];
        std::cout << "\n";
        try {
            auto deck2 = Parser{}.parseString(std::string(deck_string).replace(std::string(deck_string).find("SCHEDULE\n"), 9, "SCHEDULE\nSKIPREST\n"));
            EclipseState es2(deck2);
            Schedule s2(deck2, es2, std::make_shared<Python>(), false, false, true, std::nullopt, &state);
            std::cout << "restarted schedule segments:";
            for (const auto& seg : s2.getWell("PROD", 0).getSegments()) std::cout << " " << seg.segmentNumber();
            std::cout << "\n";
        } catch (const std::exception& e) { std::cout << "restarted schedule throws: " << e.what() << "\n"; }
    }
    // ------------------------------------------------------------------
    // Compare segment results of the flowing MS well
    const auto& lw = loaded.wells.at("PROD");
    if (lw.segments.size() != prod.getSegments().size()) {
        std::cout << "MISMATCH number of restored segments: " << lw.segments.size()
                  << " vs " << prod.getSegments().size() << '\n';
        ++nfail;
    }

    for (const auto& seg : prod.getSegments()) {
        const auto n   = seg.segmentNumber();
        const auto pos = lw.segments.find(n);
        if (pos == lw.segments.end()) {
            std::cout << "MISMATCH segment " << n << " missing after restart\n";
            ++nfail;
            continue;
        }

        const auto& s   = pos->second;
        const auto  tag = "PROD segment " + std::to_string(n) + ' ';

        check_close(tag + "pressure [Pa]",
                    usys.to_si(M::pressure, 200.0 + 1.5*n),
                    s.pressures[data::SegmentPressures::Value::Pressure]);

        check_close(tag + "oil rate [m3/s]",
                    -usys.to_si(M::liquid_surface_rate, 100.0 + 7.0*n),
                    s.rates.get(data::Rates::opt::oil, 0.0));

        check_close(tag + "water rate [m3/s]",
                    -usys.to_si(M::liquid_surface_rate, 10.0 + 3.0*n),
                    s.rates.get(data::Rates::opt::wat, 0.0));

        check_close(tag + "gas rate [m3/s]",
                    -usys.to_si(M::gas_surface_rate, 5000.0 + 11.0*n),
                    s.rates.get(data::Rates::opt::gas, 0.0));
    }

    std::filesystem::remove_all(dir);

    if (nfail != 0) {
        std::cout << "FAIL: " << nfail << " segment quantities changed across the restart\n";
        return 1;
    }

    std::cout << "PASS: all segment pressures and rates restored\n";
    return 0;
}
