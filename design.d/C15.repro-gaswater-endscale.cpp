// C15, fifth round, observation G1: a gas-water deck (GAS + WATER, SWFN/SGFN) with ENDSCALE and per-cell end-point arrays.
// Prints the curves at the scaled end-points with and without ENDSCALE on the unchanged code.
// Build: as design.d/C15.repro-killough-open.cpp
#include <config.h>

#include <opm/material/fluidmatrixinteractions/EclMaterialLawManager.hpp>
#include <opm/material/fluidstates/SimpleModularFluidState.hpp>
#include <opm/input/eclipse/Deck/Deck.hpp>
#include <opm/input/eclipse/EclipseState/EclipseState.hpp>
#include <opm/input/eclipse/EclipseState/Grid/FieldPropsManager.hpp>
#include <opm/input/eclipse/Parser/Parser.hpp>

#include <array>
#include <cmath>
#include <cstdio>
#include <functional>

using Traits = Opm::ThreePhaseMaterialTraits<double, 0, 1, 2>;
using Manager = Opm::EclMaterialLawManager<Traits>;
using MaterialLaw = Manager::MaterialLaw;
using FluidState = Opm::SimpleModularFluidState<double, 3, 3, void, false, false, false, false, true, false, false, false>;

static std::string deck(bool endscale)
{
    std::string s = "RUNSPEC\nDIMENS\n 1 1 1 /\nTABDIMS\n 1 /\nGAS\nWATER\nMETRIC\n";
    if (endscale) s += "ENDSCALE\n 'NODIR' 'REVERS' 1 20 /\n";
    s += "GRID\nDX\n 100 /\nDY\n 100 /\nDZ\n 10 /\nTOPS\n 2000 /\nPORO\n 0.2 /\nPERMX\n 100 /\nPROPS\n"
         "SWFN\n 0.2 0 2.0\n 0.4 0.1 1.0\n 0.7 0.4 0.5\n 1.0 0.8 0 /\n"
         "SGFN\n 0 0 0\n 0.1 0 0\n 0.5 0.3 0\n 0.8 0.6 0 /\n";
    if (endscale) s += "SWL\n 0.1 /\nSWCR\n 0.3 /\nSWU\n 1.0 /\nSGL\n 0 /\nSGCR\n 0.25 /\nSGU\n 0.9 /\nKRW\n 0.5 /\nKRG\n 0.9 /\nPCW\n 4.0 /\n";
    return s;
}

int main()
{
    const std::function<std::vector<int>(const Opm::FieldPropsManager&, const std::string&, bool)> lookup =
        [](const Opm::FieldPropsManager& fp, const std::string& kw, bool tr) {
            std::vector<int> d; for (int v : fp.get_int(kw)) d.push_back(v - tr); return d; };
    const std::function<unsigned(unsigned)> id = [](unsigned e) { return e; };
    double out[2][5];
    for (int e = 0; e < 2; ++e) {
        Opm::Parser parser;
        const auto dk = parser.parseString(deck(e == 1));
        Opm::EclipseState es(dk);
        Manager m;
        m.initFromState(es);
        m.initParamsForElements(es, 1, lookup, id);
        auto ev = [&](double sw, int what) {
            FluidState fs; fs.setSaturation(0, sw); fs.setSaturation(1, 0.0); fs.setSaturation(2, 1 - sw);
            std::array<double, 3> kr{}, pc{};
            MaterialLaw::relativePermeabilities(kr, m.materialLawParams(0), fs);
            MaterialLaw::capillaryPressures(pc, m.materialLawParams(0), fs);
            return what == 0 ? kr[0] : what == 1 ? kr[2] : pc[2] - pc[0]; };
        out[e][0] = ev(1.0, 0);          // krw at SWU = 1          expected with ENDSCALE: KRW = 0.5
        out[e][1] = ev(0.25, 0);         // krw at Sw = 0.25 < SWCR expected with ENDSCALE: 0 (table: 0.025)
        out[e][2] = ev(0.1, 1);          // krg at Sg = 0.9 = SGU   expected with ENDSCALE: KRG = 0.9
        out[e][3] = ev(0.8, 1);          // krg at Sg = 0.2 < SGCR  expected with ENDSCALE: 0 (table: 0.075)
        out[e][4] = ev(0.1, 2);          // pcgw at SWL = 0.1       expected with ENDSCALE: PCW = 4 bar
    }
    const char* what[5] = {"krw(Sw=1)   [KRW 0.5]", "krw(Sw=0.25) [SWCR 0.3 -> 0]", "krg(Sg=0.9) [KRG 0.9]", "krg(Sg=0.2) [SGCR 0.25 -> 0]", "pcgw(Sw=0.1) [PCW 4e5 Pa]"};
    for (int k = 0; k < 5; ++k) std::printf("%-32s without ENDSCALE %.6g   with ENDSCALE + arrays %.6g\n", what[k], out[0][k], out[1][k]);
    return 0;
}
