// Reproduction of the C11 findings F7-F12 on the real code (no /verif machinery needed).
//   g++ -std=c++17 -O1 -I$REPO -I$BUILD -I$BUILD/include C11.repro.cpp $BUILD/lib/libopmcommon.a \
//       -L/root/miniconda/lib -lfmt -lboost_system -lboost_filesystem -lcjson -fopenmp -o repro
//   LD_LIBRARY_PATH=/root/miniconda/lib ./repro
// Every line printed shows  <public query>: original -> copy after pack/unpack.
#include <opm/common/OpmLog/KeywordLocation.hpp>
#include <opm/common/utility/MemPacker.hpp>
#include <opm/common/utility/OpmInputError.hpp>
#include <opm/common/utility/Serializer.hpp>
#include <opm/common/utility/TimeService.hpp>
#include <opm/input/eclipse/Deck/Deck.hpp>
#include <opm/input/eclipse/Deck/DeckItem.hpp>
#include <opm/input/eclipse/Deck/DeckKeyword.hpp>
#include <opm/input/eclipse/Deck/DeckRecord.hpp>
#include <opm/input/eclipse/EclipseState/Aquifer/Aquancon.hpp>
#include <opm/input/eclipse/EclipseState/Aquifer/AquiferCT.hpp>
#include <opm/input/eclipse/EclipseState/Aquifer/AquiferConfig.hpp>
#include <opm/input/eclipse/EclipseState/Aquifer/Aquifetp.hpp>
#include <opm/input/eclipse/EclipseState/EclipseConfig.hpp>
#include <opm/input/eclipse/EclipseState/Grid/EclipseGrid.hpp>
#include <opm/input/eclipse/EclipseState/Grid/FIPRegionStatistics.hpp>
#include <opm/input/eclipse/EclipseState/Grid/FaceDir.hpp>
#include <opm/input/eclipse/EclipseState/Grid/Fault.hpp>
#include <opm/input/eclipse/EclipseState/Grid/FaultCollection.hpp>
#include <opm/input/eclipse/EclipseState/Grid/FaultFace.hpp>
#include <opm/input/eclipse/EclipseState/Grid/FieldPropsManager.hpp>
#include <opm/input/eclipse/EclipseState/Grid/MULTREGTScanner.hpp>
#include <opm/input/eclipse/EclipseState/Grid/NNC.hpp>
#include <opm/input/eclipse/EclipseState/Grid/TranCalculator.hpp>
#include <opm/input/eclipse/EclipseState/Grid/TransMult.hpp>
#include <opm/input/eclipse/EclipseState/IOConfig/IOConfig.hpp>
#include <opm/input/eclipse/EclipseState/InitConfig/Equil.hpp>
#include <opm/input/eclipse/EclipseState/InitConfig/FoamConfig.hpp>
#include <opm/input/eclipse/EclipseState/InitConfig/InitConfig.hpp>
#include <opm/input/eclipse/EclipseState/Runspec.hpp>
#include <opm/input/eclipse/EclipseState/SimulationConfig/BCConfig.hpp>
#include <opm/input/eclipse/EclipseState/SimulationConfig/DatumDepth.hpp>
#include <opm/input/eclipse/EclipseState/SimulationConfig/RockConfig.hpp>
#include <opm/input/eclipse/EclipseState/SimulationConfig/SimulationConfig.hpp>
#include <opm/input/eclipse/EclipseState/SimulationConfig/ThresholdPressure.hpp>
#include <opm/input/eclipse/EclipseState/SummaryConfig/SummaryConfig.hpp>
#include <opm/input/eclipse/EclipseState/Tables/Aqudims.hpp>
#include <opm/input/eclipse/EclipseState/Tables/ColumnSchema.hpp>
#include <opm/input/eclipse/EclipseState/Tables/DenT.hpp>
#include <opm/input/eclipse/EclipseState/Tables/Eqldims.hpp>
#include <opm/input/eclipse/EclipseState/Tables/EzrokhiTable.hpp>
#include <opm/input/eclipse/EclipseState/Tables/FlatTable.hpp>
#include <opm/input/eclipse/EclipseState/Tables/JFunc.hpp>
#include <opm/input/eclipse/EclipseState/Tables/PlymwinjTable.hpp>
#include <opm/input/eclipse/EclipseState/Tables/PlyshlogTable.hpp>
#include <opm/input/eclipse/EclipseState/Tables/PvtgTable.hpp>
#include <opm/input/eclipse/EclipseState/Tables/PvtoTable.hpp>
#include <opm/input/eclipse/EclipseState/Tables/Regdims.hpp>
#include <opm/input/eclipse/EclipseState/Tables/Rock2dTable.hpp>
#include <opm/input/eclipse/EclipseState/Tables/Rock2dtrTable.hpp>
#include <opm/input/eclipse/EclipseState/Tables/RocktabTable.hpp>
#include <opm/input/eclipse/EclipseState/Tables/SimpleTable.hpp>
#include <opm/input/eclipse/EclipseState/Tables/SkprpolyTable.hpp>
#include <opm/input/eclipse/EclipseState/Tables/SkprwatTable.hpp>
#include <opm/input/eclipse/EclipseState/Tables/Tabdims.hpp>
#include <opm/input/eclipse/EclipseState/Tables/TableColumn.hpp>
#include <opm/input/eclipse/EclipseState/Tables/TableContainer.hpp>
#include <opm/input/eclipse/EclipseState/Tables/TableManager.hpp>
#include <opm/input/eclipse/EclipseState/Tables/TableSchema.hpp>
#include <opm/input/eclipse/EclipseState/TracerConfig.hpp>
#include <opm/input/eclipse/Parser/ErrorGuard.hpp>
#include <opm/input/eclipse/Parser/ParseContext.hpp>
#include <opm/input/eclipse/Parser/Parser.hpp>
#include <opm/input/eclipse/Python/Python.hpp>
#include <opm/input/eclipse/Schedule/Action/ASTNode.hpp>
#include <opm/input/eclipse/Schedule/Action/ActionAST.hpp>
#include <opm/input/eclipse/Schedule/Action/ActionResult.hpp>
#include <opm/input/eclipse/Schedule/Action/ActionX.hpp>
#include <opm/input/eclipse/Schedule/Action/Actions.hpp>
#include <opm/input/eclipse/Schedule/Action/Condition.hpp>
#include <opm/input/eclipse/Schedule/Action/PyAction.hpp>
#include <opm/input/eclipse/Schedule/Action/State.hpp>
#include <opm/input/eclipse/Schedule/Events.hpp>
#include <opm/input/eclipse/Schedule/GasLiftOpt.hpp>
#include <opm/input/eclipse/Schedule/Group/GConSale.hpp>
#include <opm/input/eclipse/Schedule/Group/GConSump.hpp>
#include <opm/input/eclipse/Schedule/Group/Group.hpp>
#include <opm/input/eclipse/Schedule/Group/GroupEconProductionLimits.hpp>
#include <opm/input/eclipse/Schedule/Group/GuideRate.hpp>
#include <opm/input/eclipse/Schedule/Group/GuideRateConfig.hpp>
#include <opm/input/eclipse/Schedule/Group/GuideRateModel.hpp>
#include <opm/input/eclipse/Schedule/MSW/AICD.hpp>
#include <opm/input/eclipse/Schedule/MSW/SICD.hpp>
#include <opm/input/eclipse/Schedule/MSW/Valve.hpp>
#include <opm/input/eclipse/Schedule/MSW/WellSegments.hpp>
#include <opm/input/eclipse/Schedule/MSW/icd.hpp>
#include <opm/input/eclipse/Schedule/MessageLimits.hpp>
#include <opm/input/eclipse/Schedule/Network/Balance.hpp>
#include <opm/input/eclipse/Schedule/Network/ExtNetwork.hpp>
#include <opm/input/eclipse/Schedule/Network/Node.hpp>
#include <opm/input/eclipse/Schedule/OilVaporizationProperties.hpp>
#include <opm/input/eclipse/Schedule/RFTConfig.hpp>
#include <opm/input/eclipse/Schedule/RPTConfig.hpp>
#include <opm/input/eclipse/Schedule/RSTConfig.hpp>
#include <opm/input/eclipse/Schedule/ResCoup/ReservoirCouplingInfo.hpp>
#include <opm/input/eclipse/Schedule/Schedule.hpp>
#include <opm/input/eclipse/Schedule/ScheduleState.hpp>
#include <opm/input/eclipse/Schedule/ScheduleTypes.hpp>
#include <opm/input/eclipse/Schedule/SummaryState.hpp>
#include <opm/input/eclipse/Schedule/Tuning.hpp>
#include <opm/input/eclipse/Schedule/UDQ/UDQASTNode.hpp>
#include <opm/input/eclipse/Schedule/UDQ/UDQActive.hpp>
#include <opm/input/eclipse/Schedule/UDQ/UDQAssign.hpp>
#include <opm/input/eclipse/Schedule/UDQ/UDQConfig.hpp>
#include <opm/input/eclipse/Schedule/UDQ/UDQDefine.hpp>
#include <opm/input/eclipse/Schedule/UDQ/UDQFunction.hpp>
#include <opm/input/eclipse/Schedule/UDQ/UDQFunctionTable.hpp>
#include <opm/input/eclipse/Schedule/UDQ/UDQInput.hpp>
#include <opm/input/eclipse/Schedule/UDQ/UDQState.hpp>
#include <opm/input/eclipse/Schedule/VFPInjTable.hpp>
#include <opm/input/eclipse/Schedule/VFPProdTable.hpp>
#include <opm/input/eclipse/Schedule/Well/Connection.hpp>
#include <opm/input/eclipse/Schedule/Well/FilterCake.hpp>
#include <opm/input/eclipse/Schedule/Well/NameOrder.hpp>
#include <opm/input/eclipse/Schedule/Well/PAvg.hpp>
#include <opm/input/eclipse/Schedule/Well/WDFAC.hpp>
#include <opm/input/eclipse/Schedule/Well/WList.hpp>
#include <opm/input/eclipse/Schedule/Well/WListManager.hpp>
#include <opm/input/eclipse/Schedule/Well/WVFPDP.hpp>
#include <opm/input/eclipse/Schedule/Well/WVFPEXP.hpp>
#include <opm/input/eclipse/Schedule/Well/Well.hpp>
#include <opm/input/eclipse/Schedule/Well/WellBrineProperties.hpp>
#include <opm/input/eclipse/Schedule/Well/WellConnections.hpp>
#include <opm/input/eclipse/Schedule/Well/WellEconProductionLimits.hpp>
#include <opm/input/eclipse/Schedule/Well/WellFoamProperties.hpp>
#include <opm/input/eclipse/Schedule/Well/WellMICPProperties.hpp>
#include <opm/input/eclipse/Schedule/Well/WellMatcher.hpp>
#include <opm/input/eclipse/Schedule/Well/WellPolymerProperties.hpp>
#include <opm/input/eclipse/Schedule/Well/WellTestConfig.hpp>
#include <opm/input/eclipse/Schedule/Well/WellTestState.hpp>
#include <opm/input/eclipse/Schedule/Well/WellTracerProperties.hpp>
#include <opm/input/eclipse/Schedule/WriteRestartFileEvents.hpp>
#include <opm/input/eclipse/Units/Dimension.hpp>
#include <opm/input/eclipse/Units/UnitSystem.hpp>
#include <opm/output/data/Aquifer.hpp>
#include <opm/output/eclipse/RestartValue.hpp>

#include <opm/input/eclipse/Parser/InputErrorAction.hpp>
#include <opm/input/eclipse/EclipseState/EclipseState.hpp>
#include <opm/input/eclipse/EclipseState/SummaryConfig/SummaryConfig.hpp>
#include <iostream>

static const char* DECK = R"(
RUNSPEC
DIMENS
 5 5 3 /
OIL
WATER
GAS
METRIC
START
 1 'JAN' 2020 /
WELLDIMS
 4 5 3 4 /
TABDIMS
/
NETWORK
 5 4 /
GRID
DX
 75*100 /
DY
 75*100 /
DZ
 75*10 /
TOPS
 25*2000 /
PORO
 75*0.2 /
PERMX
 75*100 /
PERMY
 75*100 /
PERMZ
 75*10 /
PROPS
SWOF
 0.2 0 1 0
 1.0 1 0 0 /
SGOF
 0 0 1 0
 0.8 1 0 0 /
DENSITY
 850 1000 1 /
PVTW
 270 1.03 4.6E-5 0.3 0 /
ROCK
 270 1e-5 /
PVDG
 50 0.02 0.01
 300 0.004 0.02 /
PVDO
 50 1.1 1.0
 300 1.0 1.2 /
SOLUTION
EQUIL
 2050 250 2200 0 2000 0 1 0 0 /
SUMMARY
FOPR
RUNSUM
SCHEDULE
WELSPECS
 'P1' 'G1' 1 1 1* 'OIL' /
/
COMPDAT
 'P1' 1 1 1 2 'OPEN' 1* 1* 0.2 /
/
WCONHIST
 'P1' 'OPEN' 'ORAT' 1000 0 0 3* 80.0 /
/
WELTARG
 'P1' 'BHP' 60 /
/
ACTIONX
 'A1' 1 /
 FOPR > 100 /
/
COMPDAT
 'P1' 3 3 2 3 'OPEN' 1* 1* 0.2 /
/
ENDACTIO
TSTEP
 0.00001 /
GECON
 'G1' 10 100 0.9 2* 'NONE' 'NO' /
/
TSTEP
 10 /
END
)";

int main() {
    using namespace Opm;
    ParseContext pc(InputErrorAction::IGNORE); ErrorGuard eg; Parser parser;
    const auto deck = parser.parseString(DECK, pc, eg);
    EclipseState es(deck);
    Schedule sched(deck, es, pc, eg, std::make_shared<Python>());
    SummaryConfig smry(deck, sched, es.fieldProps(), es.aquifer(), pc, eg);
    eg.clear();

    Serialization::MemPacker packer;
    Serializer ser(packer);
    Schedule sched2; EclipseState es2; SummaryConfig smry2;
    ser.pack(sched); ser.unpack(sched2);
    ser.pack(es);    ser.unpack(es2);
    ser.pack(smry);  ser.unpack(smry2);

    std::cout << "F7  Schedule == copy                       : " << (sched == sched2) << "\n";
    for (std::size_t i = 0; i + 1 < sched.size(); ++i)
        std::cout << "F7  sched[" << i << "] start..end [ms]               : " << sched[i].start_time().time_since_epoch().count() << ".."
                  << sched[i].end_time().time_since_epoch().count() << " -> " << sched2[i].start_time().time_since_epoch().count() << ".."
                  << sched2[i].end_time().time_since_epoch().count() << "\n";
    std::cout << "F8  getPossibleFutureConnections().size()  : " << sched.getPossibleFutureConnections().size()
              << " -> " << sched2.getPossibleFutureConnections().size() << "\n";
    std::cout << "F9  SummaryConfig::createRunSummary()      : " << smry.createRunSummary() << " -> " << smry2.createRunSummary()
              << "   (== says " << (smry == smry2) << ")\n";
    std::cout << "F10 runspec().networkDimensions().active() : " << es.runspec().networkDimensions().active()
              << " -> " << es2.runspec().networkDimensions().active() << "\n";
    std::cout << "F11 gecon().get_group(G1).reportStep()     : " << sched[1].gecon().get_group("G1").reportStep()
              << " -> " << sched2[1].gecon().get_group("G1").reportStep() << "\n";
    std::cout << "F12 P1 production bhp_hist_limit_defaulted : " << sched.getWell("P1", 1).getProductionProperties().bhp_hist_limit_defaulted
              << " -> " << sched2.getWell("P1", 1).getProductionProperties().bhp_hist_limit_defaulted << "\n";
}
