// C15 harness, deck level: random decks (SWOF/SGOF or the equivalent SWFN/SGFN/SOF3, several
// SATNUM / IMBNUM regions, ENDSCALE with per-cell end-point arrays, SCALECRS, EHYSTR Carlson)
// are parsed by the real parser, turned into an EclipseState and handed to the real
// EclMaterialLawManager::initFromState / initParamsForElements.
//   corr : what the manager built for a cell (configuration, unscaled / scaled points,
//          effective tables) and what it answers (relativePermeabilities, capillaryPressures,
//          after updateHysteresis steps) versus the Lean model fed with the *parsed* tables
//          and per-cell arrays only;  table-derived end-points (satfunc::getRawTableEndpoints,
//          getRawFunctionValues and the defaulted field properties) versus the model's scanners.
//   prop : the property's own statement on the real code alone.
#include <config.h>

#include <opm/material/fluidmatrixinteractions/EclMaterialLawManager.hpp>
#include <opm/material/fluidmatrixinteractions/EclEpsConfig.hpp>
#include <opm/material/fluidmatrixinteractions/EclEpsScalingPoints.hpp>
#include <opm/material/fluidstates/SimpleModularFluidState.hpp>

#include <opm/input/eclipse/Deck/Deck.hpp>
#include <opm/input/eclipse/EclipseState/EclipseState.hpp>
#include <opm/input/eclipse/EclipseState/Grid/FieldPropsManager.hpp>
#include <opm/input/eclipse/EclipseState/Grid/SatfuncPropertyInitializers.hpp>
#include <opm/input/eclipse/EclipseState/Tables/SgfnTable.hpp>
#include <opm/input/eclipse/EclipseState/Tables/SgofTable.hpp>
#include <opm/input/eclipse/EclipseState/Tables/Sof3Table.hpp>
#include <opm/input/eclipse/EclipseState/Tables/SwfnTable.hpp>
#include <opm/input/eclipse/EclipseState/Tables/SwofTable.hpp>
#include <opm/input/eclipse/EclipseState/Tables/TableManager.hpp>
#include <opm/input/eclipse/Parser/Parser.hpp>

#include "common/vh.hpp"

#include <algorithm>
#include <array>
#include <cmath>
#include <functional>
#include <iostream>
#include <memory>
#include <set>

using vh::hexF64;

using Traits = Opm::ThreePhaseMaterialTraits<double, 0, 1, 2>;
using Manager = Opm::EclMaterialLawManager<Traits>;
using MaterialLaw = Manager::MaterialLaw;
using FluidState = Opm::SimpleModularFluidState<double, 3, 3, void, false, false, false, false, true, false, false, false>;
enum { W = 0, O = 1, G = 2 };

static std::string hx(double d) { return std::isnan(d) ? std::string("nan") : hexF64(d); }
static std::string hxl(const std::vector<double>& v)
{
    if (v.empty()) return "-";
    std::string s;
    for (size_t i = 0; i < v.size(); ++i) { if (i) s += ','; s += hx(v[i]); }
    return s;
}
static std::string num(double d) { char b[40]; std::snprintf(b, sizeof b, "%.17g", d); return b; }

// ------------------------------------------------------------------------------------------
// random saturation-function curves of one region (deck units: METRIC, pressures in bar)

struct Region {
    std::vector<double> sw, krw, krow, pcow;      // SWOF
    std::vector<double> sg, krg, krog, pcog;      // SGOF
    std::vector<double> so, krow3, krog3;         // SOF3 built from the same curves
    bool sharedNodes = false;
};

// linear interpolation that returns the tabulated value exactly at a node
static double interp(const std::vector<double>& x, const std::vector<double>& y, double a)
{
    const int n = x.size();
    if (a <= x.front()) return y.front();
    if (a >= x.back()) return y.back();
    for (int i = 0; i + 1 < n; ++i) {
        if (a == x[i]) return y[i];
        if (a < x[i + 1]) return y[i] + (y[i + 1] - y[i]) * ((a - x[i]) / (x[i + 1] - x[i]));
    }
    return y.back();
}

// all saturations are multiples of 1/256: sums and differences of them are exact in binary
// floating point, so the two keyword families describe *bitwise* the same sample positions
static std::vector<double> dyadicNodes(vh::Rng& r, int lo, int hi, int n)
{
    std::set<int> k{lo, hi};
    while (static_cast<int>(k.size()) < n) k.insert(r.range(lo + 1, hi - 1));
    std::vector<double> v;
    for (int i : k) v.push_back(i / 256.0);
    return v;
}

struct GenOpt { bool strict = false; bool smallKr = false; bool zeroPc = false; bool shared = false; double exactTol = 0.0; };

static Region makeRegion(vh::Rng& r, const GenOpt& o)
{
    Region R;
    const int a = r.range(8, 64);                                  // Swco = a/256
    const int nw = r.range(3, 10);
    R.sw = dyadicNodes(r, a, 256, nw);
    const int n = R.sw.size();
    const double kromax = 0.5 + 0.5 * r.unit();
    auto increasing = [&](int nn, int p, double vmax) {           // 0 for the first p samples, then strictly increasing to vmax
        std::vector<double> v(nn, 0.0);
        double acc = 0.0;
        for (int i = p; i < nn; ++i) { acc += (o.smallKr && i == p) ? 0.004 + 0.01 * r.unit() : 0.05 + r.unit(); v[i] = acc; }
        for (int i = p; i < nn; ++i) v[i] *= vmax / acc;
        if (nn > p) v[nn - 1] = vmax;
        if (o.exactTol > 0.0 && p + 1 < nn && v[p] < o.exactTol && o.exactTol < v[p + 1]) v[p] = o.exactTol;   // a relperm exactly at TOLCRIT
        return v;
    };
    auto decreasing = [&](int nn, int q, double vmax) {           // vmax at 0, strictly decreasing to 0 at q, 0 after; optional top plateau
        std::vector<double> up = increasing(q + 1, 1, vmax), v(nn, 0.0);
        for (int i = 0; i <= q; ++i) v[i] = up[q - i];
        if (!o.strict && q >= 2 && r.coin(1, 4)) v[1] = v[0];
        return v;
    };
    {
        const int p = r.range(1, std::max(1, (n - 1) / 2));        // Swcr = sw[p-1]
        const int q = r.range(p, n - 1);                           // 1 - Sowcr = sw[q]  (>= first mobile water sample)
        R.krw = increasing(n, p, 0.3 + 0.7 * r.unit());
        R.krow = decreasing(n, q, kromax);
        R.pcow.assign(n, 0.0);
        if (!o.zeroPc) {
            double acc = 0.0;
            std::vector<double> up(n, 0.0);
            for (int i = 1; i < n; ++i) { if (o.strict || r.coin(3, 4)) acc += 0.02 + 0.5 * r.unit(); up[i] = acc; }
            if (acc == 0.0) { acc = 0.3; up[n - 1] = acc; }
            for (int i = 0; i < n; ++i) R.pcow[i] = up[n - 1 - i];
        }
    }
    {
        R.sharedNodes = o.shared;
        if (o.shared) { for (double s : R.sw) R.sg.push_back(s - a / 256.0); }
        else R.sg = dyadicNodes(r, 0, 256 - a, r.range(3, 10));
        const int m = R.sg.size();
        const int p = r.range(1, std::max(1, (m - 1) / 2));        // Sgcr = sg[p-1]
        const int q = r.range(p, m - 1);
        R.krg = increasing(m, p, 0.3 + 0.7 * r.unit());
        R.krog = decreasing(m, q, kromax);
        R.pcog.assign(m, 0.0);
        if (!o.zeroPc) {
            double acc = 0.0;
            for (int i = 1; i < m; ++i) { if (o.strict || r.coin(3, 4)) acc += 0.02 + 0.5 * r.unit(); R.pcog[i] = acc; }
            if (acc == 0.0) R.pcog[m - 1] = 0.3;
        }
    }
    {   // SOF3: So nodes = {1 - Sw_i} U {1 - Swco - Sg_j}, both oil relperms sampled there
        std::set<double> nodes;
        const double sgu = R.sg.back();
        for (double s : R.sw) nodes.insert(1.0 - s);
        for (double g : R.sg) nodes.insert(sgu - g);
        for (double s : nodes) { R.so.push_back(s); R.krow3.push_back(interp(R.sw, R.krow, 1.0 - s)); R.krog3.push_back(interp(R.sg, R.krog, sgu - s)); }
    }
    return R;
}

// ------------------------------------------------------------------------------------------
// deck

static const char* const EPS_KW[17] = {"SWL", "SGL", "SWCR", "SGCR", "SOWCR", "SOGCR", "SWU", "SGU", "PCW", "PCG",
                                       "KRWR", "KRGR", "KRORW", "KRORG", "KRW", "KRG", "KRO"};

struct DeckSpec {
    int family = 1;
    int ncell = 6;
    std::vector<Region> regions;
    std::vector<int> satnum, imbnum;
    bool endscale = false, threepoint = false, hyst = false;
    int krModel = 0;                                               // EHYSTR item 2: 0/1 Carlson, 2/3 Killough (non-wetting phase)
    double modParam = 0.1;                                         // EHYSTR item 4
    double curvature = 0.1;                                        // EHYSTR item 1 (curvature of the Pc scanning curves)
    std::string ehystrFlag = "KR";
    bool hasTolcrit = false; double tolcrit = 1e-6;
    bool maskD[17] = {}, maskI[17] = {};
    std::vector<std::array<double, 17>> arrD, arrI;                // per cell, deck units
    int threePhaseModel = 0;                                       // 0 default, 1 STONE1, 2 STONE2
};

static void table(std::string& s, std::initializer_list<const std::vector<double>*> cols)
{
    const size_t n = (*cols.begin())->size();
    for (size_t i = 0; i < n; ++i) {
        for (auto* c : cols) { s += ' '; s += num((*c)[i]); }
        s += i + 1 == n ? " /\n" : "\n";
    }
}

static std::string deckText(const DeckSpec& d)
{
    std::string s = "RUNSPEC\nDIMENS\n " + std::to_string(d.ncell) + " 1 1 /\nTABDIMS\n " + std::to_string(d.regions.size()) + " /\nOIL\nGAS\nWATER\nMETRIC\n";
    if (d.endscale) s += "ENDSCALE\n 'NODIR' 'REVERS' 1 20 /\n";
    if (d.hyst) s += "SATOPTS\n HYSTER /\n";
    s += "GRID\nDX\n " + std::to_string(d.ncell) + "*100 /\nDY\n " + std::to_string(d.ncell) + "*100 /\nDZ\n " + std::to_string(d.ncell) +
         "*10 /\nTOPS\n " + std::to_string(d.ncell) + "*2000 /\nPORO\n " + std::to_string(d.ncell) + "*0.2 /\nPERMX\n " + std::to_string(d.ncell) + "*100 /\n";
    s += "PROPS\n";
    if (d.threePhaseModel == 1) s += "STONE1\n";
    if (d.threePhaseModel == 2) s += "STONE2\n";
    if (d.hasTolcrit) s += "TOLCRIT\n " + num(d.tolcrit) + " /\n";
    if (d.family == 1) {
        s += "SWOF\n"; for (auto& R : d.regions) table(s, {&R.sw, &R.krw, &R.krow, &R.pcow});
        s += "SGOF\n"; for (auto& R : d.regions) table(s, {&R.sg, &R.krg, &R.krog, &R.pcog});
    } else {
        s += "SWFN\n"; for (auto& R : d.regions) table(s, {&R.sw, &R.krw, &R.pcow});
        s += "SGFN\n"; for (auto& R : d.regions) table(s, {&R.sg, &R.krg, &R.pcog});
        s += "SOF3\n"; for (auto& R : d.regions) table(s, {&R.so, &R.krow3, &R.krog3});
    }
    if (d.endscale) s += std::string("SCALECRS\n ") + (d.threepoint ? "YES" : "NO") + " /\n";
    if (d.hyst) s += "EHYSTR\n " + num(d.curvature) + " " + std::to_string(d.krModel) + " 1.0 " + num(d.modParam) + " " + d.ehystrFlag + " /\n";
    auto arrays = [&](const bool* mask, const std::vector<std::array<double, 17>>& arr, const char* prefix) {
        for (int k = 0; k < 17; ++k) {
            if (!mask[k]) continue;
            s += std::string(prefix) + EPS_KW[k] + "\n";
            for (int c = 0; c < d.ncell; ++c) s += " " + num(arr[c][k]);
            s += " /\n";
        }
    };
    if (d.endscale) { arrays(d.maskD, d.arrD, ""); if (d.hyst) arrays(d.maskI, d.arrI, "I"); }
    s += "REGIONS\nSATNUM\n";
    for (int c = 0; c < d.ncell; ++c) s += " " + std::to_string(d.satnum[c]);
    s += " /\n";
    if (d.hyst) { s += "IMBNUM\n"; for (int c = 0; c < d.ncell; ++c) s += " " + std::to_string(d.imbnum[c]); s += " /\n"; }
    return s;
}

static std::array<double, 17> randomEndpoints(vh::Rng& r, int style)
{
    std::array<double, 17> v{};
    const double swl = 0.02 + 0.18 * r.unit();
    const double swcr = swl + (style == 2 && r.coin(1, 4) ? 0.0 : 0.15 * r.unit());
    const double swu = r.coin() ? 1.0 : 1.0 - 0.1 * r.unit();
    const double sowcr = (1.0 - swu) + 0.05 + 0.2 * r.unit();                   // 1 - SOWCR - SGL stays below SWU
    const double sgl = r.coin(2, 3) ? 0.0 : 0.05 * r.unit();
    const double sgcr = sgl + 0.1 * r.unit();
    const double sgu = r.coin() ? 1.0 - swl : 1.0 - swl - 0.04 * r.unit();
    const double sogcr = 0.05 + 0.25 * r.unit();
    const double krw = 0.3 + 0.7 * r.unit(), kro = 0.5 + 0.5 * r.unit(), krg = 0.3 + 0.7 * r.unit();
    v = {swl, sgl, swcr, sgcr, sowcr, sogcr, swu, sgu, 0.1 + 3 * r.unit(), 0.1 + 3 * r.unit(),
         krw * (0.2 + 0.7 * r.unit()), krg * (0.2 + 0.7 * r.unit()), kro * (0.3 + 0.65 * r.unit()), kro * (0.3 + 0.65 * r.unit()), krw, krg, kro};
    return v;
}

struct GenCfg { int family = 0; int endscale = -1; int hyst = -1; bool strict = false; bool allowSmallKr = true; bool consistent = false; int shared = -1; int maxKrModel = 3; bool stone = false; };

static DeckSpec makeDeck(vh::Rng& r, const GenCfg& g)
{
    DeckSpec d;
    d.family = g.family ? g.family : r.range(1, 2);
    d.ncell = r.range(4, 8);
    const int nreg = r.range(1, 4);
    d.endscale = g.endscale < 0 ? r.coin(2, 3) : g.endscale;
    d.hyst = g.hyst < 0 ? r.coin(1, 2) : g.hyst;
    d.threepoint = d.endscale && r.coin();
    d.krModel = r.range(0, g.maxKrModel);
    d.modParam = r.coin(1, 3) ? 0.1 : 0.4 * r.unit();
    if (g.stone) d.threePhaseModel = r.range(0, 2);
    d.hasTolcrit = g.allowSmallKr && r.coin(1, 3);
    bool anyPcMask = false;
    for (int k = 0; k < 17; ++k) { d.maskD[k] = d.endscale && r.coin(); d.maskI[k] = d.endscale && d.hyst && r.coin(); }
    if (d.endscale && r.coin(1, 8)) for (int k = 0; k < 17; ++k) d.maskD[k] = d.maskI[k] = false;      // ENDSCALE without any array
    if (d.endscale && r.coin(1, 8)) for (int k = 0; k < 17; ++k) d.maskD[k] = true;
    if (g.consistent) {
        // the eight saturation end-points of a cell are given together or not at all: a partial set mixed with the
        // table's own values can be inconsistent (SGU + SWL > 1, SOGCR below 1 - SWL - SGU ...), which is an input error
        const bool md = d.endscale && r.coin(3, 4), mi = d.endscale && d.hyst && r.coin(3, 4);
        for (int k = 0; k < 8; ++k) { d.maskD[k] = md; d.maskI[k] = mi; }
    }
    anyPcMask = d.maskD[8] || d.maskD[9] || d.maskI[8] || d.maskI[9];
    GenOpt o;
    o.strict = g.strict;
    o.smallKr = d.hasTolcrit;
    const bool shared = g.shared < 0 ? r.coin() : g.shared;
    if (d.hasTolcrit) d.tolcrit = r.coin() ? 0.02 : 1e-3;
    if (d.hasTolcrit && r.coin()) o.exactTol = d.tolcrit;
    for (int i = 0; i < nreg; ++i) {
        o.zeroPc = !g.strict && r.coin(1, 8);        // max Pc = 0, also with PCW/PCG given: scaling factor 1 since fix eae0e8979
        o.shared = shared || d.hasTolcrit;                          // normalisation by TOLCRIT acts identically on shared nodes only
        d.regions.push_back(makeRegion(r, o));
    }
    for (int c = 0; c < d.ncell; ++c) {
        d.satnum.push_back(r.range(1, nreg));
        d.imbnum.push_back(r.range(1, nreg));
        d.arrD.push_back(randomEndpoints(r, r.range(0, 2)));
        d.arrI.push_back(randomEndpoints(r, r.range(0, 2)));
    }
    return d;
}

// ------------------------------------------------------------------------------------------
// the real code

static const std::function<std::vector<int>(const Opm::FieldPropsManager&, const std::string&, bool)> doOldLookup =
    [](const Opm::FieldPropsManager& fp, const std::string& kw, bool needsTranslation) {
        std::vector<int> dest;
        const auto& raw = fp.get_int(kw);
        dest.resize(raw.size());
        for (size_t i = 0; i < raw.size(); ++i) dest[i] = raw[i] - needsTranslation;
        return dest;
    };
static const std::function<unsigned(unsigned)> doNothing = [](unsigned e) { return e; };

struct Built {
    std::unique_ptr<Opm::EclipseState> es;
    std::unique_ptr<Manager> mgr;
};

static std::string g_current;       // path of the file holding the deck currently being processed
static std::string g_lastDeck;      // text of the deck built last (kept beside prop.txt for the first failure of each key)

static Built build(const DeckSpec& d, const std::string& text)
{
    (void) d;
    if (!g_current.empty()) vh::spit(g_current, text);
    g_lastDeck = text;
    Built b;
    Opm::Parser parser;
    const auto deck = parser.parseString(text);
    b.es = std::make_unique<Opm::EclipseState>(deck);
    b.mgr = std::make_unique<Manager>();
    b.mgr->initFromState(*b.es);
    b.mgr->initParamsForElements(*b.es, b.es->getInputGrid().getCartesianSize(), doOldLookup, doNothing);
    return b;
}

// tables as the TableManager holds them (SI), in the order the model expects
//   family 1: sw;krw;krow;pcow;sg;krg;krog;pcog      family 2: sw;krw;pcow;sg;krg;pcog;so;krow;krog
static std::string tablesStr(const Opm::EclipseState& es, int family, int reg)
{
    const auto& tm = es.getTableManager();
    auto c = [](const Opm::TableColumn& col) { return hxl(col.vectorCopy()); };
    if (family == 1) {
        const auto& a = tm.getSwofTables().getTable<Opm::SwofTable>(reg);
        const auto& b = tm.getSgofTables().getTable<Opm::SgofTable>(reg);
        return c(a.getSwColumn()) + ";" + c(a.getKrwColumn()) + ";" + c(a.getKrowColumn()) + ";" + c(a.getPcowColumn()) + ";" +
               c(b.getSgColumn()) + ";" + c(b.getKrgColumn()) + ";" + c(b.getKrogColumn()) + ";" + c(b.getPcogColumn());
    }
    const auto& a = tm.getSwfnTables().getTable<Opm::SwfnTable>(reg);
    const auto& b = tm.getSgfnTables().getTable<Opm::SgfnTable>(reg);
    const auto& o = tm.getSof3Tables().getTable<Opm::Sof3Table>(reg);
    return c(a.getSwColumn()) + ";" + c(a.getKrwColumn()) + ";" + c(a.getPcowColumn()) + ";" +
           c(b.getSgColumn()) + ";" + c(b.getKrgColumn()) + ";" + c(b.getPcogColumn()) + ";" +
           c(o.getSoColumn()) + ";" + c(o.getKrowColumn()) + ";" + c(o.getKrogColumn());
}

static std::string maskStr(const bool* m) { std::string s(17, '0'); for (int k = 0; k < 17; ++k) if (m[k]) s[k] = '1'; return s; }

// per-cell array values as the field properties hold them (SI); absent keywords: 0
static std::string arraysStr(const Opm::EclipseState& es, const bool* mask, const char* prefix, int cell)
{
    std::vector<double> v(17, 0.0);
    for (int k = 0; k < 17; ++k)
        if (mask[k]) v[k] = es.fieldProps().get_double(std::string(prefix) + EPS_KW[k])[cell];
    return hxl(v);
}

static std::string flagsStr(const DeckSpec& d)
{
    std::string f;
    f += d.endscale ? '1' : '0'; f += d.threepoint ? '1' : '0'; f += d.hyst ? '1' : '0';
    f += d.ehystrFlag == "PC" ? '-' : static_cast<char>('0' + d.krModel);          // EclHysterConfig: flag PC switches the relperm model off,
    f += d.ehystrFlag == "KR" ? '-' : '0';                                          // flag KR the capillary-pressure model
    return f;
}

// "<fam> <tolcrit> <flags> <modParam> <maskD> <tablesD> <arraysD> <maskI> <tablesI> <arraysI>"
static std::string cellSpec(const DeckSpec& d, const Opm::EclipseState& es, int cell)
{
    const double tolcrit = es.runspec().saturationFunctionControls().minimumRelpermMobilityThreshold();
    const double modParam = d.hyst ? es.runspec().hysterPar().modParamTrapped() : 0.0;
    const double curvature = d.hyst ? es.runspec().hysterPar().curvatureCapPrs() : 0.0;
    std::string s = std::to_string(d.family) + " " + hx(tolcrit) + " " + flagsStr(d) + " " + hxl({modParam, curvature}) + " " + maskStr(d.maskD) + " " +
                    tablesStr(es, d.family, d.satnum[cell] - 1) + " " + arraysStr(es, d.maskD, "", cell);
    if (d.hyst) s += " " + maskStr(d.maskI) + " " + tablesStr(es, d.family, d.imbnum[cell] - 1) + " " + arraysStr(es, d.maskI, "I", cell);
    else s += " - - -";
    return s;
}

template <class EpsParams>
static std::string epsStr(const EpsParams& p)
{
    const auto& c = p.config();
    std::string bits;
    for (bool b : {c.enableSatScaling(), c.enableThreePointKrSatScaling(), c.enableKrwScaling(), c.enableThreePointKrwScaling(),
                   c.enableKrnScaling(), c.enableThreePointKrnScaling(), c.enablePcScaling(), c.enableLeverettScaling()})
        bits += b ? '1' : '0';
    auto pts = [](const Opm::EclEpsScalingPoints<double>& q) {
        std::vector<double> v;
        for (double x : q.saturationPcPoints()) v.push_back(x);
        for (double x : q.saturationKrwPoints()) v.push_back(x);
        for (double x : q.saturationKrnPoints()) v.push_back(x);
        v.push_back(q.maxPcnw()); v.push_back(q.leverettFactor()); v.push_back(q.krwr()); v.push_back(q.maxKrw()); v.push_back(q.krnr()); v.push_back(q.maxKrn());
        return hxl(v);
    };
    const auto& pl = p.effectiveLawParams().template getRealParams<Opm::SatCurveMultiplexerApproach::PiecewiseLinear>();
    return bits + "|" + pts(p.unscaledPoints()) + "|" + pts(p.scaledPoints()) + "|" + hxl(pl.SwPcwnSamples()) + ";" + hxl(pl.pcwnSamples()) + ";" +
           hxl(pl.SwKrwSamples()) + ";" + hxl(pl.krwSamples()) + ";" + hxl(pl.SwKrnSamples()) + ";" + hxl(pl.krnSamples());
}

static auto& defaultParams(Manager& m, int cell)
{
    return m.materialLawParams(cell).template getRealParams<Opm::EclMultiplexerApproach::Default>();
}

static std::string cellReadback(Manager& m, const DeckSpec& d, int cell)
{
    auto& dp = defaultParams(m, cell);
    std::string s = hx(dp.Swl()) + " " + epsStr(dp.oilWaterParams().drainageParams()) + " " + epsStr(dp.gasOilParams().drainageParams());
    if (d.hyst) s += " " + epsStr(dp.oilWaterParams().imbibitionParams()) + " " + epsStr(dp.gasOilParams().imbibitionParams());
    return s;
}

struct Sat { double sw, so, sg; };

static FluidState fluidState(const Sat& s)
{
    FluidState fs;
    fs.setSaturation(W, s.sw); fs.setSaturation(O, s.so); fs.setSaturation(G, s.sg);
    return fs;
}

struct Vals { double krw, kro, krg, pcow, pcgo; };

static Vals evaluate(Manager& m, int cell, const Sat& s)
{
    std::array<double, 3> kr{}, pc{};
    const FluidState fs = fluidState(s);
    MaterialLaw::relativePermeabilities(kr, m.materialLawParams(cell), fs);
    MaterialLaw::capillaryPressures(pc, m.materialLawParams(cell), fs);
    // capillaryPressures stores pc[gas] = pcgn, pc[oil] = 0, pc[water] = -pcnw
    return {kr[W], kr[O], kr[G], -pc[W], pc[G]};
}

static std::string satsStr(const std::vector<Sat>& v)
{
    if (v.empty()) return "-";
    std::string s;
    for (size_t i = 0; i < v.size(); ++i) { if (i) s += ','; s += hx(v[i].sw) + ":" + hx(v[i].so) + ":" + hx(v[i].sg); }
    return s;
}

static Sat randomSat(vh::Rng& r)
{
    double a = r.unit(), b = r.unit();
    if (a + b > 1) { a = 1 - a; b = 1 - b; }
    return {a, 1 - a - b, b};
}

static std::vector<Sat> probesFor(vh::Rng& r, double swl, int n)
{
    std::vector<Sat> v;
    for (int i = 0; i < n; ++i) v.push_back(randomSat(r));
    const double sw = swl + 0.7 * r.unit() * (1 - swl);
    v.push_back({sw, 1 - sw, 0.0});                                            // two-phase oil/water
    const double sg = 0.8 * r.unit() * (1 - swl);
    v.push_back({swl, 1 - swl - sg, sg});                                      // connate water
    v.push_back({0.5 * swl, 1 - 0.5 * swl - sg, sg});                          // below connate water
    v.push_back({swl + 3e-6, 1 - swl - 7e-6, 4e-6});                           // the regularised corner of the oil relperm
    v.push_back({swl + 1e-6, 1 - swl - 3e-6, 2e-6});
    v.push_back({swl, 1 - swl, 0.0});
    v.push_back({1.0, 0.0, 0.0}); v.push_back({0.0, 0.0, 1.0}); v.push_back({-0.05, 0.6, 0.45}); v.push_back({0.3, -0.1, 0.8});
    return v;
}

static std::vector<Sat> satHistory(vh::Rng& r, int n, int style)
{
    std::vector<Sat> h;
    Sat s = randomSat(r);
    if (style == 0) s = {0.9 + 0.1 * r.unit(), 0.0, 0.0}, s.so = 1 - s.sw;     // water filled, then oil and gas invade
    for (int i = 0; i < n; ++i) {
        if (style == 0) { const double dsw = 0.01 + 0.05 * r.unit(); s.sw -= dsw; s.sg += 0.5 * dsw * r.unit(); s.sw = std::max(0.0, s.sw); s.so = 1 - s.sw - s.sg; }
        else if (style == 3) {                                                  // gas comes and goes at a constant water saturation
            if (i == 0) { s.sw = 0.05 + 0.5 * r.unit(); s.sg = 0.05 * r.unit(); }
            s.sg += (r.coin(2, 3) ? 1 : -1) * 0.08 * r.unit(); s.sg = std::min(1.0 - s.sw, std::max(0.0, s.sg)); s.so = 1 - s.sw - s.sg;
        }
        else if (style == 1) { s.sw += (r.unit() - 0.5) * 0.2; s.sg += (r.unit() - 0.5) * 0.2; s.sw = std::min(1.0, std::max(0.0, s.sw)); s.sg = std::min(1.0 - s.sw, std::max(0.0, s.sg)); s.so = 1 - s.sw - s.sg; }
        else s = randomSat(r);
        if (style == 2 && r.coin(1, 10)) s.sw = -0.02;                          // out-of-range saturations are clamped by updateHysteresis
        h.push_back(s);
    }
    return h;
}

// ------------------------------------------------------------------------------------------
// correspondence

static const char* const INFO_KW[17] = {"SWL", "SGL", "SWCR", "SGCR", "SOWCR", "SOGCR", "SWU", "SGU", "PCW", "PCG",
                                        "KRWR", "KRGR", "KRORW", "KRORG", "KRW", "KRG", "KRO"};

static void corrDecks(vh::Rng& r, vh::Sink& sink, int ndecks)
{
    for (int k = 0; k < ndecks; ++k) {
        GenCfg g;
        DeckSpec d = makeDeck(r, g);
        if (d.hyst) {                                                           // third round: model 4, flags PC / BOTH, curvature
            static const char* FLAGS[3] = {"KR", "PC", "BOTH"};
            d.ehystrFlag = FLAGS[r.range(0, 2)];
            if (r.coin(1, 4)) d.krModel = 4;
            d.curvature = r.coin(1, 3) ? 0.1 : 0.02 + 0.4 * r.unit();
        }
        const std::string text = deckText(d);
        Built b = build(d, text);
        const auto& es = *b.es;
        const double tolcrit = es.runspec().saturationFunctionControls().minimumRelpermMobilityThreshold();
        // --- table-derived end-points, per region
        const auto rtep = Opm::satfunc::getRawTableEndpoints(es.getTableManager(), es.runspec().phases(), tolcrit);
        const auto rfun = Opm::satfunc::getRawFunctionValues(es.getTableManager(), es.runspec().phases(), rtep);
        for (size_t reg = 0; reg < d.regions.size(); ++reg) {
            std::vector<double> v = {rtep.connate.water[reg], rtep.connate.gas[reg], rtep.critical.water[reg], rtep.critical.gas[reg],
                                     rtep.critical.oil_in_water[reg], rtep.critical.oil_in_gas[reg], rtep.maximum.water[reg], rtep.maximum.gas[reg],
                                     rfun.pc.w[reg], rfun.pc.g[reg], rfun.krw.r[reg], rfun.krg.r[reg], rfun.kro.rw[reg], rfun.kro.rg[reg],
                                     rfun.krw.max[reg], rfun.krg.max[reg], rfun.kro.max[reg]};
            sink.emit("satdeck.endpoints " + std::to_string(d.family) + " " + hx(tolcrit) + " " + tablesStr(es, d.family, reg), hxl(v));
            sink.count("endpoints.family=" + std::to_string(d.family));
        }
        // --- the defaulted field properties (ENDSCALE active, keyword absent from the deck): satfunc::init
        if (d.endscale) {
            for (int cell = 0; cell < d.ncell; ++cell) {
                std::vector<double> dv(17), iv(17);
                std::string which;
                for (int q = 0; q < 17; ++q) {
                    // get_copy leaves the field-property container as it was (get_double would insert the defaulted array)
                    dv[q] = es.fieldProps().get_copy<double>(INFO_KW[q], false)[cell];
                    if (d.hyst) iv[q] = es.fieldProps().get_copy<double>(std::string("I") + INFO_KW[q], false)[cell];
                }
                sink.emit("satdeck.fieldprops " + std::to_string(d.family) + " " + hx(tolcrit) + " " + maskStr(d.maskD) + " " +
                          tablesStr(es, d.family, d.satnum[cell] - 1) + " " + arraysStr(es, d.maskD, "", cell), hxl(dv));
                if (d.hyst)
                    sink.emit("satdeck.fieldprops " + std::to_string(d.family) + " " + hx(tolcrit) + " " + maskStr(d.maskI) + " " +
                              tablesStr(es, d.family, d.imbnum[cell] - 1) + " " + arraysStr(es, d.maskI, "I", cell), hxl(iv));
                sink.count("fieldprops.cells");
            }
        }
        // --- per cell: what the manager built, what it answers
        for (int cell = 0; cell < d.ncell; ++cell) {
            const std::string spec = cellSpec(d, es, cell);
            sink.emit("satdeck.cell " + spec, cellReadback(*b.mgr, d, cell));
            const double swl = defaultParams(*b.mgr, cell).Swl();
            std::vector<Sat> hist = d.hyst ? satHistory(r, r.range(1, 8), r.range(0, 2)) : std::vector<Sat>{};
            std::vector<Sat> probes = probesFor(r, swl, 4);
            std::string a;
            auto probeAll = [&]() {
                auto& dp = defaultParams(*b.mgr, cell);
                auto hs = [](const auto& P) {
                    return hx(P.krnSwMdc()) + "/" + hx(P.deltaSwImbKrn()) + "/" + hx(P.Sncrt()) + "/" + hx(P.pcSwMdc()) + "/" + hx(P.pcSwMic()) + "/" +
                           (P.initialImb() ? "1" : "0") + "/" + hx(P.Swcrt());
                };
                std::string t = !d.hyst ? std::string("-") : hs(dp.oilWaterParams()) + "/" + hs(dp.gasOilParams());
                for (const Sat& p : probes) {
                    const Vals v = evaluate(*b.mgr, cell, p);
                    t += "/" + hx(v.krw) + ":" + hx(v.kro) + ":" + hx(v.krg) + ":" + hx(v.pcow) + ":" + hx(v.pcgo);
                }
                return t;
            };
            a = probeAll();                                                     // initial state
            for (const Sat& s : hist) { b.mgr->updateHysteresis(fluidState(s), cell); a += " " + probeAll(); }
            sink.emit("satdeck.eval " + spec + " " + satsStr(hist) + " " + satsStr(probes), a);
            sink.count("cell.family=" + std::to_string(d.family)); sink.count(std::string("cell.endscale=") + (d.endscale ? (d.threepoint ? "3pt" : "2pt") : "off"));
            sink.count(std::string("cell.hyst=") + (d.hyst ? (d.krModel <= 1 ? "carlson" : "killough") + std::to_string(d.krModel) + "/" + d.ehystrFlag : "off"));
        }
        sink.count("decks");
        sink.count("decks.regions=" + std::to_string(d.regions.size()));
        if (d.hasTolcrit) sink.count("decks.tolcrit");
    }
}

// ------------------------------------------------------------------------------------------
// property mode

static bool close(double a, double b, double rel, double abs0 = 0.0) { return std::fabs(a - b) <= rel * std::max(std::fabs(a), std::fabs(b)) + abs0; }

// "the same result": both NaN counts as the same (0/0 in a degenerate vertical scaling, see design.d/C15.md)
static bool same(double a, double b, double rel, double abs0 = 0.0) { return a == b || (std::isnan(a) && std::isnan(b)) || close(a, b, rel, abs0); }

struct Chk {
    vh::PropLog& log;
    std::string outdir;
    std::set<std::string> saved;
    std::map<std::string, long> byKey;
    void operator()(bool ok, const std::string& key, const std::string& detail)
    {
        log.ok();
        ++byKey[key];
        if (ok) return;
        log.fail(key, detail);
        if (saved.insert(key).second) vh::spit(outdir + "/fail." + key + ".DATA", g_lastDeck);
    }
};

static std::string satStr(const Sat& s) { return "Sw=" + num(s.sw) + " So=" + num(s.so) + " Sg=" + num(s.sg); }

static std::map<std::string, long> propDecks(vh::Rng& r, vh::PropLog& log, int ndecks, const std::string& outdir)
{
    Chk chk{log, outdir, {}, {}};
    for (int k = 0; k < ndecks; ++k) {
        const uint64_t sub = r.next();
        auto tag = [&](int cell) { return "deck#" + std::to_string(k) + " cell " + std::to_string(cell) + " "; };
        // ---------------------------------------------------------------- (1) no scaling: the tables are honoured
        {
            vh::Rng q(sub);
            GenCfg g; g.endscale = 0; g.hyst = 0; g.allowSmallKr = false;
            DeckSpec d = makeDeck(q, g);
            Built b = build(d, deckText(d));
            for (int cell = 0; cell < d.ncell; ++cell) {
                const Region& R = d.regions[d.satnum[cell] - 1];
                const double swco = R.sw.front();
                for (size_t i = 0; i < R.sw.size(); ++i) {                          // node honouring, oil/water system (Sg = 0)
                    const Vals v = evaluate(*b.mgr, cell, {R.sw[i], 1 - R.sw[i], 0.0});
                    chk(close(v.krw, R.krw[i], 1e-12, 1e-15), "deck.node.krw", tag(cell) + "i=" + std::to_string(i) + " got " + num(v.krw) + " table " + num(R.krw[i]));
                    chk(close(v.pcow, R.pcow[i] * 1e5, 1e-12, 1e-9), "deck.node.pcow", tag(cell) + "i=" + std::to_string(i) + " got " + num(v.pcow) + " table " + num(R.pcow[i] * 1e5));
                    if (R.sw[i] - swco >= 1e-5)
                        chk(close(v.kro, R.krow[i], 1e-10, 1e-14), "deck.node.krow", tag(cell) + "i=" + std::to_string(i) + " got " + num(v.kro) + " table " + num(R.krow[i]));
                }
                for (size_t j = 0; j < R.sg.size(); ++j) {                          // gas/oil system at connate water
                    const Vals v = evaluate(*b.mgr, cell, {swco, 1 - swco - R.sg[j], R.sg[j]});
                    chk(close(v.krg, R.krg[j], 1e-12, 1e-15), "deck.node.krg", tag(cell) + "j=" + std::to_string(j) + " got " + num(v.krg) + " table " + num(R.krg[j]));
                    chk(close(v.pcgo, R.pcog[j] * 1e5, 1e-12, 1e-9), "deck.node.pcgo", tag(cell) + "j=" + std::to_string(j));
                    if (R.sg[j] >= 1e-5)
                        chk(close(v.kro, R.krog[j], 1e-10, 1e-14), "deck.node.krog", tag(cell) + "j=" + std::to_string(j) + " got " + num(v.kro) + " table " + num(R.krog[j]));
                }
                double pw = -1, pg = -1, ppc = 1e300, ppg = -1e300, pow_ = 2;
                for (int t = -5; t <= 205; ++t) {                                    // monotone interpolation, range
                    const double s = t / 200.0;
                    const Vals v = evaluate(*b.mgr, cell, {s, 1 - s, 0.0});
                    const Vals w = evaluate(*b.mgr, cell, {swco, 1 - swco - s, s});
                    chk(v.krw >= pw - 1e-15 && v.pcow <= ppc + 1e-9 && w.krg >= pg - 1e-15 && w.pcgo >= ppg - 1e-9, "deck.monotone", tag(cell) + "s=" + num(s));
                    if (s - swco >= 1e-5) { chk(v.kro <= pow_ + 1e-13, "deck.monotone.krow", tag(cell) + "Sw=" + num(s)); pow_ = v.kro; }
                    // (the evaluation y0 + (x - x0)*m of a segment ending at 0 can return -1e-17: slack 1e-15)
                    chk(v.krw >= -1e-15 && v.krw <= R.krw.back() * (1 + 1e-14) && w.krg >= -1e-15 && w.krg <= R.krg.back() * (1 + 1e-14) &&
                        v.kro >= -1e-15 && v.kro <= R.krow.front() * (1 + 1e-12) && w.kro >= -1e-15 && w.kro <= R.krog.front() * (1 + 1e-12),
                        "deck.range", tag(cell) + "s=" + num(s) + " krw=" + num(v.krw) + " kro=" + num(v.kro) + " krg=" + num(w.krg) + " krog=" + num(w.kro));
                    pw = v.krw; pg = w.krg; ppc = v.pcow; ppg = w.pcgo;
                }
                for (int t = 0; t < 30; ++t) {                                       // three-phase oil relperm between the two two-phase values
                    const Sat s = randomSat(q);
                    const Vals v = evaluate(*b.mgr, cell, s);
                    chk(v.kro >= -1e-15 && v.kro <= std::max(R.krow.front(), R.krog.front()) * (1 + 1e-12), "deck.range.kro3", tag(cell) + satStr(s) + " kro=" + num(v.kro));
                }
            }
        }
        // ---------------------------------------------------------------- (2) family I == family II, all options
        {
            vh::Rng q(sub ^ 0x5555);
            GenCfg g; g.allowSmallKr = q.coin(1, 4); g.stone = true;
            DeckSpec d1 = makeDeck(q, g);
            DeckSpec d2 = d1;
            d1.family = 1; d2.family = 2;
            Built b1 = build(d1, deckText(d1));
            Built b2 = build(d2, deckText(d2));
            for (int cell = 0; cell < d1.ncell; ++cell) {
                const double swl = b1.mgr->oilWaterScaledEpsInfoDrainage(cell).Swl;
                std::vector<Sat> hist = d1.hyst ? satHistory(q, q.range(0, 6), q.range(0, 2)) : std::vector<Sat>{};
                for (size_t step = 0; step <= hist.size(); ++step) {
                    if (step > 0) { b1.mgr->updateHysteresis(fluidState(hist[step - 1]), cell); b2.mgr->updateHysteresis(fluidState(hist[step - 1]), cell); }
                    for (const Sat& s : probesFor(q, swl, 12)) {
                        const Vals u = evaluate(*b1.mgr, cell, s), v = evaluate(*b2.mgr, cell, s);
                        const std::string where = tag(cell) + "endscale=" + std::to_string(d1.endscale) + std::to_string(d1.threepoint) + " hyst=" + std::to_string(d1.hyst) + "/" + std::to_string(d1.krModel) + " stone=" + std::to_string(d1.threePhaseModel) + " step " + std::to_string(step) + " " + satStr(s);
                        chk(same(u.krw, v.krw, 1e-9, 1e-12), "deck.family.krw", where + " I " + num(u.krw) + " II " + num(v.krw));
                        chk(same(u.kro, v.kro, 1e-7, 1e-10), "deck.family.kro", where + " I " + num(u.kro) + " II " + num(v.kro));
                        chk(same(u.krg, v.krg, 1e-9, 1e-12), "deck.family.krg", where + " I " + num(u.krg) + " II " + num(v.krg));
                        chk(same(u.pcow, v.pcow, 1e-9, 1e-6), "deck.family.pcow", where + " I " + num(u.pcow) + " II " + num(v.pcow));
                        chk(same(u.pcgo, v.pcgo, 1e-9, 1e-6), "deck.family.pcgo", where + " I " + num(u.pcgo) + " II " + num(v.pcgo));
                    }
                }
            }
        }
        // ---------------------------------------------------------------- (3) end-point scaling
        {
            vh::Rng q(sub ^ 0xAAAA);
            GenCfg g; g.endscale = 1; g.hyst = 0; g.allowSmallKr = false; g.strict = true; g.consistent = true;
            DeckSpec d = makeDeck(q, g);
            // only horizontal scaling + maximum relperm / capillary pressure: the relation between the table
            // end-points and the scaled end-points is then the statement "scaled end-points map onto table end-points"
            for (int c = 8; c < 17; ++c) d.maskD[c] = false;
            d.maskD[14] = q.coin(); d.maskD[15] = q.coin(); d.maskD[16] = q.coin(); d.maskD[8] = q.coin(); d.maskD[9] = q.coin();
            Built b = build(d, deckText(d));
            DeckSpec d0 = d; d0.endscale = false; d0.threepoint = false;
            Built b0 = build(d0, deckText(d0));                                       // the same tables without scaling
            for (int cell = 0; cell < d.ncell; ++cell) {
                const Region& R = d.regions[d.satnum[cell] - 1];
                const auto info = b.mgr->oilWaterScaledEpsInfoDrainage(cell);        // scaled end-points of the cell
                const double tswl = R.sw.front(), tswu = R.sw.back();
                const double kwf = d.maskD[14] ? d.arrD[cell][14] / R.krw.back() : 1.0, kgf = d.maskD[15] ? d.arrD[cell][15] / R.krg.back() : 1.0;
                const double pwf = d.maskD[8] ? d.arrD[cell][8] / R.pcow.front() : 1.0, pgf = d.maskD[9] ? d.arrD[cell][9] / R.pcog.back() : 1.0;
                const double tswcr = b0.mgr->oilWaterScaledEpsInfoDrainage(cell).Swcr, tsgcr = b0.mgr->oilWaterScaledEpsInfoDrainage(cell).Sgcr;
                const double tsgl = 0.0, tsgu = R.sg.back();
                // the arrays written to the deck are what the manager reports as the cell's end-points
                // (the parser's decimal -> double conversion is not always correctly rounded, so the comparison is with
                //  what the field properties hold and, loosely, with what was written)
                const double* A = d.arrD[cell].data();
                const double got[8] = {info.Swl, info.Sgl, info.Swcr, info.Sgcr, info.Sowcr, info.Sogcr, info.Swu, info.Sgu};
                for (int c = 0; c < 8; ++c) if (d.maskD[c]) {
                    const double fpv = b.es->fieldProps().get_double(EPS_KW[c])[cell];
                    chk(got[c] == fpv && close(got[c], A[c], 1e-14), "deck.endpoint.readback", tag(cell) + EPS_KW[c] + " deck " + num(A[c]) + " field property " + num(fpv) + " manager " + num(got[c]));
                }
                // water relperm: Swcr -> table Swcr (kr = 0), Swu -> table Swu (kr = max)
                {
                    const Vals lo = evaluate(*b.mgr, cell, {info.Swcr, 1 - info.Swcr, 0.0}), hi = evaluate(*b.mgr, cell, {info.Swu, 1 - info.Swu, 0.0});
                    chk(std::fabs(lo.krw) <= 1e-13, "deck.endpoint.krw.critical", tag(cell) + "krw(SWCR)=" + num(lo.krw));
                    chk(close(hi.krw, R.krw.back() * kwf, 1e-11, 1e-14), "deck.endpoint.krw.max", tag(cell) + "krw(SWU)=" + num(hi.krw) + " want " + num(R.krw.back() * kwf));
                    // capillary pressure: SWL -> table Swl (max Pc), SWU -> table Swu
                    const Vals p0 = evaluate(*b.mgr, cell, {info.Swl, 1 - info.Swl, 0.0});
                    chk(close(p0.pcow, R.pcow.front() * 1e5 * pwf, 1e-11, 1e-8), "deck.endpoint.pcow.max", tag(cell) + "pcow(SWL)=" + num(p0.pcow) + " want " + num(R.pcow.front() * 1e5 * pwf));
                    chk(close(hi.pcow, R.pcow.back() * 1e5 * pwf, 1e-11, 1e-6), "deck.endpoint.pcow.min", tag(cell) + "pcow(SWU)=" + num(hi.pcow));
                }
                // gas relperm (gas/oil system is evaluated at Sw_go = 1 - Swl - Sg with the cell's scaled Swl)
                {
                    const Vals lo = evaluate(*b.mgr, cell, {info.Swl, 1 - info.Swl - info.Sgcr, info.Sgcr}), hi = evaluate(*b.mgr, cell, {info.Swl, 1 - info.Swl - info.Sgu, info.Sgu});
                    chk(std::fabs(lo.krg) <= 1e-13, "deck.endpoint.krg.critical", tag(cell) + "krg(SGCR)=" + num(lo.krg));
                    chk(close(hi.krg, R.krg.back() * kgf, 1e-11, 1e-14), "deck.endpoint.krg.max", tag(cell) + "krg(SGU)=" + num(hi.krg) + " want " + num(R.krg.back() * kgf));
                    chk(close(hi.pcgo, R.pcog.back() * 1e5 * pgf, 1e-11, 1e-8), "deck.endpoint.pcgo.max", tag(cell) + "pcgo(SGU)=" + num(hi.pcgo) + " want " + num(R.pcog.back() * 1e5 * pgf));
                }
                // KRO scales both two-phase oil relperms: at connate water without gas the oil relperm is KRO
                if (d.maskD[16]) {
                    const Vals v = evaluate(*b.mgr, cell, {info.Swl, 1 - info.Swl, 0.0});
                    chk(close(v.kro, d.arrD[cell][16], 1e-10, 1e-13), "deck.endpoint.kro.max", tag(cell) + "kro(SWL, Sg=0)=" + num(v.kro) + " KRO " + num(d.arrD[cell][16]));
                }
                // three-point scaling: the displacing critical saturations map onto the table's as well
                if (d.threepoint) {
                    const auto t0 = b0.mgr->oilWaterScaledEpsInfoDrainage(cell);     // the table's own end-points
                    const double kof = d.maskD[16] ? d.arrD[cell][16] / R.krow.front() : 1.0;
                    {   // water at 1 - SOWCR - SGL
                        const double sw = 1.0 - info.Sowcr - info.Sgl, tsw = 1.0 - t0.Sowcr - t0.Sgl;
                        const Vals v = evaluate(*b.mgr, cell, {sw, 1 - sw, 0.0}), w = evaluate(*b0.mgr, cell, {tsw, 1 - tsw, 0.0});
                        chk(close(v.krw, w.krw * kwf, 1e-9, 1e-12), "deck.threepoint.krw.displacing", tag(cell) + "krw(1-SOWCR-SGL)=" + num(v.krw) + " table " + num(w.krw * kwf));
                    }
                    {   // gas at 1 - SWL - SOGCR
                        const double sg = 1.0 - info.Swl - info.Sogcr, tsg = 1.0 - t0.Swl - t0.Sogcr;
                        const Vals v = evaluate(*b.mgr, cell, {info.Swl, 1 - info.Swl - sg, sg}), w = evaluate(*b0.mgr, cell, {t0.Swl, 1 - t0.Swl - tsg, tsg});
                        chk(close(v.krg, w.krg * kgf, 1e-9, 1e-12), "deck.threepoint.krg.displacing", tag(cell) + "krg(1-SWL-SOGCR)=" + num(v.krg) + " table " + num(w.krg * kgf));
                    }
                    {   // oil in water at SWCR + SGL (no gas: the three-phase value is the oil-water one away from connate water)
                        const double sw = info.Swcr + info.Sgl, tsw = t0.Swcr + t0.Sgl;
                        // (SWCR = SWL puts the lower and the critical point in one place: the code then returns the table's lower point)
                        if (info.Swcr - info.Swl >= 1e-4 && sw - info.Swl >= 1e-4 && tsw - t0.Swl >= 1e-4) {
                            const Vals v = evaluate(*b.mgr, cell, {sw, 1 - sw, 0.0}), w = evaluate(*b0.mgr, cell, {tsw, 1 - tsw, 0.0});
                            chk(close(v.kro, w.kro * kof, 1e-8, 1e-11), "deck.threepoint.krow.displacing", tag(cell) + "krow(SWCR+SGL)=" + num(v.kro) + " table " + num(w.kro * kof));
                        }
                    }
                }
                // two-point scaling: the whole curve is the table's curve under the affine map of the end-points
                if (!d.threepoint) {
                    for (int t = 0; t <= 40; ++t) {
                        const double x = t / 40.0;
                        const double sw = info.Swcr + x * (info.Swu - info.Swcr), tsw = tswcr + x * (tswu - tswcr);
                        const Vals v = evaluate(*b.mgr, cell, {sw, 1 - sw, 0.0}), w = evaluate(*b0.mgr, cell, {tsw, 1 - tsw, 0.0});
                        chk(close(v.krw, w.krw * kwf, 1e-9, 1e-12), "deck.twopoint.krw", tag(cell) + "x=" + num(x) + " scaled " + num(v.krw) + " table " + num(w.krw * kwf));
                        const double sp = info.Swl + x * (info.Swu - info.Swl), tsp = tswl + x * (tswu - tswl);
                        const Vals vp = evaluate(*b.mgr, cell, {sp, 1 - sp, 0.0}), wp = evaluate(*b0.mgr, cell, {tsp, 1 - tsp, 0.0});
                        chk(close(vp.pcow, wp.pcow * pwf, 1e-9, 1e-6), "deck.twopoint.pcow", tag(cell) + "x=" + num(x) + " scaled " + num(vp.pcow) + " table " + num(wp.pcow * pwf));
                        const double sg = info.Sgcr + x * (info.Sgu - info.Sgcr), tsg = tsgcr + x * (tsgu - tsgcr);
                        const Vals vg = evaluate(*b.mgr, cell, {info.Swl, 1 - info.Swl - sg, sg}), wg = evaluate(*b0.mgr, cell, {tswl, 1 - tswl - tsg, tsg});
                        chk(close(vg.krg, wg.krg * kgf, 1e-9, 1e-12), "deck.twopoint.krg", tag(cell) + "x=" + num(x) + " scaled " + num(vg.krg) + " table " + num(wg.krg * kgf));
                        (void) tsgl;
                    }
                }
                // monotone in the saturation, within [0, max]
                double pw = -1, pg = -1;
                for (int t = -5; t <= 105; ++t) {
                    const double s = t / 100.0;
                    const Vals v = evaluate(*b.mgr, cell, {s, 1 - s, 0.0}), w = evaluate(*b.mgr, cell, {info.Swl, 1 - info.Swl - s, s});
                    chk(v.krw >= pw - 1e-14 && w.krg >= pg - 1e-14, "deck.scaled.monotone", tag(cell) + "s=" + num(s));
                    chk(v.krw >= -1e-15 && v.krw <= R.krw.back() * kwf * (1 + 1e-12) && w.krg >= -1e-15 && w.krg <= R.krg.back() * kgf * (1 + 1e-12), "deck.scaled.range", tag(cell) + "s=" + num(s) + " krw=" + num(v.krw) + " krg=" + num(w.krg));
                    pw = v.krw; pg = w.krg;
                }
            }
        }
        // ---------------------------------------------------------------- (4) identity scaling: arrays = the tables' own end-points
        {
            vh::Rng q(sub ^ 0x3333);
            GenCfg g; g.endscale = 0; g.hyst = 0; g.allowSmallKr = false;
            DeckSpec d0 = makeDeck(q, g);
            Built b0 = build(d0, deckText(d0));
            DeckSpec d = d0;
            d.endscale = true; d.threepoint = q.coin();
            const auto tol = b0.es->runspec().saturationFunctionControls().minimumRelpermMobilityThreshold();
            const auto rtep = Opm::satfunc::getRawTableEndpoints(b0.es->getTableManager(), b0.es->runspec().phases(), tol);
            const auto rfun = Opm::satfunc::getRawFunctionValues(b0.es->getTableManager(), b0.es->runspec().phases(), rtep);
            bool degenerate = false;
            for (int cell = 0; cell < d.ncell; ++cell) {
                const int reg = d.satnum[cell] - 1;
                d.arrD[cell] = {rtep.connate.water[reg], rtep.connate.gas[reg], rtep.critical.water[reg], rtep.critical.gas[reg],
                                rtep.critical.oil_in_water[reg], rtep.critical.oil_in_gas[reg], rtep.maximum.water[reg], rtep.maximum.gas[reg],
                                rfun.pc.w[reg] / 1e5, rfun.pc.g[reg] / 1e5, rfun.krw.r[reg], rfun.krg.r[reg], rfun.kro.rw[reg], rfun.kro.rg[reg],
                                rfun.krw.max[reg], rfun.krg.max[reg], rfun.kro.max[reg]};
                // the three-point vertical identity needs 0 < KRxR < KRx (Props.C15.scaling_identity_krw); the table
                // pc maximum must be reproduced exactly by the bar -> Pa conversion of the parser
                const auto& A = d.arrD[cell];
                if (!(A[10] > 0 && A[10] < A[14] && A[11] > 0 && A[11] < A[15] && A[12] > 0 && A[12] < A[16] && A[13] > 0 && A[13] < A[16])) degenerate = true;
            }
            for (int c = 0; c < 17; ++c) d.maskD[c] = q.coin(2, 3);
            if (degenerate) d.maskD[10] = d.maskD[11] = d.maskD[12] = d.maskD[13] = false;
            Built b = build(d, deckText(d));
            for (int cell = 0; cell < d.ncell; ++cell) {
                const double swl = defaultParams(*b.mgr, cell).Swl();
                for (const Sat& s : probesFor(q, swl, 25)) {
                    if (s.sw < 0 || s.so < 0 || s.sg < 0) continue;
                    const Vals u = evaluate(*b.mgr, cell, s), v = evaluate(*b0.mgr, cell, s);
                    const std::string where = tag(cell) + "threepoint=" + std::to_string(d.threepoint) + " mask " + maskStr(d.maskD) + " " + satStr(s);
                    chk(close(u.krw, v.krw, 1e-9, 1e-12), "deck.identity.krw", where + " scaled " + num(u.krw) + " table " + num(v.krw));
                    chk(close(u.kro, v.kro, 1e-7, 1e-10), "deck.identity.kro", where + " scaled " + num(u.kro) + " table " + num(v.kro));
                    chk(close(u.krg, v.krg, 1e-9, 1e-12), "deck.identity.krg", where + " scaled " + num(u.krg) + " table " + num(v.krg));
                    chk(close(u.pcow, v.pcow, 1e-9, 1e-6), "deck.identity.pcow", where + " scaled " + num(u.pcow) + " table " + num(v.pcow));
                    chk(close(u.pcgo, v.pcgo, 1e-9, 1e-6), "deck.identity.pcgo", where + " scaled " + num(u.pcgo) + " table " + num(v.pcgo));
                }
            }
        }
        // ---------------------------------------------------------------- (5) hysteresis (Carlson), per cell
        {
            vh::Rng q(sub ^ 0x7777);
            GenCfg g; g.endscale = q.coin(1, 3); g.hyst = 1; g.allowSmallKr = false; g.strict = true; g.consistent = true; g.maxKrModel = 1;
            DeckSpec d = makeDeck(q, g);
            for (int c = 10; c < 14; ++c) d.maskD[c] = d.maskI[c] = false;          // no three-point vertical scaling: curves stay invertible
            DeckSpec dn = d; dn.hyst = false;                                        // the drainage curves alone
            Built b = build(d, deckText(d)), bn = build(dn, deckText(dn));
            for (int cell = 0; cell < d.ncell; ++cell) {
                auto& dp = defaultParams(*b.mgr, cell);
                const double swl = dp.Swl();
                // drainage until the first reversal: water saturation only decreases, gas only increases
                std::vector<Sat> h = satHistory(q, 12, 0);
                double minSw = 2, maxSg = -1, minKrnSwOw = 2;
                for (const Sat& s : h) {
                    b.mgr->updateHysteresis(fluidState(s), cell);
                    const Vals u = evaluate(*b.mgr, cell, s), v = evaluate(*bn.mgr, cell, s);
                    chk(u.krg == v.krg && u.krw == (d.krModel == 0 ? v.krw : u.krw) && u.pcow == v.pcow && u.pcgo == v.pcgo, "deck.hyst.drainage-until-reversal", tag(cell) + satStr(s) + " krg " + num(u.krg) + " drainage " + num(v.krg));
                    {   // oil: the oil-water law is evaluated at Sg + Sw, the reversal point is 1 - So: equal up to rounding, so the
                        // scanning curve may already be in use *at* the reversal point, where it is continuous if the imbibition
                        // curve reaches the drainage value
                        const Region& RIo = d.regions[d.imbnum[cell] - 1];
                        const double imbKro = (d.endscale && d.maskI[16]) ? d.arrI[cell][16] : RIo.krow.front();
                        const Vals ow = evaluate(*bn.mgr, cell, {s.sw + s.sg, 1 - s.sw - s.sg, 0.0});
                        if (d.krModel == 0 && s.sw >= swl && ow.kro > 1e-6 && ow.kro < imbKro * (1 - 1e-6))
                            chk(close(u.kro, v.kro, 1e-8, 1e-11), "deck.hyst.drainage-until-reversal.kro", tag(cell) + satStr(s) + " kro " + num(u.kro) + " drainage " + num(v.kro));
                    }
                    minSw = std::min(minSw, s.sw); maxSg = std::max(maxSg, s.sg);
                    minKrnSwOw = std::min(minKrnSwOw, 1 - std::min(1.0, std::max(0.0, s.so)));
                    chk(dp.oilWaterParams().krnSwMdc() == minKrnSwOw, "deck.hyst.minimum", tag(cell) + "ow krnSwMdc " + num(dp.oilWaterParams().krnSwMdc()) + " want " + num(minKrnSwOw));
                    chk(dp.gasOilParams().krnSwMdc() == 1.0 - swl - maxSg, "deck.hyst.minimum", tag(cell) + "go krnSwMdc " + num(dp.gasOilParams().krnSwMdc()) + " want " + num(1.0 - swl - maxSg));
                }
                // gas scanning curve: continuous at the reversal point, monotone above it
                const double sgmax = maxSg;
                const Vals atRev = evaluate(*bn.mgr, cell, {swl, 1 - swl - sgmax, sgmax});
                const Region& RI = d.regions[d.imbnum[cell] - 1];
                const double imbMax = (d.endscale && d.maskI[15] ? d.arrI[cell][15] : RI.krg.back());
                if (atRev.krg > 1e-6 && atRev.krg < imbMax * (1 - 1e-9)) {
                    const double below = std::nextafter(sgmax, -1.0);
                    const Vals scan = evaluate(*b.mgr, cell, {swl, 1 - swl - below, below});
                    chk(close(scan.krg, atRev.krg, 1e-8, 1e-11), "deck.hyst.scan-continuous", tag(cell) + "reversal at Sg=" + num(sgmax) + " drainage " + num(atRev.krg) + " scanning " + num(scan.krg));
                    double prev = 2;
                    for (int t = 0; t <= 40; ++t) {
                        const double sg = sgmax * (1 - t / 40.0);
                        const Vals v = evaluate(*b.mgr, cell, {swl, 1 - swl - sg, sg});
                        chk(v.krg <= prev + 1e-14, "deck.hyst.scan-monotone", tag(cell) + "Sg=" + num(sg));
                        chk(v.krg <= atRev.krg * (1 + 1e-9) + 1e-14, "deck.hyst.scan-below-reversal", tag(cell) + "Sg=" + num(sg) + " krg " + num(v.krg) + " > " + num(atRev.krg));
                        prev = v.krg;
                    }
                }
            }
            // the imbibition curves are those of the cell's IMBNUM region: with EHYSTR model 1 the water relperm *is* the
            // imbibition curve, i.e. the water relperm of the same deck without hysteresis and SATNUM := IMBNUM
            if (d.krModel == 1 && !d.endscale) {
                DeckSpec dm = dn; dm.satnum = d.imbnum;
                Built bm = build(dm, deckText(dm));
                for (int cell = 0; cell < d.ncell; ++cell)
                    for (int t = 0; t <= 20; ++t) {
                        const double sw = t / 20.0;
                        const Vals u = evaluate(*b.mgr, cell, {sw, 1 - sw, 0.0}), v = evaluate(*bm.mgr, cell, {sw, 1 - sw, 0.0});
                        chk(u.krw == v.krw, "deck.hyst.imbibition-region", tag(cell) + "IMBNUM " + std::to_string(d.imbnum[cell]) + " SATNUM " + std::to_string(d.satnum[cell]) + " Sw=" + num(sw) + " krw " + num(u.krw) + " imbibition table " + num(v.krw));
                    }
            }
            // Carlson identity: IMBNUM = SATNUM and no separate imbibition end-points -> hysteresis changes nothing
            DeckSpec di = d;
            di.imbnum = di.satnum;
            for (int c = 0; c < 17; ++c) di.maskI[c] = di.maskD[c];
            di.arrI = di.arrD;
            Built bi = build(di, deckText(di));
            DeckSpec din = di; din.hyst = false;
            Built bin = build(din, deckText(din));
            for (int cell = 0; cell < di.ncell; ++cell) {
                const double swl = defaultParams(*bi.mgr, cell).Swl();
                const Region& R = di.regions[di.satnum[cell] - 1];
                const auto inf = bi.mgr->oilWaterScaledEpsInfoDrainage(cell);
                for (const Sat& s : satHistory(q, 10, q.range(0, 2))) {
                    // the inverse lookup recovers the reversal saturation only inside the saturation range of the curves
                    // and, under three-point scaling, not between the lower and the critical point when the table has both in one
                    // place (there the scaled curve is constant): explicit hypothesis `fInv (f s) = s` of Props.C15.carlson_identity
                    if (!(s.so >= 0 && 1 - s.so >= inf.Swcr + inf.Sgl && 1 - s.so <= 1 - inf.Sowcr && s.sg >= inf.Sgcr && s.sg <= 1 - inf.Swl - inf.Sogcr)) continue;
                    bi.mgr->updateHysteresis(fluidState(s), cell);
                    for (const Sat& p : probesFor(q, swl, 8)) {
                        // the inverse lookup recovers the reversal saturation only inside the strictly monotone part of the curves
                        if (p.sw < 0 || p.so < 0 || p.sg < 0) continue;
                        const Vals u = evaluate(*bi.mgr, cell, p), v = evaluate(*bin.mgr, cell, p);
                        const std::string where = tag(cell) + satStr(p) + " after " + satStr(s);
                        chk(close(u.krw, v.krw, 1e-9, 1e-12), "deck.hyst.carlson-identity.krw", where);
                        chk(close(u.krg, v.krg, 1e-8, 1e-10), "deck.hyst.carlson-identity.krg", where + " hyst " + num(u.krg) + " plain " + num(v.krg));
                        chk(close(u.kro, v.kro, 1e-7, 1e-9), "deck.hyst.carlson-identity.kro", where + " hyst " + num(u.kro) + " plain " + num(v.kro));
                        chk(u.pcow == v.pcow && u.pcgo == v.pcgo, "deck.hyst.carlson-identity.pc", where);
                    }
                }
                (void) R;
            }
        }
        // ---------------------------------------------------------------- (6) third round: EHYSTR models 0-4 with flag KR / PC / BOTH, per cell
        {
            vh::Rng q(sub ^ 0x9999);
            GenCfg g; g.endscale = q.coin(1, 3); g.hyst = 1; g.allowSmallKr = false; g.consistent = true; g.maxKrModel = 4;
            DeckSpec d = makeDeck(q, g);
            for (int c = 10; c < 14; ++c) d.maskD[c] = d.maskI[c] = false;          // no three-point vertical scaling: curves stay within [0, max]
            static const char* FLAGS[3] = {"KR", "PC", "BOTH"};
            d.ehystrFlag = FLAGS[q.range(0, 2)];
            d.curvature = q.coin(1, 3) ? 0.1 : 0.02 + 0.4 * q.unit();
            DeckSpec dn = d; dn.hyst = false;                                        // the drainage curves alone
            Built b = build(d, deckText(d)), bn = build(dn, deckText(dn));
            const std::string cfgTag = "EHYSTR " + std::to_string(d.krModel) + " " + d.ehystrFlag + " ";
            for (int cell = 0; cell < d.ncell; ++cell) {
                auto& dp = defaultParams(*b.mgr, cell);
                const double swl = dp.Swl();
                std::vector<Sat> h = satHistory(q, 8, q.range(0, 3));
                double minOw = 2, minGo = 2, minPcOw = 2, minPcGo = 2;
                auto cl = [](double x) { return std::min(1.0, std::max(0.0, x)); };
                for (const Sat& s : h) {
                    const std::string at = cfgTag + tag(cell) + "after " + satStr(s);
                    b.mgr->updateHysteresis(fluidState(s), cell);
                    // reversal bookkeeping of both two-phase objects
                    minOw = std::min(minOw, 1 - cl(s.so)); minGo = std::min(minGo, 1.0 - swl - cl(s.sg));
                    if (d.ehystrFlag != "KR") { minPcOw = std::min(minPcOw, cl(s.sw)); minPcGo = std::min(minPcGo, cl(s.so)); }
                    chk(dp.oilWaterParams().krnSwMdc() == minOw && dp.gasOilParams().krnSwMdc() == minGo, "deck.hyst3.minimum.krn", at);
                    chk(dp.oilWaterParams().pcSwMdc() == minPcOw && dp.gasOilParams().pcSwMdc() == minPcGo, "deck.hyst3.minimum.pc",
                        at + " ow pcSwMdc " + num(dp.oilWaterParams().pcSwMdc()) + " want " + num(minPcOw) + " go " + num(dp.gasOilParams().pcSwMdc()) + " want " + num(minPcGo));
                    // idempotent update: the same fluid state again changes nothing
                    std::vector<Sat> probes = probesFor(q, swl, 3);
                    std::vector<Vals> before;
                    for (const Sat& p : probes) before.push_back(evaluate(*b.mgr, cell, p));
                    const bool again = b.mgr->updateHysteresis(fluidState(s), cell);
                    bool sameVals = true;
                    for (size_t k = 0; k < probes.size(); ++k) {
                        const Vals a = evaluate(*b.mgr, cell, probes[k]);
                        sameVals = sameVals && hx(a.krw) == hx(before[k].krw) && hx(a.kro) == hx(before[k].kro) && hx(a.krg) == hx(before[k].krg) && hx(a.pcow) == hx(before[k].pcow) && hx(a.pcgo) == hx(before[k].pcgo);
                    }
                    chk(!again && sameVals, "deck.hyst3.idempotent-update", at + " second updateHysteresis returned " + std::to_string(again));
                    // EHYSTR item 5: flag PC leaves the relperms, flag KR the capillary pressures on the drainage curves
                    for (size_t k = 0; k < probes.size(); ++k) {
                        const Vals v = evaluate(*bn.mgr, cell, probes[k]);
                        if (d.ehystrFlag == "PC") chk(before[k].krw == v.krw && before[k].krg == v.krg && (before[k].kro == v.kro || (std::isnan(before[k].kro) && std::isnan(v.kro))), "deck.hyst3.flag-pc", at + " at " + satStr(probes[k]));
                        if (d.ehystrFlag == "KR") chk(before[k].pcow == v.pcow && before[k].pcgo == v.pcgo, "deck.hyst3.flag-kr", at + " at " + satStr(probes[k]));
                    }
                }
            }
        }
        // ---------------------------------------------------------------- (7) fourth round: only a SUBSET of a cell's end-points differs from the table's
        // Every array of the deck holds the table's own value except in the cells / keywords chosen here: no end-point, each
        // single one of the 17 (cycling), a pair, or a few.  Evaluated per cell and curve (krw, krow, pcow, krg, krog, pcgo):
        // each of the three scaling points of the curve carries the table's value at the table's point (the interior point
        // under three-point scaling), scaled vertically; a curve none of whose defining end-points differs is the table's curve.
        // What is expected is computed from the inputs (arrays as the field properties hold them, table end-points) and the
        // same deck without ENDSCALE.
        {
            vh::Rng q(sub ^ 0xC154);
            GenCfg g; g.endscale = 0; g.hyst = 0; g.allowSmallKr = false; g.strict = q.coin();
            DeckSpec d0 = makeDeck(q, g);
            Built b0 = build(d0, deckText(d0));
            DeckSpec d = d0;
            d.endscale = true; d.threepoint = q.coin(2, 3);
            const auto tol = b0.es->runspec().saturationFunctionControls().minimumRelpermMobilityThreshold();
            const auto rtep = Opm::satfunc::getRawTableEndpoints(b0.es->getTableManager(), b0.es->runspec().phases(), tol);
            const auto rfun = Opm::satfunc::getRawFunctionValues(b0.es->getTableManager(), b0.es->runspec().phases(), rtep);
            std::vector<std::array<double, 17>> T;                                   // table end-points per region (pressures in Pa)
            bool degenerate = false, zeroPcw = false, zeroPcg = false;
            for (size_t reg = 0; reg < d.regions.size(); ++reg) {
                T.push_back({rtep.connate.water[reg], rtep.connate.gas[reg], rtep.critical.water[reg], rtep.critical.gas[reg],
                             rtep.critical.oil_in_water[reg], rtep.critical.oil_in_gas[reg], rtep.maximum.water[reg], rtep.maximum.gas[reg],
                             rfun.pc.w[reg], rfun.pc.g[reg], rfun.krw.r[reg], rfun.krg.r[reg], rfun.kro.rw[reg], rfun.kro.rg[reg],
                             rfun.krw.max[reg], rfun.krg.max[reg], rfun.kro.max[reg]});
                const auto& A = T.back();
                if (!(A[10] > 0 && A[10] < A[14] && A[11] > 0 && A[11] < A[15] && A[12] > 0 && A[12] < A[16] && A[13] > 0 && A[13] < A[16])) degenerate = true;
                if (!(A[8] > 0)) zeroPcw = true;
                if (!(A[9] > 0)) zeroPcg = true;
            }
            (void) degenerate;
            // three-point vertical scaling needs 0 < KRxR < KRx in the table (else the code computes 0 * (x / 0) or switches to
            // interpolation in the saturation): decided per region; a cell of such a region is skipped for that curve when the
            // keyword is in the deck, and never gets its own KRxR
            auto degen = [&](int reg, int kr) { const auto& A = T[reg]; const int kmax = kr == 10 ? 14 : kr == 11 ? 15 : 16; return !(A[kr] > 0 && A[kr] < A[kmax]); };
            auto allowed = [&](int i) { return !((i == 8 && zeroPcw) || (i == 9 && zeroPcg)); };
            // ordering of the eight saturation end-points (weak where a table may have two of them in one place)
            auto consistent = [](const std::array<double, 17>& E) {
                const double swl = E[0], sgl = E[1], swcr = E[2], sgcr = E[3], sowcr = E[4], sogcr = E[5], swu = E[6], sgu = E[7];
                return swl >= 0 && swl <= swcr && swcr < 1 - sowcr - sgl && 1 - sowcr - sgl <= swu && swu <= 1 && sowcr >= 0 &&
                       sgl >= 0 && sgl <= sgcr && sgcr < 1 - swl - sogcr && 1 - swl - sogcr <= sgu && sgu <= 1 - swl && sogcr >= 0;
            };
            static long singles = 0;
            std::vector<std::array<bool, 17>> pert(d.ncell);
            for (int c = 0; c < 17; ++c) d.maskD[c] = false;
            for (int cell = 0; cell < d.ncell; ++cell) {
                const auto& Tr = T[d.satnum[cell] - 1];
                std::array<double, 17> E = Tr;
                std::array<bool, 17> want{}; pert[cell].fill(false);
                const int kind = (k + cell) % 4;
                int single = -1;
                if (kind == 1) { single = (singles++) % 17; want[single] = true; }
                else if (kind == 2) { want[q.range(0, 16)] = true; want[q.range(0, 16)] = true; }
                else if (kind == 3) for (int i = 0; i < 17; ++i) want[i] = q.coin(1, 5);
                for (int i = 0; i < 8; ++i) if (want[i]) {
                    for (int tries = 0; tries < 80; ++tries) {
                        std::array<double, 17> F = E;
                        F[i] = q.range(0, 256) / 256.0;
                        if (std::fabs(F[i] - Tr[i]) >= 1.0 / 64 && consistent(F)) { E = F; pert[cell][i] = true; break; }
                    }
                }
                auto vary = [&](int i, double x) {
                    if (want[i] && allowed(i) && !(i >= 10 && i <= 13 && degen(d.satnum[cell] - 1, i)) && std::fabs(x - Tr[i]) > 0.02 * std::fabs(Tr[i])) { E[i] = x; pert[cell][i] = true; }
                };
                vary(8, Tr[8] * (q.coin() ? 0.3 + 0.6 * q.unit() : 1.2 + 2 * q.unit()));
                vary(9, Tr[9] * (q.coin() ? 0.3 + 0.6 * q.unit() : 1.2 + 2 * q.unit()));
                vary(14, E[10] + (1.0 - E[10]) * (0.05 + 0.9 * q.unit()));
                vary(15, E[11] + (1.0 - E[11]) * (0.05 + 0.9 * q.unit()));
                vary(16, std::max(E[12], E[13]) + (1.0 - std::max(E[12], E[13])) * (0.05 + 0.9 * q.unit()));
                vary(10, E[14] * (0.05 + 0.9 * q.unit()));
                vary(11, E[15] * (0.05 + 0.9 * q.unit()));
                vary(12, E[16] * (0.05 + 0.9 * q.unit()));
                vary(13, E[16] * (0.05 + 0.9 * q.unit()));
                if (single >= 0 && !pert[cell][single]) {                             // the chosen end-point cannot be varied in this cell: take one that can
                    for (int i = 0; i < 8; ++i) {
                        const int j = (single + 1 + i) % 8;
                        for (int tries = 0; tries < 80 && !pert[cell][j]; ++tries) {
                            std::array<double, 17> F = E;
                            F[j] = q.range(0, 256) / 256.0;
                            if (std::fabs(F[j] - Tr[j]) >= 1.0 / 64 && consistent(F)) { E = F; pert[cell][j] = true; }
                        }
                        if (pert[cell][j]) break;
                    }
                }
                d.arrD[cell] = E;
                d.arrD[cell][8] /= 1e5; d.arrD[cell][9] /= 1e5;                       // the deck holds bar
                for (int i = 0; i < 17; ++i) if (pert[cell][i]) d.maskD[i] = true;
            }
            for (int i = 0; i < 17; ++i) if (!d.maskD[i] && allowed(i) && q.coin(1, 5)) d.maskD[i] = true;      // arrays that hold the table's values everywhere
            Built b = build(d, deckText(d));
            const bool* M = d.maskD;
            for (int cell = 0; cell < d.ncell; ++cell) {
                const auto& Tr = T[d.satnum[cell] - 1];
                std::array<double, 17> E = Tr;
                for (int i = 0; i < 17; ++i) if (M[i]) E[i] = b.es->fieldProps().get_copy<double>(EPS_KW[i], false)[cell];
                const auto& P = pert[cell];
                std::string what;
                for (int i = 0; i < 17; ++i) if (P[i]) what += (what.empty() ? "" : "+") + std::string(EPS_KW[i]);
                if (what.empty()) what = "none";
                int np = 0; for (int i = 0; i < 17; ++i) np += P[i];
                ++chk.byKey["deck.subset.cells." + (np == 1 ? what : np == 0 ? std::string("none") : np == 2 ? std::string("pair") : std::string("several"))];
                const std::string where = tag(cell) + (d.threepoint ? "three-point" : "two-point") + " arrays " + maskStr(M) + " differs: " + what + " ";
                {   // the cell's end-points as the manager reports them: the array where given, the table's otherwise
                    const auto info = b.mgr->oilWaterScaledEpsInfoDrainage(cell);
                    const double got[8] = {info.Swl, info.Sgl, info.Swcr, info.Sgcr, info.Sowcr, info.Sogcr, info.Swu, info.Sgu};
                    for (int i = 0; i < 8; ++i) {
                        chk(got[i] == E[i] && (P[i] || got[i] == Tr[i]) && close(got[i], d.arrD[cell][i], 1e-14, 1e-16), "deck.subset.readback", where + EPS_KW[i] + " manager " + num(got[i]) + " expected " + num(E[i]));
                    }
                }
                const double SWL = E[0], SGL = E[1], SWCR = E[2], SGCR = E[3], SOWCR = E[4], SOGCR = E[5], SWU = E[6], SGU = E[7];
                const double tSWL = Tr[0], tSGL = Tr[1], tSWCR = Tr[2], tSGCR = Tr[3], tSOWCR = Tr[4], tSOGCR = Tr[5], tSWU = Tr[6], tSGU = Tr[7];
                // one relperm curve: coordinate (Sw at Sg = 0, or Sg at Sw = SWL), its three scaling points in the cell and in the
                // table, where its maximum is (point 0 or 2), the keywords of its vertical scaling
                struct Curve { const char* name; bool gas; int val; double p[3], t[3]; int jmax; int kmax, kr; bool dep[17]; };
                auto val = [](const Vals& v, int which) { return which == 0 ? v.krw : which == 1 ? v.kro : which == 2 ? v.krg : which == 3 ? v.pcow : v.pcgo; };
                auto at = [&](Manager& m, bool gas, double swl, double x) { return gas ? evaluate(m, cell, {swl, 1 - swl - x, x}) : evaluate(m, cell, {x, 1 - x, 0.0}); };
                Curve curves[4] = {
                    {"krw", false, 0, {SWCR, 1 - SOWCR - SGL, SWU}, {tSWCR, 1 - tSOWCR - tSGL, tSWU}, 2, 14, 10, {}},
                    {"krow", false, 1, {SWL + SGL, SWCR + SGL, 1 - SOWCR}, {tSWL + tSGL, tSWCR + tSGL, 1 - tSOWCR}, 0, 16, 12, {}},
                    {"krg", true, 2, {SGCR, 1 - SWL - SOGCR, SGU}, {tSGCR, 1 - tSWL - tSOGCR, tSGU}, 2, 15, 11, {}},
                    {"krog", true, 1, {SGL, SGCR, 1 - SWL - SOGCR}, {tSGL, tSGCR, 1 - tSWL - tSOGCR}, 0, 16, 13, {}},
                };
                // which end-points define which curve (outer points always, interior ones under three-point scaling)
                auto dep = [&](Curve& c, std::initializer_list<int> outer, std::initializer_list<int> inner) {
                    const bool v3 = M[c.kr];
                    for (int i : outer) c.dep[i] = true;
                    if (d.threepoint || v3) for (int i : inner) c.dep[i] = true;
                    c.dep[c.kmax] = c.dep[c.kr] = true;
                };
                dep(curves[0], {2, 6}, {4, 1});
                dep(curves[1], {0, 1, 4}, {2});
                dep(curves[2], {0, 3, 7}, {5});
                dep(curves[3], {0, 1, 5}, {3});
                // domain of the three-point vertical scaling of a curve: 0 < KRxR < KRx in the table, scaled points strictly ordered
                // (KRxR and KRx given for one and the same saturation is contradictory input)
                auto inDomain = [&](const Curve& c) { return !M[c.kr] || (!degen(d.satnum[cell] - 1, c.kr) && c.p[1] - c.p[0] >= 1e-4 && c.p[2] - c.p[1] >= 1e-4); };
                const bool cornerOk = inDomain(curves[1]) && inDomain(curves[3]);   // at Sw = Swco, Sg = 0 the three-phase value is the mean of the two two-phase maxima
                for (Curve& c : curves) {
                    const bool v3 = M[c.kr], v2 = M[c.kmax] || v3;
                    if (v3 && degen(d.satnum[cell] - 1, c.kr)) { ++chk.byKey[std::string("deck.subset.skipped-degenerate.") + c.name]; continue; }
                    const bool strictP = c.p[1] - c.p[0] >= 1e-4 && c.p[2] - c.p[1] >= 1e-4, weakT = c.t[0] <= c.t[1] && c.t[1] <= c.t[2];
                    const bool sameP = c.p[0] == c.t[0] && c.p[1] == c.t[1] && c.p[2] == c.t[2];
                    const int jzero = 2 - c.jmax;
                    for (int j = 0; j < 3; ++j) {
                        if (j == 1 && !((d.threepoint && strictP && weakT) || (!d.threepoint && sameP && strictP))) continue;
                        if (v3 && !strictP) continue;
                        // the three-phase oil relperm is the two-phase one away from the corner Sw = Swco, Sg = 0 (and at it, where both are maximal)
                        if (c.val == 1 && j != c.jmax) {
                            const double dp = c.gas ? c.p[j] : c.p[j] - SWL, dt = c.gas ? c.t[j] : c.t[j] - tSWL;
                            if ((dp < 1e-4 && dp != 0) || (dt < 1e-4 && dt != 0)) continue;
                        }
                        // at the corner itself the three-phase value is the mean of the two two-phase maxima: both curves must be in
                        // the domain of their vertical scaling (a table with SWCR = SWL has KRORW = KRO: giving both is contradictory)
                        if (c.val == 1 && j == c.jmax && (c.gas ? c.p[j] : c.p[j] - SWL) < 1e-4 && !cornerOk) continue;
                        const double tab = val(at(*b0.mgr, c.gas, tSWL, c.t[j]), c.val);
                        double want = tab;
                        if (v2 && !v3) want = tab * (E[c.kmax] / Tr[c.kmax]);
                        if (v3) want = j == c.jmax ? E[c.kmax] : j == 1 ? E[c.kr] : tab * (E[c.kr] / Tr[c.kr]);
                        (void) jzero;
                        const double got = val(at(*b.mgr, c.gas, SWL, c.p[j]), c.val);
                        chk(std::isfinite(got) && close(got, want, c.val == 1 ? 1e-8 : 1e-9, c.val == 1 ? 1e-11 : 1e-12), std::string("deck.subset.point.") + c.name + "." + "lmu"[j],
                            where + c.name + "(" + (c.gas ? "Sg=" : "Sw=") + num(c.p[j]) + ") = " + num(got) + ", want " + num(want) + " (table " + num(tab) + " at " + num(c.t[j]) + ")");
                    }
                    // identity per curve
                    bool same = true;
                    for (int i = 0; i < 17; ++i) if (c.dep[i] && P[i]) same = false;
                    if (same && inDomain(c)) {
                        ++chk.byKey[std::string("deck.subset.identity-curves.") + c.name];
                        for (int t = 0; t <= 32; ++t) {
                            const double x = c.gas ? tSGU * t / 32.0 : tSWL + (1 - tSWL) * t / 32.0;
                            if (c.val == 1 && (c.gas ? x : x - tSWL) < 1e-4 && (t > 0 || !cornerOk)) continue;
                            const double got = val(at(*b.mgr, c.gas, SWL, x), c.val), tab = val(at(*b0.mgr, c.gas, tSWL, x), c.val);
                            chk(std::isfinite(got) && close(got, tab, c.val == 1 ? 1e-7 : 1e-9, c.val == 1 ? 1e-10 : 1e-12), std::string("deck.subset.identity.") + c.name,
                                where + c.name + "(" + (c.gas ? "Sg=" : "Sw=") + num(x) + ") = " + num(got) + ", table " + num(tab));
                        }
                    }
                }
                // capillary pressures: two points each
                {
                    const double fw = M[8] && Tr[8] > 0 ? E[8] / Tr[8] : 1.0, fg = M[9] && Tr[9] > 0 ? E[9] / Tr[9] : 1.0;
                    const double pw[2] = {SWL, SWU}, tw[2] = {tSWL, tSWU}, pg[2] = {SGL, SGU}, tg[2] = {tSGL, tSGU};
                    for (int j = 0; j < 2; ++j) {
                        const double gotW = at(*b.mgr, false, SWL, pw[j]).pcow, tabW = at(*b0.mgr, false, tSWL, tw[j]).pcow;
                        chk(std::isfinite(gotW) && close(gotW, tabW * fw, 1e-9, 1e-6), std::string("deck.subset.point.pcow.") + "lu"[j], where + "pcow(Sw=" + num(pw[j]) + ") = " + num(gotW) + ", want " + num(tabW * fw));
                        const double gotG = at(*b.mgr, true, SWL, pg[j]).pcgo, tabG = at(*b0.mgr, true, tSWL, tg[j]).pcgo;
                        chk(std::isfinite(gotG) && close(gotG, tabG * fg, 1e-9, 1e-6), std::string("deck.subset.point.pcgo.") + "lu"[j], where + "pcgo(Sg=" + num(pg[j]) + ") = " + num(gotG) + ", want " + num(tabG * fg));
                    }
                    if (!P[0] && !P[6] && !P[8])
                        for (int t = 0; t <= 32; ++t) {
                            const double x = t / 32.0;
                            const double got = at(*b.mgr, false, SWL, x).pcow, tab = at(*b0.mgr, false, tSWL, x).pcow;
                            chk(std::isfinite(got) && close(got, tab, 1e-9, 1e-6), "deck.subset.identity.pcow", where + "pcow(Sw=" + num(x) + ") = " + num(got) + ", table " + num(tab));
                        }
                    if (!P[0] && !P[1] && !P[7] && !P[9])
                        for (int t = 0; t <= 32; ++t) {
                            const double x = tSGU * t / 32.0;
                            const double got = at(*b.mgr, true, SWL, x).pcgo, tab = at(*b0.mgr, true, tSWL, x).pcgo;
                            chk(std::isfinite(got) && close(got, tab, 1e-9, 1e-6), "deck.subset.identity.pcgo", where + "pcgo(Sg=" + num(x) + ") = " + num(got) + ", table " + num(tab));
                        }
                }
            }
        }
        // ---------------------------------------------------------------- (8) fifth round: Killough (EHYSTR 2-4), gas scanning curve and trapped saturations per cell
        // What is expected is computed from two *non-hysteretic* decks: the drainage deck (dn) and the deck whose drainage curves
        // are this deck's imbibition curves (dm: SATNUM := IMBNUM, arrays := the I-arrays).  Laws (Props.C15.killough_krn_scan_start,
        // _monotone, _bound, killough_trapped_bounds): just below the reversal point krg = krg_d(Sghy) * krg_i(Snmaxd) / krg_d(Snmaxd)
        // (= the drainage value iff the curves meet at the drainage maximum gas saturation), the scanning curve is monotone and
        // never above that start value, ends at zero at the trapped saturation; the trapped saturation lies in
        // [Sncrd, max(Sncrd, Snhy)] and below Sncri where Land's formula is defined (Sncrd <= Sncri < Snmaxd, Snhy <= Snmaxd).
        {
            vh::Rng q(sub ^ 0x3C3C);
            GenCfg g; g.endscale = q.coin(1, 2); g.hyst = 1; g.allowSmallKr = false; g.consistent = true; g.maxKrModel = 4;
            DeckSpec d = makeDeck(q, g);
            d.krModel = q.range(2, 4);
            d.ehystrFlag = q.coin(2, 3) ? "KR" : "BOTH";
            for (int c = 10; c < 14; ++c) d.maskD[c] = d.maskI[c] = false;          // no three-point vertical scaling: monotone curves
            const bool meet = q.coin(1, 2);
            if (meet) {     // imbibition curves = drainage curves except for larger critical saturations: the curves meet at Sgu
                d.imbnum = d.satnum;
                if (d.endscale) {
                    for (int c = 0; c < 8; ++c) d.maskD[c] = d.maskI[c] = true;
                    for (int c = 8; c < 17; ++c) d.maskI[c] = d.maskD[c];
                    d.arrI = d.arrD;
                    for (int c = 0; c < d.ncell; ++c) { d.arrI[c][3] += 0.15 * q.unit(); d.arrI[c][4] += 0.1 * q.unit(); }
                }
            }
            DeckSpec dn = d; dn.hyst = false;
            DeckSpec dm = dn; dm.satnum = d.imbnum; dm.arrD = d.arrI;
            // which vertical / Pc scalings are switched on is decided by the *drainage* keywords (the imbibition laws share the
            // drainage EclEpsConfig): IKRG without KRG is ignored, KRG without IKRG scales the imbibition curve to its own maximum
            for (int c = 0; c < 17; ++c) dm.maskD[c] = c < 8 ? d.maskI[c] : (d.maskD[c] && d.maskI[c]);
            Built bn = build(dn, deckText(dn)), bm = build(dm, deckText(dm)), b = build(d, deckText(d));
            const std::string cfgTag = "EHYSTR " + std::to_string(d.krModel) + " " + d.ehystrFlag + (meet ? " meet " : " ");
            for (int cell = 0; cell < d.ncell; ++cell) {
                const auto iD = bn.mgr->oilWaterScaledEpsInfoDrainage(cell), iI = bm.mgr->oilWaterScaledEpsInfoDrainage(cell);
                const double swl = iD.Swl;
                const double Sncrd = iD.Sgcr + iD.Swl, Sncri = iI.Sgcr + iI.Swl, Snmaxd = iD.Sgu + iD.Swl;
                auto& dp = defaultParams(*b.mgr, cell);
                double sghy = 0, sohy = 0;
                const int nstep = q.range(2, 6);
                for (int t = 0; t < nstep; ++t) {
                    const double sg = (t + 1 == nstep && q.coin() ? 0.3 + 0.7 * q.unit() : q.unit()) * iD.Sgu;
                    const Sat s{swl, 1 - swl - sg, sg};
                    b.mgr->updateHysteresis(fluidState(s), cell);
                    sghy = std::max(sghy, sg); sohy = std::max(sohy, s.so);
                }
                const double Snhy = sghy + swl;
                const std::string at = cfgTag + tag(cell) + "Sghy=" + num(sghy) + " Sncrd=" + num(Sncrd) + " Sncri=" + num(Sncri) + " Snmaxd=" + num(Snmaxd) + " ";
                const auto& go = dp.gasOilParams();
                const auto& ow = dp.oilWaterParams();
                const bool landDomain = Sncrd <= Sncri && Sncri + 1e-9 <= Snmaxd && Snhy <= Snmaxd && Sncrd < Snmaxd;
                if (landDomain)
                    chk(go.Sncrt() >= Sncrd - 1e-12 && go.Sncrt() <= std::max(Sncrd, Snhy) + 1e-12 && go.Sncrt() <= Sncri + 1e-9, "deck.killough.trapped-bounds.gas",
                        at + "Sncrt=" + num(go.Sncrt()) + " Snhy=" + num(Snhy));
                {
                    const double SncrdO = iD.Sowcr, SncriO = iI.Sowcr, SnmaxdO = 1.0 - iD.Swl - iD.Sgl;
                    if (SncrdO <= SncriO && SncriO + 1e-9 <= SnmaxdO && sohy <= SnmaxdO && SncrdO < SnmaxdO)
                        chk(ow.Sncrt() >= SncrdO - 1e-12 && ow.Sncrt() <= std::max(SncrdO, sohy) + 1e-12 && ow.Sncrt() <= SncriO + 1e-9, "deck.killough.trapped-bounds.oil",
                            at + "oil-water Sncrd=" + num(SncrdO) + " Sncri=" + num(SncriO) + " Snmaxd=" + num(SnmaxdO) + " Sohy=" + num(sohy) + " Sncrt=" + num(ow.Sncrt()));
                }
                if (!(landDomain && Sncri <= Snmaxd - 0.05 && sghy >= iD.Sgcr + 0.02)) continue;
                const double kdHy = evaluate(*bn.mgr, cell, {swl, 1 - swl - sghy, sghy}).krg;
                const double kdMax = evaluate(*bn.mgr, cell, {swl, 1 - swl - iD.Sgu, iD.Sgu}).krg;
                const double sgI = Snmaxd - iI.Swl;
                const double kiMax = evaluate(*bm.mgr, cell, {iI.Swl, 1 - iI.Swl - sgI, sgI}).krg;
                if (!(kdHy > 1e-6 && kdMax > 1e-6)) continue;
                const double start = kdHy * kiMax / kdMax;
                const double below = sghy - 1e-9;
                const double scan = evaluate(*b.mgr, cell, {swl, 1 - swl - below, below}).krg;
                chk(close(scan, start, 1e-6, 1e-7), "deck.killough.scan-start", at + "krg just below the reversal point " + num(scan) + ", krg_d(Sghy)*krg_i(Snmaxd)/krg_d(Snmaxd) = " + num(kdHy) + "*" + num(kiMax) + "/" + num(kdMax) + " = " + num(start));
                if (std::fabs(kiMax - kdMax) <= 1e-12 * kdMax)
                    chk(close(scan, kdHy, 1e-6, 1e-7), "deck.killough.scan-continuous", at + "curves meet at Sgu: scanning " + num(scan) + " drainage " + num(kdHy));
                double prev = 2;
                for (int t = 0; t <= 40; ++t) {
                    const double sg = below * (1 - t / 40.0);
                    const double v = evaluate(*b.mgr, cell, {swl, 1 - swl - sg, sg}).krg;
                    chk(v <= prev + 1e-14, "deck.killough.scan-monotone", at + "Sg=" + num(sg) + " krg " + num(v) + " > " + num(prev) + " at the larger Sg");
                    chk(v >= -1e-15 && v <= start * (1 + 1e-6) + 1e-7, "deck.killough.scan-bound", at + "Sg=" + num(sg) + " krg " + num(v) + " start value " + num(start));
                    prev = v;
                }
                const double sgt = go.Sncrt() - swl;
                if (sgt > 0) chk(std::fabs(evaluate(*b.mgr, cell, {swl, 1 - swl - sgt, sgt}).krg) <= 1e-9, "deck.killough.scan-end", at + "krg at the trapped saturation Sg=" + num(sgt));
            }
        }
        // ---------------------------------------------------------------- (9) fifth round: two-phase decks (oil-water, gas-water) through the manager
        for (int kind = 0; kind < 2; ++kind) {
            vh::Rng q(sub ^ (kind ? 0x6B6B : 0x5A5A));
            GenOpt o; o.strict = q.coin(); o.shared = true;
            const int nreg = q.range(1, 3), ncell = q.range(3, 6);
            std::vector<Region> regs;
            for (int i = 0; i < nreg; ++i) regs.push_back(makeRegion(q, o));
            std::vector<int> satnum;
            for (int c = 0; c < ncell; ++c) satnum.push_back(q.range(1, nreg));
            // per-cell end-points for the scaled variant: SWL SWCR SWU + (ow) SOWCR KRW KRO PCW / (gw) SGL SGCR SGU KRW KRG PCW
            std::vector<std::array<double, 17>> arr;
            for (int c = 0; c < ncell; ++c) arr.push_back(randomEndpoints(q, 0));
            auto text = [&](int variant, bool endscale) {
                // variant 0: oil-water SWOF / gas-water SWFN+SGFN;  variant 1: oil-water SWFN+SOF2 / gas-water SGWFN
                std::string s = "RUNSPEC\nDIMENS\n " + std::to_string(ncell) + " 1 1 /\nTABDIMS\n " + std::to_string(nreg) + " /\n" + (kind == 0 ? "OIL\n" : "GAS\n") + "WATER\nMETRIC\n";
                if (endscale) s += "ENDSCALE\n 'NODIR' 'REVERS' 1 20 /\n";
                s += "GRID\nDX\n " + std::to_string(ncell) + "*100 /\nDY\n " + std::to_string(ncell) + "*100 /\nDZ\n " + std::to_string(ncell) +
                     "*10 /\nTOPS\n " + std::to_string(ncell) + "*2000 /\nPORO\n " + std::to_string(ncell) + "*0.2 /\nPERMX\n " + std::to_string(ncell) + "*100 /\nPROPS\n";
                auto rev = [](std::vector<double> v) { std::reverse(v.begin(), v.end()); return v; };
                if (kind == 0 && variant == 0) { s += "SWOF\n"; for (auto& R : regs) table(s, {&R.sw, &R.krw, &R.krow, &R.pcow}); }
                if (kind == 0 && variant == 1) {
                    s += "SWFN\n"; for (auto& R : regs) table(s, {&R.sw, &R.krw, &R.pcow});
                    s += "SOF2\n"; for (auto& R : regs) { std::vector<double> so, kr = rev(R.krow); for (double x : rev(R.sw)) so.push_back(1.0 - x); table(s, {&so, &kr}); }
                }
                // gas-water: the gas curve is the region's krg read against Sg = 1 - Sw on the water nodes (Sg from 0 to 1 - Swco)
                if (kind == 1 && variant == 0) {
                    s += "SWFN\n"; for (auto& R : regs) table(s, {&R.sw, &R.krw, &R.pcow});
                    s += "SGFN\n"; for (auto& R : regs) { std::vector<double> zero(R.sg.size(), 0.0); table(s, {&R.sg, &R.krg, &zero}); }
                }
                if (kind == 1 && variant == 1) {
                    s += "SGWFN\n"; for (auto& R : regs) { std::vector<double> krgw = rev(R.krw), pc = rev(R.pcow); table(s, {&R.sg, &R.krg, &krgw, &pc}); }
                }
                if (endscale) {
                    auto arrKw = [&](const char* kw, int k) { s += std::string(kw) + "\n"; for (int c = 0; c < ncell; ++c) s += " " + num(arr[c][k]); s += " /\n"; };
                    arrKw("SWL", 0); arrKw("SWCR", 2); arrKw("SWU", 6); arrKw("KRW", 14); arrKw("PCW", 8);
                    if (kind == 0) { arrKw("SOWCR", 4); arrKw("KRO", 16); }
                    else { arrKw("SGL", 1); arrKw("SGCR", 3); arrKw("SGU", 7); arrKw("KRG", 15); }
                }
                s += "REGIONS\nSATNUM\n";
                for (int c = 0; c < ncell; ++c) s += " " + std::to_string(satnum[c]);
                s += " /\n";
                return s;
            };
            // gas-water SGWFN is on the gas nodes: with shared nodes Sg_j = Sw_j - Swco, i.e. 1 - Sg_j is a water node only when Swco = 0;
            // the second variant is therefore compared on the curves' own terms: krg(Sg) equal, krw and pc as functions of 1 - Sg
            const std::string pre = kind == 0 ? "deck.ow." : "deck.gw.";
            const int NW = kind == 0 ? O : G;
            DeckSpec dummy;
            Built b0 = build(dummy, text(0, false));
            auto ev = [&](Manager& m, int cell, double sw) {
                std::array<double, 3> kr{}, pc{};
                const FluidState fs = fluidState(kind == 0 ? Sat{sw, 1 - sw, 0.0} : Sat{sw, 0.0, 1 - sw});
                MaterialLaw::relativePermeabilities(kr, m.materialLawParams(cell), fs);
                MaterialLaw::capillaryPressures(pc, m.materialLawParams(cell), fs);
                return std::array<double, 3>{kr[W], kr[NW], pc[NW] - pc[W]};
            };
            for (int cell = 0; cell < ncell; ++cell) {
                const Region& R = regs[satnum[cell] - 1];
                const std::string at = tag(cell) + (kind == 0 ? "oil-water " : "gas-water ");
                for (size_t i = 0; i < R.sw.size(); ++i) {
                    const auto v = ev(*b0.mgr, cell, R.sw[i]);
                    chk(close(v[0], R.krw[i], 1e-12, 1e-15), pre + "node.krw", at + "Sw=" + num(R.sw[i]) + " got " + num(v[0]) + " table " + num(R.krw[i]));
                    chk(close(v[2], R.pcow[i] * 1e5, 1e-12, 1e-9), pre + "node.pc", at + "Sw=" + num(R.sw[i]) + " got " + num(v[2]) + " table " + num(R.pcow[i] * 1e5));
                    if (kind == 0) chk(close(v[1], R.krow[i], 1e-12, 1e-15), pre + "node.krn", at + "Sw=" + num(R.sw[i]) + " krow " + num(v[1]) + " table " + num(R.krow[i]));
                }
                if (kind == 1)
                    for (size_t j = 0; j < R.sg.size(); ++j) {
                        const auto v = ev(*b0.mgr, cell, 1.0 - R.sg[j]);
                        chk(close(v[1], R.krg[j], 1e-12, 1e-15), pre + "node.krn", at + "Sg=" + num(R.sg[j]) + " krg " + num(v[1]) + " table " + num(R.krg[j]));
                    }
                double pw = -1, pn = 2, ppc = 1e300;
                const double nmax = kind == 0 ? R.krow.front() : R.krg.back();
                for (int t = -4; t <= 132; ++t) {
                    const double sw = t / 128.0;
                    const auto v = ev(*b0.mgr, cell, sw);
                    chk(v[0] >= pw - 1e-15 && v[1] <= pn + 1e-15 && v[2] <= ppc + 1e-9, pre + "monotone", at + "Sw=" + num(sw));
                    chk(v[0] >= -1e-15 && v[0] <= R.krw.back() * (1 + 1e-14) && v[1] >= -1e-15 && v[1] <= nmax * (1 + 1e-14), pre + "range", at + "Sw=" + num(sw) + " krw " + num(v[0]) + " krn " + num(v[1]));
                    pw = v[0]; pn = v[1]; ppc = v[2];
                }
            }
            {   // the other keyword family describing the same curves
                Built b1 = build(dummy, text(1, false));
                for (int cell = 0; cell < ncell; ++cell) {
                    const Region& R = regs[satnum[cell] - 1];
                    for (int t = 0; t <= 64; ++t) {
                        const double sw = t / 64.0;
                        const auto u = ev(*b0.mgr, cell, sw), v = ev(*b1.mgr, cell, sw);
                        const std::string where = tag(cell) + "Sw=" + num(sw);
                        if (kind == 0) {
                            chk(same(u[0], v[0], 1e-9, 1e-12) && same(u[2], v[2], 1e-9, 1e-6), pre + "family.krw-pc", where + " SWOF " + num(u[0]) + " SWFN " + num(v[0]));
                            chk(same(u[1], v[1], 1e-9, 1e-12), pre + "family.krn", where + " SWOF " + num(u[1]) + " SOF2 " + num(v[1]));
                        } else {
                            // SGWFN tabulates krw and pc against Sg: the same functions of Sw when Swco = 0 only; krg is the same table
                            chk(same(u[1], v[1], 1e-9, 1e-12), pre + "family.krn", where + " SGFN " + num(u[1]) + " SGWFN " + num(v[1]));
                            if (R.sw.front() == R.sg.front()) chk(same(u[0], v[0], 1e-9, 1e-12) && same(u[2], v[2], 1e-9, 1e-6), pre + "family.krw-pc", where);
                        }
                    }
                }
            }
            if (kind == 0) {   // end-point scaling (two-point): the scaled end-points carry the table's end-point values (gas-water: design.d/C15.md, fifth round, G1)
                Built be = build(dummy, text(0, true));
                Built bi = build(dummy, text(0, false));
                for (int cell = 0; cell < ncell; ++cell) {
                    const Region& R = regs[satnum[cell] - 1];
                    const auto& E = arr[cell];
                    const std::string at = tag(cell) + (kind == 0 ? "oil-water " : "gas-water ");
                    const bool pcz = R.pcow.front() == 0.0;
                    const auto lo = ev(*be.mgr, cell, E[2]), hi = ev(*be.mgr, cell, E[6]), l = ev(*be.mgr, cell, E[0]);
                    chk(std::fabs(lo[0]) <= 1e-12 && ev(*be.mgr, cell, E[2] + 1e-3)[0] > 0, pre + "endpoint.krw.critical", at + "krw(SWCR=" + num(E[2]) + ") = " + num(lo[0]));
                    chk(close(hi[0], E[14], 1e-9, 1e-12), pre + "endpoint.krw.max", at + "krw(SWU=" + num(E[6]) + ") = " + num(hi[0]) + " KRW " + num(E[14]));
                    if (!pcz) chk(close(l[2], E[8] * 1e5, 1e-9, 1e-6), pre + "endpoint.pc.max", at + "pc(SWL=" + num(E[0]) + ") = " + num(l[2]) + " PCW " + num(E[8] * 1e5));
                    if (kind == 0) {
                        const auto c = ev(*be.mgr, cell, 1.0 - E[4]);
                        chk(std::fabs(c[1]) <= 1e-12 && ev(*be.mgr, cell, 1.0 - E[4] - 1e-3)[1] > 0, pre + "endpoint.krn.critical", at + "krow(1-SOWCR=" + num(1.0 - E[4]) + ") = " + num(c[1]));
                        chk(close(l[1], E[16], 1e-9, 1e-12), pre + "endpoint.krn.max", at + "krow(SWL) = " + num(l[1]) + " KRO " + num(E[16]));
                    } else {
                        const auto c = ev(*be.mgr, cell, 1.0 - E[3]), m = ev(*be.mgr, cell, 1.0 - E[7]);
                        chk(std::fabs(c[1]) <= 1e-12 && ev(*be.mgr, cell, 1.0 - E[3] - 1e-3)[1] > 0, pre + "endpoint.krn.critical", at + "krg(SGCR=" + num(E[3]) + ") = " + num(c[1]));
                        chk(close(m[1], E[15], 1e-9, 1e-12), pre + "endpoint.krn.max", at + "krg(SGU=" + num(E[7]) + ") = " + num(m[1]) + " KRG " + num(E[15]));
                    }
                    (void) bi;
                }
            }
        }
    }
    return chk.byKey;
}

int main(int argc, char** argv)
{
    if (argc < 5) { std::cerr << "usage: satdeck corr|prop <seed> <tier> <outdir>\n"; return 2; }
    const std::string mode = argv[1];
    const uint64_t seed = std::strtoull(argv[2], nullptr, 10);
    const bool thorough = std::string(argv[3]) == "thorough";
    const std::string out = argv[4];
    vh::Rng r(seed ^ 0xDECC);
    g_current = out + "/current_input.DATA";
    if (mode == "corr") {
        vh::Sink sink(out);
        corrDecks(r, sink, thorough ? 900 : 140);
        sink.writeStats(out + "/stats.json");
        std::remove(g_current.c_str());
        return 0;
    }
    if (mode == "prop") {
        vh::PropLog log(out + "/prop.txt");
        const auto byKey = propDecks(r, log, thorough ? 260 : 40, out);
        std::ofstream st(out + "/prop_stats.json");
        st << "{\"checked\": " << log.checked << ", \"failed\": " << log.failed << ", \"by_key\": {";
        bool first = true;
        for (const auto& kv : byKey) { st << (first ? "" : ", ") << "\"" << kv.first << "\": " << kv.second; first = false; }
        st << "}}\n";
        std::remove(g_current.c_str());
        return 0;
    }
    if (mode == "deck") {           // print one random deck (debugging aid)
        GenCfg g;
        DeckSpec d = makeDeck(r, g);
        std::cout << deckText(d);
        return 0;
    }
    return 2;
}
