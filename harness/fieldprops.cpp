// C12 harness: random grids / ACTNUM / keyword programs rendered as deck text and run through
// the real Parser + EclipseState; the same program is emitted on the line protocol for the
// Lean model (compressed implementation semantics AND reference semantics).
//
//   fieldprops corr <seed> <tier> <outdir>   ops.txt / impl.txt / stats.json
//   fieldprops prop <seed> <tier> <outdir>   the property on the real code alone:
//        (1) real result == independent reference interpreter (sequential application on the
//            GLOBAL grid, written below in plain C++);
//        (2) run with ACTNUM vs run with all cells active: same accept/reject direction and
//            same cell contents on the cells active in both.
//   fieldprops one <deckfile> <kw>...        debugging aid
//
// Keyword set (restricted on purpose, see design.d/C12.md): doubles whose processing is the
// generic FieldProps path; PORV, TRAN*, TEMPI, saturation end points and multi-valued
// (compositional) keywords are excluded.
#include "common/vh.hpp"
#include <sys/wait.h>
#include <unistd.h>

#include <opm/input/eclipse/Parser/Parser.hpp>
#include <opm/input/eclipse/Parser/ParseContext.hpp>
#include <opm/input/eclipse/Parser/ErrorGuard.hpp>
#include <opm/input/eclipse/Deck/Deck.hpp>
#include <opm/input/eclipse/EclipseState/EclipseState.hpp>
#include <opm/input/eclipse/EclipseState/Grid/EclipseGrid.hpp>
#include <opm/input/eclipse/EclipseState/Grid/FieldPropsManager.hpp>
#include <opm/input/eclipse/EclipseState/Grid/FieldProps.hpp>
#include <opm/input/eclipse/EclipseState/Grid/FieldData.hpp>
#include <opm/input/eclipse/EclipseState/Grid/Box.hpp>
#include <opm/input/eclipse/EclipseState/Grid/BoxManager.hpp>
#include <opm/input/eclipse/EclipseState/Grid/GridDims.hpp>
#include <opm/input/eclipse/Units/UnitSystem.hpp>
#include <opm/input/eclipse/Units/Dimension.hpp>
#include <opm/common/OpmLog/OpmLog.hpp>

#include <algorithm>
#include <cstdlib>
#include <cmath>
#include <iostream>
#include <limits>
#include <map>
#include <optional>
#include <cstdio>
#include <set>
#include <sstream>
#include <string>
#include <vector>

using namespace Opm;

// ---------------------------------------------------------------------------------------------
// program representation

struct BoxItems { std::optional<int> v[6]; };   // one-based, nullopt = defaulted

struct DCell { char st = 'v'; double d = 0; int i = 0; };   // 'v' deck value, 'd' valid default, 'e' empty default

struct Rec {
    std::string a, b;        // array names (target / source)
    double val = 0;          // scalar / alpha
    double val2 = 0;         // beta
    BoxItems box;
    std::string fn;          // OPERATE function
    int rv = 0;              // region value
    std::string rs = "*";    // region set item ("*" = defaulted) or region array name (OPERATER)
};

enum class KT { BOX, ENDBOX, DATD, DATI, SCAL, COPY, OPER, SREG, CREG, OPRR, TDAT };   // TDAT: TRANX/TRANY/TRANZ data keyword (EDIT)

struct KwOp {
    KT type;
    std::string name;        // data keyword name / operation keyword (EQUALS, ADDREG, ...)
    BoxItems box;            // BOX
    std::vector<DCell> data; // DATD / DATI
    std::vector<Rec> recs;
};

static const char* SECNAME[5] = { "GRID", "EDIT", "PROPS", "REGIONS", "SOLUTION" };   // deck order

struct Case {
    int nx = 1, ny = 1, nz = 1;
    std::vector<int> actnum;
    bool writeActnum = true;
    std::vector<KwOp> sec[5];
    std::string units = "METRIC";       // unit system of the deck (RUNSPEC keyword)
    std::vector<double> tranData;       // one value per GLOBAL cell: the array the simulator hands to apply_tran (empty: no TRAN probe)
    std::vector<KwOp> sched;            // SCHEDULE-section keywords handed to EclipseState::apply_schedule_keywords (BOX/ENDBOX/DATD)
};

static bool isTranName(const std::string& n) { return n == "TRANX" || n == "TRANY" || n == "TRANZ"; }
static int tranDir(const std::string& n) { return n == "TRANX" ? 0 : n == "TRANY" ? 1 : n == "TRANZ" ? 2 : 3; }
static const char* TRAN_NAME[3] = { "TRANX", "TRANY", "TRANZ" };

struct DInfo { std::optional<double> init; bool mult = false, top = false, glob = false, hasUnit = false; double scale = 1, offset = 0; };

static std::map<std::string, DInfo> DBL;                    // declared double keywords
static std::map<std::string, std::optional<int>> INTS;      // declared int keywords
static std::vector<std::string> DBL_ORDER, INT_ORDER;

// The tables per unit system; `DBL` is the one of the case being generated / interpreted (useUnits).  Decks of
// different unit systems are interleaved within one process: whatever the code memoises per process (SI factors,
// keyword defaults) is read back under another unit system.
static std::map<std::string, std::map<std::string, DInfo>> DBL_BY_UNITS;
static std::map<std::string, double> TRAN_F;      // SI factor of measure::transmissibility
static double TRAN_SI = 0;
static std::string CUR_UNITS;
static void useUnits(const std::string& u);

static void declareKeywordsFor(const std::string& uname, const UnitSystem& us) {
    DBL.clear(); DBL_ORDER.clear(); INTS.clear(); INT_ORDER.clear();
    for (const char* k : { "PORO", "NTG", "PERMX", "PERMY", "PERMZ", "MULTX", "MULTY", "MULTX-", "MULTZ", "MULTZ-", "MULTPV",
                           "DISPERC", "SWATINIT", "PRESSURE", "SWAT", "SGAS", "SSOL", "RS", "SALT" }) {
        if (!FieldProps::supported<double>(k)) throw std::logic_error(std::string("not a double keyword: ") + k);
        const auto info = Fieldprops::keywords::global_kw_info<double>(k);
        DInfo d;
        d.init = info.scalar_init; d.mult = info.multiplier; d.top = info.top; d.glob = info.global;
        if (info.unit) {
            const auto dim = us.parse(*info.unit);
            d.hasUnit = true; d.scale = dim.getSIScaling(); d.offset = dim.getSIOffset();
        }
        DBL[k] = d; DBL_ORDER.push_back(k);
    }
    for (const char* k : { "ACTNUM", "FLUXNUM", "MULTNUM", "OPERNUM", "SATNUM", "PVTNUM", "FIPNUM", "EQLNUM",
                           "MISCNUM", "FIPABC", "ROCKNUM" }) {
        if (!FieldProps::supported<int>(k)) throw std::logic_error(std::string("not an int keyword: ") + k);
        INTS[k] = Fieldprops::keywords::global_kw_info<int>(k).scalar_init;
        INT_ORDER.push_back(k);
    }
    DBL_BY_UNITS[uname] = DBL;
    TRAN_F[uname] = us.to_si(UnitSystem::measure::transmissibility, 1.0);
}

static void declareKeywords() {
    declareKeywordsFor("FIELD", UnitSystem::newFIELD());
    declareKeywordsFor("LAB", UnitSystem::newLAB());
    declareKeywordsFor("METRIC", UnitSystem(UnitSystem::UnitType::UNIT_TYPE_METRIC));
    useUnits("METRIC");
}

static void useUnits(const std::string& u) { if (u == CUR_UNITS) return; DBL = DBL_BY_UNITS.at(u); TRAN_SI = TRAN_F.at(u); CUR_UNITS = u; }

// data keywords accepted by scan<SECTION>Section (index = section)
static const std::vector<std::string> DATA_D[5] = {
    { "PORO", "NTG", "PERMX", "PERMY", "PERMZ", "MULTX", "MULTY", "MULTX-", "MULTZ", "MULTZ-", "MULTPV", "DISPERC" },
    { "MULTX", "MULTY", "MULTX-", "MULTZ", "MULTZ-", "MULTPV" }, { "SWATINIT" }, {},
    { "PRESSURE", "SWAT", "SGAS", "SSOL", "RS", "SALT" } };
static const std::vector<std::string> DATA_I[5] = {
    { "FLUXNUM", "MULTNUM", "OPERNUM" }, {}, {}, { "SATNUM", "PVTNUM", "FIPNUM", "EQLNUM", "MISCNUM", "FIPABC", "OPERNUM", "ROCKNUM" }, {} };

// ---------------------------------------------------------------------------------------------
// rendering

static std::string fmtD(double x) {
    char b[64];
    std::snprintf(b, sizeof b, "%.17g", x);
    return b;
}

static std::string boxText(const BoxItems& b) {
    int last = -1;
    for (int i = 0; i < 6; ++i) if (b.v[i]) last = i;
    std::string s;
    for (int i = 0; i <= last; ++i) s += b.v[i] ? " " + std::to_string(*b.v[i]) : " 1*";
    return s;
}
static std::string boxTok(const BoxItems& b) {
    std::string s;
    for (int i = 0; i < 6; ++i) s += b.v[i] ? " " + std::to_string(*b.v[i]) : " *";
    return s;
}

static std::string dataText(const std::vector<DCell>& d, bool isInt) {
    std::string s;
    size_t i = 0; int col = 0;
    while (i < d.size()) {
        size_t j = i;
        if (d[i].st != 'v') {       // a run of defaults
            while (j < d.size() && d[j].st != 'v') ++j;
            s += " " + std::to_string(j - i) + "*";
        } else {
            while (j < d.size() && d[j].st == 'v' && (isInt ? d[j].i == d[i].i : d[j].d == d[i].d)) ++j;
            std::string v = isInt ? std::to_string(d[i].i) : fmtD(d[i].d);
            s += (j - i > 1) ? " " + std::to_string(j - i) + "*" + v : " " + v;
        }
        i = j;
        if (++col % 8 == 0) s += "\n";
    }
    return s;
}

static std::string deckText(const Case& c) {
    std::ostringstream o;
    const int n = c.nx * c.ny * c.nz;
    o << "RUNSPEC\nDIMENS\n " << c.nx << " " << c.ny << " " << c.nz << " /\nOIL\nWATER\nGAS\n" << c.units << "\n";
    o << "GRID\nDX\n " << n << "*1 /\nDY\n " << n << "*1 /\nDZ\n " << n << "*1 /\nTOPS\n " << c.nx * c.ny << "*1000 /\n";
    for (int s = 0; s < 5; ++s) {
        if (s > 0) o << SECNAME[s] << "\n";
        for (const auto& k : c.sec[s]) {
            switch (k.type) {
            case KT::BOX: o << "BOX\n" << boxText(k.box) << " /\n"; break;
            case KT::ENDBOX: o << "ENDBOX\n"; break;
            case KT::DATD: case KT::TDAT: o << k.name << "\n" << dataText(k.data, false) << " /\n"; break;
            case KT::DATI: o << k.name << "\n" << dataText(k.data, true) << " /\n"; break;
            case KT::SCAL:
                o << k.name << "\n";
                for (const auto& r : k.recs) o << " " << r.a << " " << fmtD(r.val) << boxText(r.box) << " /\n";
                o << "/\n"; break;
            case KT::COPY:
                o << "COPY\n";
                for (const auto& r : k.recs) o << " " << r.b << " " << r.a << boxText(r.box) << " /\n";
                o << "/\n"; break;
            case KT::OPER:
                o << "OPERATE\n";
                for (const auto& r : k.recs) {
                    o << " " << r.a;
                    for (int i = 0; i < 6; ++i) o << (r.box.v[i] ? " " + std::to_string(*r.box.v[i]) : std::string(" 1*"));
                    o << " " << r.fn << " " << r.b << " " << fmtD(r.val) << " " << fmtD(r.val2) << " /\n";
                }
                o << "/\n"; break;
            case KT::SREG:
                o << k.name << "\n";
                for (const auto& r : k.recs) o << " " << r.a << " " << fmtD(r.val) << " " << r.rv << (r.rs == "*" ? "" : " " + r.rs) << " /\n";
                o << "/\n"; break;
            case KT::CREG:
                o << "COPYREG\n";
                for (const auto& r : k.recs) o << " " << r.b << " " << r.a << " " << r.rv << (r.rs == "*" ? "" : " " + r.rs) << " /\n";
                o << "/\n"; break;
            case KT::OPRR:
                o << "OPERATER\n";
                for (const auto& r : k.recs)
                    o << " " << r.a << " " << r.rv << " " << r.fn << " " << r.b << " " << fmtD(r.val) << " " << fmtD(r.val2) << " " << r.rs << " /\n";
                o << "/\n"; break;
            }
        }
    }
    return o.str();
}

static std::string optHex(const std::optional<double>& v) { return v ? vh::hexF64(*v) : "-"; }

static std::string caseTokens(const Case& c) {
    std::ostringstream o;
    // "P": the model derives the ACTNUM with its own ACTNUM-only pre-pass, as EclipseState does
    o << c.nx << " " << c.ny << " " << c.nz << " P";
    for (const auto& k : DBL_ORDER) {
        const auto& d = DBL[k];
        o << " D " << k << " " << optHex(d.init) << " " << d.mult << " " << d.top << " " << d.glob << " " << d.hasUnit
          << " " << vh::hexF64(d.scale) << " " << vh::hexF64(d.offset);
    }
    for (const auto& k : INT_ORDER) o << " I " << k << " " << (INTS[k] ? std::to_string(*INTS[k]) : "-");
    o << " E";
    for (int s = 0; s < 5; ++s) {
        o << " S " << SECNAME[s];
        for (const auto& k : c.sec[s]) {
            switch (k.type) {
            case KT::BOX: o << " BOX" << boxTok(k.box); break;
            case KT::ENDBOX: o << " ENDBOX"; break;
            case KT::DATD:
                o << " DATD " << k.name << " " << k.data.size();
                for (const auto& d : k.data) { if (d.st == 'e') o << " e"; else o << " " << d.st << vh::hexF64(d.d); }
                break;
            case KT::DATI:
                o << " DATI " << k.name << " " << k.data.size();
                for (const auto& d : k.data) { if (d.st == 'e') o << " e"; else o << " " << d.st << d.i; }
                break;
            case KT::SCAL:
                o << " SCAL " << k.name << " " << k.recs.size();
                for (const auto& r : k.recs) o << " " << r.a << " " << vh::hexF64(r.val) << boxTok(r.box);
                break;
            case KT::COPY:
                o << " COPY " << k.recs.size();
                for (const auto& r : k.recs) o << " " << r.b << " " << r.a << boxTok(r.box);
                break;
            case KT::OPER:
                o << " OPER " << k.recs.size();
                for (const auto& r : k.recs) o << " " << r.a << boxTok(r.box) << " " << r.fn << " " << r.b << " " << vh::hexF64(r.val) << " " << vh::hexF64(r.val2);
                break;
            case KT::SREG:
                o << " SREG " << k.name << " " << k.recs.size();
                for (const auto& r : k.recs) o << " " << r.a << " " << vh::hexF64(r.val) << " " << r.rv << " " << r.rs;
                break;
            case KT::CREG:
                o << " CREG " << k.recs.size();
                for (const auto& r : k.recs) o << " " << r.b << " " << r.a << " " << r.rv << " " << r.rs;
                break;
            case KT::TDAT: break;   // never reached: caseTokens gets the case stripped of the TRAN edits (stripTran)
            case KT::OPRR:
                o << " OPRR " << k.recs.size();
                for (const auto& r : k.recs) o << " " << r.a << " " << r.rv << " " << r.fn << " " << r.b << " " << vh::hexF64(r.val) << " " << vh::hexF64(r.val2) << " " << r.rs;
                break;
            }
        }
    }
    o << " END";
    return o.str();
}

// ---------------------------------------------------------------------------------------------
// observation format (shared by the real run and the C++ reference interpreter)

template <class T> struct OCell { char st; T v; };
template <class T> struct Obs { bool valid = false; std::vector<OCell<T>> cells; std::vector<T> glob; };
struct Outcome {
    bool ok = false;
    std::vector<int> act;
    std::map<std::string, Obs<double>> d;
    std::map<std::string, Obs<int>> i;
    // transmissibility calculators (only when the case carries tranData)
    struct TranObs { bool active = false; std::vector<std::pair<std::string, std::string>> actions; std::vector<double> out; };
    bool hasTran = false;
    TranObs tran[3];
    std::vector<int> act0;              // ACTNUM of the grid while GRID/EDIT are scanned (pre-pass), before the PORV update
    // SCHEDULE-section multipliers (only when the case carries sched keywords)
    bool hasSched = false, schedOk = false;
    std::vector<std::pair<std::string, std::vector<OCell<double>>>> schedPre, schedPost;
};

static char stLetter(value::status s) {
    switch (s) {
    case value::status::uninitialized: return 'u';
    case value::status::deck_value: return 'v';
    case value::status::empty_default: return 'e';
    case value::status::valid_default: return 'd';
    }
    return '?';
}

// Lean's Float.toBits canonicalises NaN payload/sign; do the same on this side
static std::string hexCanon(double v) { return std::isnan(v) ? std::string("7ff8000000000000") : vh::hexF64(v); }

static std::string showOutcome(const Outcome& r) {
    if (!r.ok) return "err";
    std::string s = "ok ";
    for (int a : r.act) s += a ? '1' : '0';
    for (const auto& k : DBL_ORDER) {
        const auto& o = r.d.at(k);
        s += " " + k + ":" + (o.valid ? "V" : "X") + ":";
        if (o.cells.empty()) s += "-";
        for (const auto& c : o.cells) { s += c.st; s += hexCanon(c.v); }
        s += ":";
        if (!o.valid || o.glob.empty()) s += "-";
        else for (double g : o.glob) s += hexCanon(g);
    }
    for (const auto& k : INT_ORDER) {
        const auto& o = r.i.at(k);
        s += " " + k + ":";
        if (o.valid) {
            s += "V:";
            if (o.cells.empty()) s += "-";
            for (size_t j = 0; j < o.cells.size(); ++j) { if (j) s += ","; s += o.cells[j].st; s += std::to_string(o.cells[j].v); }
            s += ":";
            if (o.glob.empty()) s += "-";
            for (size_t j = 0; j < o.glob.size(); ++j) { if (j) s += ","; s += std::to_string(o.glob[j]); }
        } else {
            s += "X:b";
            for (const auto& c : o.cells) s += (c.st == 'd' || c.st == 'e') ? '1' : '0';
            s += ":-";
        }
    }
    return s;
}

// ---------------------------------------------------------------------------------------------
// the real code

static Parser& theParser() { static Parser p; return p; }

// the deck handed to the real code is kept on disk while it runs: if the real code dies on it (signal, abort) the
// orchestration finds the killing input there (lib/vlib.py: _keep_current_input)
static std::string CURRENT_INPUT;

static std::string schedText(const Case& c);
static const char* SCHED_MULT[6] = { "MULTX", "MULTX-", "MULTY", "MULTY-", "MULTZ", "MULTZ-" };
static std::string tranOpName(Fieldprops::ScalarOperation op) {
    switch (op) {
    case Fieldprops::ScalarOperation::ADD: return "ADD";
    case Fieldprops::ScalarOperation::EQUAL: return "EQUAL";
    case Fieldprops::ScalarOperation::MUL: return "MUL";
    case Fieldprops::ScalarOperation::MIN: return "MIN";
    case Fieldprops::ScalarOperation::MAX: return "MAX";
    }
    return "?";
}

static Outcome runReal(const std::string& deckStr, int ncells, const Case* tc = nullptr) {
    Outcome r;
    if (!CURRENT_INPUT.empty()) vh::spit(CURRENT_INPUT, deckStr);
    try {
        ParseContext pc;
        ErrorGuard eg;
        auto deck = theParser().parseString(deckStr, pc, eg);
        EclipseState es(deck);
        const auto& fp = es.fieldProps();
        r.act = es.getInputGrid().getACTNUM();
        if (r.act.empty()) r.act.assign(ncells, 1);
        for (auto& a : r.act) a = a ? 1 : 0;
        for (const auto& k : DBL_ORDER) {
            Obs<double> o;
            try { (void) fp.get_double(k); o.valid = true; } catch (const std::exception&) { o.valid = false; }
            const auto& fd = fp.get_double_field_data(k, true);
            for (size_t j = 0; j < fd.data.size(); ++j) o.cells.push_back({ stLetter(fd.value_status[j]), fd.data[j] });
            if (o.valid) o.glob = fp.get_global_double(k);
            r.d[k] = o;
        }
        for (const auto& k : INT_ORDER) {
            Obs<int> o;
            try { (void) fp.get_int(k); o.valid = true; } catch (const std::exception&) { o.valid = false; }
            if (o.valid) {
                const auto& fd = fp.get_int_field_data(k);
                for (size_t j = 0; j < fd.data.size(); ++j) o.cells.push_back({ stLetter(fd.value_status[j]), fd.data[j] });
                o.glob = fp.get_global_int(k);
            } else {
                for (bool b : fp.defaulted<int>(k)) o.cells.push_back({ b ? 'd' : 'u', 0 });
            }
            r.i[k] = o;
        }
        if (tc && !tc->tranData.empty()) {
            // the simulator's view of the TRANX/TRANY/TRANZ edits: action lists and their application to an array it supplies
            EclipseGrid g0(deck);
            r.act0 = g0.getACTNUM();
            if (r.act0.empty()) r.act0.assign(ncells, 1);
            for (auto& a : r.act0) a = a ? 1 : 0;
            const auto& tr = fp.getTran();
            for (int d = 0; d < 3; ++d) {
                auto& o = r.tran[d];
                o.active = fp.tran_active(TRAN_NAME[d]);
                for (const auto& a : tr.at(TRAN_NAME[d])) o.actions.push_back({ tranOpName(a.op), a.field });
                for (size_t g = 0; g < r.act.size(); ++g) if (r.act[g]) o.out.push_back(tc->tranData[g]);
                if (o.out.size() != fp.active_size()) throw std::logic_error("active size");
                fp.apply_tran(TRAN_NAME[d], o.out);
            }
            r.hasTran = true;
        }
        r.ok = true;
        if (tc && !tc->sched.empty()) {
            // SCHEDULE-section multipliers: state of the six arrays before and after apply_schedule_keywords
            auto snap = [&fp](std::vector<std::pair<std::string, std::vector<OCell<double>>>>& out) {
                for (const char* k : SCHED_MULT) {
                    if (!fp.has_double(k)) continue;
                    const auto& fd = fp.get_double_field_data(k, true);
                    std::vector<OCell<double>> cells;
                    for (size_t j = 0; j < fd.data.size(); ++j) cells.push_back({ stLetter(fd.value_status[j]), fd.data[j] });
                    out.push_back({ k, cells });
                }
            };
            r.hasSched = true;
            snap(r.schedPre);
            try {
                ParseContext pc2;
                ErrorGuard eg2;
                auto sdeck = theParser().parseString(schedText(*tc), pc2, eg2);
                std::vector<DeckKeyword> kws;
                for (const auto& kw : sdeck) if (kw.name() != "SCHEDULE") kws.push_back(kw);
                es.apply_schedule_keywords(kws);
                r.schedOk = true;
                snap(r.schedPost);
            } catch (const std::exception&) { r.schedOk = false; }
        }
    } catch (const std::exception&) {
        r = Outcome{};
    }
    return r;
}

// ---------------------------------------------------------------------------------------------
// independent reference interpreter: sequential application on the GLOBAL grid

struct RefErr {};

template <class T> struct GCell { char st = 'u'; T v = 0; };
template <class T> using GArr = std::vector<GCell<T>>;
static bool hasV(char st) { return st == 'v' || st == 'd'; }

// distribution counters of what the final program exercises: filled by a pass of the reference interpreter
// with RSTAT set (never during generation, where refKeyword is called on candidates)
static std::map<std::string, long>* RSTAT = nullptr;
static void rcount(const std::string& k, long n = 1) { if (RSTAT) (*RSTAT)[k] += n; }

struct EntryInfo { int sec; int box[6]; };

struct RefState {
    int nx, ny, nz;
    std::vector<char> act;
    // bookkeeping for the counters only (no influence on the semantics)
    std::map<std::string, EntryInfo> entered;   // array -> section / box of its last data keyword
    std::set<std::string> regionTouched;        // arrays written by a region-keyed operation
    bool recBoxPending = false;                 // previous keyword ended with a record box != the current box
    int inBoxKw = -1;                           // keywords since the last BOX (-1: no BOX open)
    // "same key reused after its source changed" (counters e.*): what every region-keyed record saw
    struct KeySnap { std::vector<char> cells; size_t logPos = 0; int sec = 0; int nact = 0; };
    std::map<std::pair<std::string, int>, KeySnap> keySnap;     // (region array, id) -> active cells selected last time
    std::vector<std::pair<std::string, std::string>> intWrites; // (int array, writer) in program order
    std::map<std::string, int> boxUse;                          // box bounds -> active cell count when last used
    void noteIntWrite(const std::string& a, const std::string& how) { intWrites.push_back({ a, how }); }
    std::map<std::string, GArr<double>> d;
    std::map<std::string, GArr<int>> i;
    std::map<std::string, GArr<double>> gd;      // the code's global storage of `global` keywords
    int box[6];      // zero based inclusive i1 i2 j1 j2 k1 k2
    int n() const { return nx * ny * nz; }
    void globalBox() { box[0] = 0; box[1] = nx - 1; box[2] = 0; box[3] = ny - 1; box[4] = 0; box[5] = nz - 1; }
    int boxSize() const { return (box[1] - box[0] + 1) * (box[3] - box[2] + 1) * (box[5] - box[4] + 1); }
};

static void refUpdateBox(RefState& s, const BoxItems& b) {
    bool any = false;
    for (int k = 0; k < 6; ++k) any = any || b.v[k].has_value();
    if (!any) return;
    const int dims[3] = { s.nx, s.ny, s.nz };
    int nb[6];
    for (int k = 0; k < 6; ++k) nb[k] = b.v[k] ? *b.v[k] - 1 : (k % 2 == 0 ? 0 : dims[k / 2] - 1);
    for (int a = 0; a < 3; ++a) {
        const int lo = nb[2 * a], hi = nb[2 * a + 1];
        if (lo < 0 || hi < 0 || lo > hi || hi >= dims[a]) throw RefErr{};
    }
    for (int k = 0; k < 6; ++k) s.box[k] = nb[k];
}

// visit the cells of the current box in row-major order: f(global index, position in box)
template <class F> static void forBox(const RefState& s, F f) {
    int pos = 0;
    for (int k = s.box[4]; k <= s.box[5]; ++k)
        for (int j = s.box[2]; j <= s.box[3]; ++j)
            for (int i = s.box[0]; i <= s.box[1]; ++i)
                f(i + s.nx * (j + s.ny * k), pos++);
}

template <class T> static bool refValid(const RefState& s, const GArr<T>& a) {
    for (int g = 0; g < s.n(); ++g) if (s.act[g] && !hasV(a[g].st)) return false;
    return true;
}

static const std::string MULT_PREFIX = "__MULT__";
static std::string baseName(const std::string& k) { return k.rfind(MULT_PREFIX, 0) == 0 ? k.substr(MULT_PREFIX.size()) : k; }
// in the EDIT section multiplier keywords are accumulated in a scratch array
static std::string editName(int sec, const std::string& k) { return (sec == 1 && DBL.at(k).mult) ? MULT_PREFIX + k : k; }

static GArr<double>& refGetD(RefState& s, const std::string& k) {
    auto it = s.d.find(k);
    if (it != s.d.end()) return it->second;
    const auto& info = DBL.at(baseName(k));
    GArr<double> a(s.n());
    if (info.init) for (auto& c : a) { c.st = 'd'; c.v = *info.init; }
    return s.d[k] = a;
}
// global storage: created together with the array, same initial content
static GArr<double>& refGetG(RefState& s, const std::string& k) {
    auto it = s.gd.find(k);
    if (it != s.gd.end()) return it->second;
    const auto& info = DBL.at(baseName(k));
    GArr<double> a(s.n());
    if (info.init) for (auto& c : a) { c.st = 'd'; c.v = *info.init; }
    return s.gd[k] = a;
}
static bool isGlob(const std::string& k) { return DBL.count(baseName(k)) && DBL.at(baseName(k)).glob; }

static GArr<int>& refGetI(RefState& s, const std::string& k) {
    auto it = s.i.find(k);
    if (it != s.i.end()) return it->second;
    GArr<int> a(s.n());
    if (INTS.at(k)) for (auto& c : a) { c.st = 'd'; c.v = *INTS.at(k); }
    return s.i[k] = a;
}

static double si(const DInfo& i, double raw) { return i.hasUnit ? raw * i.scale + i.offset : raw; }

// scalar operation on one cell; returns false when the cell makes the operation undefined
template <class T> static bool scalarCell(const std::string& op, GCell<T>& c, T x) {
    if (op == "EQUALS" || op == "EQUALREG") { c.st = 'v'; c.v = x; return true; }
    if (!hasV(c.st)) return false;
    if (op == "ADD" || op == "ADDREG") c.v += x;
    else if (op == "MULTIPLY" || op == "MULTIREG") c.v *= x;
    else if (op == "MINVALUE") c.v = std::max(c.v, x);
    else if (op == "MAXVALUE") c.v = std::min(c.v, x);
    return true;
}

static std::optional<std::string> refRegionName(const std::string& rs) {
    if (rs == "*") return "FLUXNUM";
    if (rs == "O") return "OPERNUM";
    if (rs == "F") return "FLUXNUM";
    if (rs == "M") return "MULTNUM";
    return std::nullopt;
}

static bool refOperate(const std::string& fn, double al, double be, double R, double X, double& out) {
    if (fn == "MULTA") out = al * X + be;
    else if (fn == "POLY") out = R + al * std::pow(X, be);
    else if (fn == "SLOG") out = std::pow(10.0, al + be * X);
    else if (fn == "LOG10") out = std::log10(X);
    else if (fn == "LOGE") out = std::log(X);
    else if (fn == "INV") out = 1.0 / X;
    else if (fn == "MULTX") out = al * X;
    else if (fn == "ADDX") out = al + X;
    else if (fn == "COPY") out = X;
    else if (fn == "MAXLIM") out = std::min(al, X);
    else if (fn == "MINLIM") out = std::max(al, X);
    else if (fn == "MULTP") out = al * std::pow(X, be);
    else if (fn == "ABS") out = std::fabs(X);
    else if (fn == "MULTIPLY") out = R * X;
    else return false;
    return true;
}

// region selection: active cells decide emptiness and validity; values are applied to every cell
// whose (global) region value matches
static const GArr<int>& refRegion(RefState& s, const std::string& name) {
    if (!INTS.count(name)) throw RefErr{};
    const auto& reg = refGetI(s, name);
    if (!refValid(s, reg)) {
        if (RSTAT) {
            bool some = false;
            for (int g = 0; g < s.n(); ++g) some = some || (s.act[g] && hasV(reg[g].st));
            rcount(some ? "d.region.rejected-partly-defined" : "d.region.rejected-undefined");
        }
        throw RefErr{};
    }
    return reg;
}
static bool refRegionEmpty(const RefState& s, const GArr<int>& reg, int rv) {
    for (int g = 0; g < s.n(); ++g) if (s.act[g] && reg[g].v == rv) return false;
    return true;
}
// counters for one region-keyed record; returns "empty among the active cells"
static bool countRegionRec(RefState& s, int sec, const std::string& kw, const std::string& regName, const GArr<int>& reg, int rv) {
    const bool empty = refRegionEmpty(s, reg, rv);
    if (!RSTAT) return empty;
    {
        // the key (region array, id) used before?  did the set of active cells it selects change since, and who wrote
        // integer arrays in between (a memo of region_index must be dropped by every one of them)
        RefState::KeySnap now;
        now.cells.assign(s.n(), 0);
        for (int g = 0; g < s.n(); ++g) { now.cells[g] = s.act[g] && reg[g].v == rv; now.nact += s.act[g] ? 1 : 0; }
        now.logPos = s.intWrites.size(); now.sec = sec;
        const auto key = std::make_pair(regName, rv);
        auto it = s.keySnap.find(key);
        if (it != s.keySnap.end()) {
            const auto& old = it->second;
            const bool changed = old.cells != now.cells;
            rcount(changed ? "e.key-reused.selection-changed" : "e.key-reused.selection-unchanged");
            if (changed) {
                std::set<std::string> writers; std::string lastOnReg;
                for (size_t q = old.logPos; q < s.intWrites.size(); ++q) { writers.insert(s.intWrites[q].second); if (s.intWrites[q].first == regName) lastOnReg = s.intWrites[q].second; }
                rcount("e.key-reused.selection-changed.region-array-last-written-by." + (lastOnReg.empty() ? std::string("nobody") : lastOnReg));
                bool onlyCopy = !writers.empty();
                for (const auto& w : writers) onlyCopy = onlyCopy && (w == "COPY" || w == "COPYREG");
                if (onlyCopy) rcount("e.key-reused.selection-changed.only-COPY/COPYREG-wrote-int-arrays-in-between");
                if (old.sec != sec) rcount("e.key-reused.selection-changed.later-section");
                if (old.nact != now.nact) rcount("e.key-reused.selection-changed.active-cells-removed-in-between");
                if (empty) rcount("e.key-reused.selection-changed.now-empty");
            } else {
                if (old.sec != sec) rcount("e.key-reused.selection-unchanged.later-section");
            }
            if (old.nact != now.nact) rcount("e.key-reused.active-cells-removed-in-between");
        }
        for (const auto& kv : s.keySnap) if (kv.first.second == rv && kv.first.first != regName) { rcount("e.same-id-other-region-set"); break; }
        s.keySnap[key] = now;
    }
    std::set<int> vals, avals;
    bool anyGlobal = false;
    for (int g = 0; g < s.n(); ++g) {
        vals.insert(reg[g].v);
        if (s.act[g]) avals.insert(reg[g].v);
        anyGlobal = anyGlobal || reg[g].v == rv;
    }
    rcount("d.region.rec." + kw);
    rcount("d.region.distinct-values-among-active." + std::to_string(std::min<size_t>(avals.size(), 4)));
    if (!empty) rcount("d.region.rec.nonempty");
    else if (anyGlobal) rcount("d.region.rec.empty-among-active-only"), rcount("d.region.rec.empty-among-active-only." + kw);
    else rcount("d.region.rec.empty-everywhere");
    return empty;
}

static bool allDefaulted(const BoxItems& b) { for (int q = 0; q < 6; ++q) if (b.v[q]) return false; return true; }
static bool someDefaulted(const BoxItems& b) { for (int q = 0; q < 6; ++q) if (!b.v[q]) return true; return false; }
static bool sameBox(const RefState& a, const RefState& b) { for (int q = 0; q < 6; ++q) if (a.box[q] != b.box[q]) return false; return true; }
static bool isGlobalBox(const RefState& s) { return s.boxSize() == s.n(); }

// counters for record boxes inside one keyword (t: the keyword's private state, s: the state it started from)
static void countRecBox(const std::string& kw, const RefState& s, const RefState& t, const BoxItems& b, size_t j) {
    if (!RSTAT) return;
    if (allDefaulted(b)) {
        if (j > 0 && !sameBox(s, t)) rcount("b.rec.all-defaulted-after-boxed-record"), rcount("b.rec.all-defaulted-after-boxed-record." + kw);
        else rcount(j == 0 ? "b.rec.all-defaulted-first" : "b.rec.all-defaulted-after-same-box");
    } else if (someDefaulted(b)) rcount("b.rec.partially-defaulted"), rcount("b.rec.partially-defaulted." + kw);
    else rcount("b.rec.all-six-given");
}

// counters for box reuse: the same box bounds used again, possibly after the set of active cells shrank
static void countBoxUse(RefState& s, const RefState& t) {
    if (!RSTAT) return;
    std::string key;
    for (int q = 0; q < 6; ++q) key += std::to_string(t.box[q]) + ",";
    int nact = 0;
    for (int g = 0; g < s.n(); ++g) nact += s.act[g] ? 1 : 0;
    auto it = s.boxUse.find(key);
    if (it != s.boxUse.end()) {
        rcount("e.box-reused");
        if (it->second != nact) rcount("e.box-reused.active-cells-removed-in-between");
    }
    s.boxUse[key] = nact;
}

// counters for one data keyword: re-entry of an array
static void countEntry(RefState& s, int sec, const std::string& name, bool isInt, const std::vector<DCell>& data) {
    bool dflt = false;
    for (const auto& d : data) dflt = dflt || d.st != 'v';
    auto it = s.entered.find(name);
    if (RSTAT && it != s.entered.end()) {
        const std::string base = std::string("c.reentry.") + (isInt ? "int" : "dbl") + (it->second.sec == sec ? ".same-section" : ".later-section");
        rcount(base);
        if (dflt) rcount(base + ".with-defaults");
        bool same = true;
        for (int q = 0; q < 6; ++q) same = same && it->second.box[q] == s.box[q];
        if (!same) rcount(base + ".other-box");
        if (!same && dflt) rcount(base + ".other-box-with-defaults");
    }
    EntryInfo e; e.sec = sec; for (int q = 0; q < 6; ++q) e.box[q] = s.box[q];
    s.entered[name] = e;
}

static void refKeywordBody(RefState& s, int sec, const KwOp& k);

static void refKeyword(RefState& s, int sec, const KwOp& k) {
    // does the keyword read the CURRENT box (so that a leaked record box of the keyword before would show)?
    if (s.recBoxPending) {
        const bool dep = k.type == KT::DATD || k.type == KT::DATI
            || ((k.type == KT::SCAL || k.type == KT::COPY || k.type == KT::OPER) && !k.recs.empty() && allDefaulted(k.recs[0].box));
        if (dep) rcount("b.kw-reads-box-after-boxed-records");
        s.recBoxPending = false;
    }
    if (k.type == KT::BOX) { if (s.inBoxKw >= 0) rcount("b.box-span.closed-by-BOX." + std::to_string(std::min(s.inBoxKw, 4))); s.inBoxKw = 0; }
    else if (k.type == KT::ENDBOX) { if (s.inBoxKw >= 0) rcount("b.box-span.closed-by-ENDBOX." + std::to_string(std::min(s.inBoxKw, 4))); s.inBoxKw = -1; }
    else if (s.inBoxKw >= 0) ++s.inBoxKw;
    if (RSTAT && !k.recs.empty()) {
        static const char* N[] = { "BOX", "ENDBOX", "DATD", "DATI", "SCAL", "COPY", "OPERATE", "SREG", "COPYREG", "OPERATER" };
        const std::string kn = (k.type == KT::SCAL || k.type == KT::SREG) ? k.name : N[(int) k.type];
        rcount("b.recs." + kn + "." + std::to_string(std::min<size_t>(k.recs.size(), 4)));
        rcount("b.recs.all." + std::to_string(std::min<size_t>(k.recs.size(), 4)));
    }
    refKeywordBody(s, sec, k);
}

static void refKeywordBody(RefState& s, int sec, const KwOp& k) {
    switch (k.type) {
    case KT::BOX: refUpdateBox(s, k.box); return;
    case KT::ENDBOX: s.globalBox(); return;
    case KT::DATD: {
        const auto& info = DBL.at(k.name);
        auto& a = refGetD(s, editName(sec, k.name));
        if ((int) k.data.size() != s.boxSize()) throw RefErr{};
        countEntry(s, sec, editName(sec, k.name), false, k.data);
        countBoxUse(s, s);
        forBox(s, [&](int g, int pos) {
            const auto& dc = k.data[pos];
            if (!hasV(dc.st)) return;
            if (dc.st == 'v' || a[g].st == 'u') { a[g].st = dc.st; a[g].v = si(info, dc.d); }
        });
        if (info.glob) {
            // global half of assign_deck: no has_value test on the deck status
            auto& ga = refGetG(s, editName(sec, k.name));
            forBox(s, [&](int g, int pos) {
                const auto& dc = k.data[pos];
                if (dc.st == 'v' || ga[g].st == 'u') { ga[g].st = dc.st; ga[g].v = si(info, dc.d); }
            });
        }
        if (RSTAT && sec == 0 && info.top) {
            bool dflt = false;
            for (const auto& d : k.data) dflt = dflt || d.st != 'v';
            rcount("a.top.kw-in-grid");
            if (!isGlobalBox(s)) rcount("a.top.kw-in-subbox");
            if (dflt) rcount("a.top.kw-with-defaults");
            if (!isGlobalBox(s) && dflt) rcount("a.top.kw-in-subbox-with-defaults");
        }
        if (sec == 0 && info.top && !refValid(s, a)) {
            // "distribute top layer": every still undefined cell takes the deck entry of the top cell of its
            // column if that top cell is in the box — active or not, whatever the entry's status
            const int layer = s.nx * s.ny;
            std::vector<int> posOf(layer, -1);
            forBox(s, [&](int g, int pos) { if (g < layer) posOf[g] = pos; });
            long filled = 0, underInactiveTop = 0, fromDefaulted = 0;
            for (int g = 0; g < s.n(); ++g) {
                const int li = g % layer;
                if (a[g].st == 'u' && posOf[li] >= 0) {
                    a[g].st = 'd'; a[g].v = si(info, k.data[posOf[li]].d);
                    if (s.act[g]) { ++filled; if (!s.act[li]) ++underInactiveTop; if (k.data[posOf[li]].st != 'v') ++fromDefaulted; }
                }
            }
            if (RSTAT) {
                rcount("a.top.fired");
                if (filled) rcount("a.top.fired.fills-active-cells"); else rcount(s.box[4] > 0 ? "a.top.fired.box-below-layer1" : "a.top.fired.nothing-to-fill");
                if (underInactiveTop) rcount("a.top.fired.fills-under-inactive-top-cell");
                if (fromDefaulted) rcount("a.top.fired.copies-defaulted-top-entry");
                if (filled && !refValid(s, a)) rcount("a.top.fired.still-not-valid");
            }
        }
        return;
    }
    case KT::DATI: {
        auto& a = refGetI(s, k.name);
        if ((int) k.data.size() != s.boxSize()) throw RefErr{};
        countEntry(s, sec, k.name, true, k.data);
        countBoxUse(s, s);
        s.noteIntWrite(k.name, "data");
        forBox(s, [&](int g, int pos) {
            const auto& dc = k.data[pos];
            if (!hasV(dc.st)) return;
            if (dc.st == 'v' || a[g].st == 'u') { a[g].st = dc.st; a[g].v = dc.i; }
        });
        return;
    }
    case KT::SCAL: {
        RefState t = s;     // the keyword works on its own copy of the box
        for (size_t j = 0; j < k.recs.size(); ++j) {
            const auto& r = k.recs[j];
            countRecBox(k.name, s, t, r.box, j);
            refUpdateBox(t, r.box);
            countBoxUse(s, t);
            bool bad = false;
            if (RSTAT && (k.name == "MINVALUE" || k.name == "MAXVALUE") && s.regionTouched.count(r.a)) rcount("d.minmax-after-region-operation");
            if (DBL.count(r.a)) {
                const auto& info = DBL.at(r.a);
                if (k.name != "EQUALS" && !info.mult && !t.d.count(r.a)) throw RefErr{};
                const double x = (k.name == "MULTIPLY") ? r.val : si(info, r.val);
                auto& a = refGetD(t, editName(sec, r.a));
                forBox(t, [&](int g, int) { if (!scalarCell(k.name, a[g], x) && t.act[g]) bad = true; });
                if (info.glob) {
                    auto& ga = refGetG(t, editName(sec, r.a));
                    forBox(t, [&](int g, int) { if (!scalarCell(k.name, ga[g], x)) bad = true; });   // every cell counts
                }
            } else if (INTS.count(r.a)) {
                if (k.name != "EQUALS" && !t.i.count(r.a)) throw RefErr{};
                const int x = static_cast<int>(r.val);
                auto& a = refGetI(t, r.a);
                forBox(t, [&](int g, int) { if (!scalarCell(k.name, a[g], x) && t.act[g]) bad = true; });
            } else throw RefErr{};
            if (bad) throw RefErr{};
        }
        s.d = t.d; s.i = t.i; s.gd = t.gd;
        for (const auto& r : k.recs) if (INTS.count(r.a)) s.noteIntWrite(r.a, k.name);
        s.recBoxPending = !sameBox(s, t);
        return;
    }
    case KT::COPY: {
        RefState t = s;
        for (size_t j = 0; j < k.recs.size(); ++j) {
            const auto& r = k.recs[j];
            countRecBox("COPY", s, t, r.box, j);
            refUpdateBox(t, r.box);
            countBoxUse(s, t);
            bool bad = false;
            if (DBL.count(r.b)) {
                if (!t.d.count(r.b) || !refValid(t, t.d.at(r.b))) throw RefErr{};
                if (!DBL.count(r.a)) throw RefErr{};
                const auto src = t.d.at(r.b);
                auto& a = refGetD(t, r.a);
                forBox(t, [&](int g, int) { if (src[g].st == 'v') a[g] = src[g]; else if (t.act[g]) bad = true; });
                if (isGlob(r.a)) {
                    if (!isGlob(r.b)) throw RefErr{};
                    const auto gsrc = refGetG(t, r.b);
                    auto& ga = refGetG(t, r.a);
                    forBox(t, [&](int g, int) { if (gsrc[g].st == 'v') ga[g] = gsrc[g]; else bad = true; });
                }
            } else if (INTS.count(r.b)) {
                if (!t.i.count(r.b) || !refValid(t, t.i.at(r.b))) throw RefErr{};
                if (!INTS.count(r.a)) throw RefErr{};
                const auto src = t.i.at(r.b);
                auto& a = refGetI(t, r.a);
                forBox(t, [&](int g, int) { if (src[g].st == 'v') a[g] = src[g]; else if (t.act[g]) bad = true; });
            }
            if (bad) throw RefErr{};
        }
        s.d = t.d; s.i = t.i; s.gd = t.gd;
        for (const auto& r : k.recs) if (INTS.count(r.a) && INTS.count(r.b)) s.noteIntWrite(r.a, "COPY");
        s.recBoxPending = !sameBox(s, t);
        return;
    }
    case KT::OPER: {
        RefState t = s;
        for (size_t j = 0; j < k.recs.size(); ++j) {
            const auto& r = k.recs[j];
            countRecBox("OPERATE", s, t, r.box, j);
            refUpdateBox(t, r.box);
            countBoxUse(s, t);
            if (!DBL.count(r.a) || !DBL.count(r.b)) throw RefErr{};
            const auto& info = DBL.at(r.a);
            refGetD(t, r.a);
            const auto src = refGetD(t, r.b);
            auto& a = refGetD(t, r.a);
            const bool check = r.fn == "MULTIPLY" || r.fn == "POLY";
            const double al = (r.fn == "ADDX" || r.fn == "MAXLIM" || r.fn == "MINLIM") ? si(info, r.val) : r.val;
            const double be = (r.fn == "MULTA") ? si(info, r.val2) : r.val2;
            double probe;
            if (!refOperate(r.fn, al, be, 1, 1, probe)) throw RefErr{};
            bool bad = false;
            forBox(t, [&](int g, int) {
                if (hasV(src[g].st) && (!check || hasV(a[g].st))) {
                    double out; refOperate(r.fn, al, be, a[g].v, src[g].v, out);
                    a[g].v = out; a[g].st = src[g].st;
                } else if (t.act[g]) bad = true;
            });
            if (isGlob(r.a)) {
                if (!isGlob(r.b)) throw RefErr{};
                const auto gsrc = refGetG(t, r.b);
                auto& ga = refGetG(t, r.a);
                forBox(t, [&](int g, int) {
                    if (hasV(gsrc[g].st) && (!check || hasV(ga[g].st))) {
                        double out; refOperate(r.fn, al, be, ga[g].v, gsrc[g].v, out);
                        ga[g].v = out; ga[g].st = gsrc[g].st;
                    } else bad = true;
                });
            }
            if (bad) throw RefErr{};
        }
        s.d = t.d; s.i = t.i; s.gd = t.gd;
        s.recBoxPending = !sameBox(s, t);
        return;
    }
    case KT::SREG: {
        for (const auto& r : k.recs) {
            if (!DBL.count(r.a)) continue;          // integer / unknown targets: silently skipped by the code
            const auto& info = DBL.at(r.a);
            refGetD(s, r.a);
            const auto rn = refRegionName(r.rs);
            if (!rn) throw RefErr{};
            const auto reg = refRegion(s, *rn);
            if (countRegionRec(s, sec, k.name, *rn, reg, r.rv)) continue;
            s.regionTouched.insert(r.a);
            const double x = (k.name == "MULTIREG") ? r.val : si(info, r.val);
            auto& a = refGetD(s, r.a);
            bool bad = false;
            for (int g = 0; g < s.n(); ++g)
                if (reg[g].v == r.rv && !scalarCell(k.name, a[g], x) && s.act[g]) bad = true;
            if (bad) throw RefErr{};
            if (info.glob) {     // update_global_from_local: the touched ACTIVE cells, value and status
                auto& ga = refGetG(s, r.a);
                for (int g = 0; g < s.n(); ++g) if (s.act[g] && reg[g].v == r.rv) ga[g] = a[g];
            }
        }
        return;
    }
    case KT::CREG: {
        for (const auto& r : k.recs) {
            const auto rn = refRegionName(r.rs);
            if (!rn) throw RefErr{};
            const auto reg = refRegion(s, *rn);
            countRegionRec(s, sec, "COPYREG", *rn, reg, r.rv);
            s.regionTouched.insert(r.a);
            bool bad = false;
            if (DBL.count(r.b)) {
                if (!s.d.count(r.b) || !refValid(s, s.d.at(r.b))) throw RefErr{};
                if (!DBL.count(r.a)) throw RefErr{};
                const auto src = s.d.at(r.b);
                auto& a = refGetD(s, r.a);
                for (int g = 0; g < s.n(); ++g) if (reg[g].v == r.rv) { if (src[g].st == 'v') a[g] = src[g]; else if (s.act[g]) bad = true; }
            } else if (INTS.count(r.b)) {
                if (!s.i.count(r.b) || !refValid(s, s.i.at(r.b))) throw RefErr{};
                if (!INTS.count(r.a)) throw RefErr{};
                const auto src = s.i.at(r.b);
                auto& a = refGetI(s, r.a);
                for (int g = 0; g < s.n(); ++g) if (reg[g].v == r.rv) { if (src[g].st == 'v') a[g] = src[g]; else if (s.act[g]) bad = true; }
                s.noteIntWrite(r.a, "COPYREG");
            }
            if (bad) throw RefErr{};
        }
        return;
    }
    case KT::OPRR: {
        for (const auto& r : k.recs) {
            if (!DBL.count(r.a)) continue;
            const auto& info = DBL.at(r.a);
            refGetD(s, r.a);
            // code as fixed by bf5bceae1: the source array is fetched (created) BEFORE the region is looked at;
            // an unsupported source name is rejected whether or not the region has an active cell
            const bool srcMissing = DBL.count(r.b) && !s.d.count(r.b);
            if (!DBL.count(r.b)) throw RefErr{};
            const auto src = refGetD(s, r.b);
            const auto reg = refRegion(s, r.rs);
            const bool emptyReg = countRegionRec(s, sec, "OPERATER", r.rs, reg, r.rv);
            if (RSTAT && srcMissing) {
                bool anyGlobal = false;
                for (int g = 0; g < s.n(); ++g) anyGlobal = anyGlobal || reg[g].v == r.rv;
                rcount(!emptyReg ? "d.operater.source-missing.region-nonempty"
                       : anyGlobal ? "d.operater.source-missing.region-empty-among-active-only"
                                   : "d.operater.source-missing.region-empty-everywhere");
            }
            if (emptyReg) continue;
            s.regionTouched.insert(r.a);
            auto& a = refGetD(s, r.a);
            const bool check = r.fn == "MULTIPLY" || r.fn == "POLY";
            const double al = (r.fn == "ADDX" || r.fn == "MAXLIM" || r.fn == "MINLIM") ? si(info, r.val) : r.val;
            const double be = (r.fn == "MULTA") ? si(info, r.val2) : r.val2;
            double probe;
            if (!refOperate(r.fn, al, be, 1, 1, probe)) throw RefErr{};
            bool bad = false;
            for (int g = 0; g < s.n(); ++g) {
                if (reg[g].v != r.rv) continue;
                if (hasV(src[g].st) && (!check || hasV(a[g].st))) {
                    double out; refOperate(r.fn, al, be, a[g].v, src[g].v, out);
                    a[g].v = out; a[g].st = src[g].st;
                } else if (s.act[g]) bad = true;
            }
            if (bad) throw RefErr{};
            if (info.glob) {
                auto& ga = refGetG(s, r.a);
                for (int g = 0; g < s.n(); ++g) if (s.act[g] && reg[g].v == r.rv) ga[g] = a[g];
            }
        }
        return;
    }
    }
}

// end of the EDIT section: data[i] *= multiplier[i] (status untouched), scratch arrays dropped
static void refApplyMultipliers(RefState& s) {
    for (const auto& k : DBL_ORDER) {
        auto it = s.d.find(MULT_PREFIX + k);
        if (it == s.d.end()) continue;
        const auto m = it->second;
        auto& a = refGetD(s, k);
        for (int g = 0; g < s.n(); ++g) a[g].v *= m[g].v;
        s.d.erase(MULT_PREFIX + k);
        if (DBL.at(k).glob) {
            const auto gm = refGetG(s, MULT_PREFIX + k);
            auto& ga = refGetG(s, k);
            for (int g = 0; g < s.n(); ++g) ga[g].v *= gm[g].v;
            s.gd.erase(MULT_PREFIX + k);
        }
    }
}

// cells with ACTNUM 0 or zero pore volume are deactivated after GRID and EDIT
static void refResetActnum(RefState& s) {
    if (!s.d.count("PORO")) return;
    const auto& poro = s.d.at("PORO");
    const auto& actnum = refGetI(s, "ACTNUM");
    for (int g = 0; g < s.n(); ++g) {
        double pv = hasV(poro[g].st) ? poro[g].v : 0.0;
        if (s.d.count("NTG")) pv *= s.d.at("NTG")[g].v;
        if (s.d.count("MULTPV")) pv *= s.d.at("MULTPV")[g].v;
        if (actnum[g].v == 0 || pv == 0) { if (s.act[g]) rcount("e.reset-actnum.cell-deactivated-by-zero-pore-volume"); s.act[g] = 0; }
    }
}

// The ACTNUM the grid gets: a scratch run with ALL cells active over the GRID section looking only at the
// ACTNUM data keyword, EQUALS and BOX/ENDBOX; active iff the resulting value is > 0.
static std::vector<int> refPrepass(const Case& c) {
    RefState s;
    s.nx = c.nx; s.ny = c.ny; s.nz = c.nz;
    s.act.assign(c.nx * c.ny * c.nz, 1);
    s.globalBox();
    for (const auto& k : c.sec[0]) {
        const bool take = k.type == KT::BOX || k.type == KT::ENDBOX || (k.type == KT::DATI && k.name == "ACTNUM")
            || (k.type == KT::SCAL && k.name == "EQUALS");
        if (take) refKeyword(s, 0, k);      // may throw RefErr: the deck is rejected
    }
    std::vector<int> act(s.n(), 1);
    auto it = s.i.find("ACTNUM");
    if (it != s.i.end()) for (int g = 0; g < s.n(); ++g) act[g] = it->second[g].v > 0;
    return act;
}

static RefState refInit(const Case& c) {
    RefState s;
    s.nx = c.nx; s.ny = c.ny; s.nz = c.nz;
    const auto act = refPrepass(c);
    s.act.assign(act.begin(), act.end());
    s.globalBox();
    return s;
}

// processing order of the FieldProps constructor: GRID, EDIT, (ACTNUM), REGIONS, PROPS, SOLUTION
static const int PROC_ORDER[5] = { 0, 1, 3, 2, 4 };

static Outcome refObserve(RefState& s) {
    Outcome r;
    r.ok = true;
    for (char a : s.act) r.act.push_back(a ? 1 : 0);
    for (const auto& k : DBL_ORDER) {
        const auto a = refGetD(s, k);
        Obs<double> o;
        o.valid = refValid(s, a);
        const double fill = DBL.at(k).init.value_or(0.0);
        const bool glob = DBL.at(k).glob;
        const GArr<double> ga = glob ? refGetG(s, k) : GArr<double>{};
        for (int g = 0; g < s.n(); ++g) {
            if (s.act[g]) o.cells.push_back({ a[g].st, a[g].v });
            o.glob.push_back(glob ? ga[g].v : (s.act[g] ? a[g].v : fill));
        }
        r.d[k] = o;
    }
    for (const auto& k : INT_ORDER) {
        const auto a = refGetI(s, k);
        Obs<int> o;
        o.valid = refValid(s, a);
        const int fill = INTS.at(k).value_or(0);
        for (int g = 0; g < s.n(); ++g) {
            if (s.act[g]) o.cells.push_back({ a[g].st, a[g].v });
            o.glob.push_back(s.act[g] ? a[g].v : fill);
        }
        r.i[k] = o;
    }
    return r;
}

static Outcome runRef(const Case& c) {
    try {
        RefState s = refInit(c);
        for (int p = 0; p < 5; ++p) {
            const int sec = PROC_ORDER[p];
            if (p == 2) refResetActnum(s);
            s.globalBox();
            s.recBoxPending = false; s.inBoxKw = -1;
            for (const auto& k : c.sec[sec]) refKeyword(s, sec, k);
            if (RSTAT && !isGlobalBox(s)) {
                rcount("b.box-open-at-section-end");
                bool later = false;
                for (int q = p + 1; q < 5; ++q) later = later || !c.sec[PROC_ORDER[q]].empty();
                if (later) rcount("b.box-open-at-section-end.later-section-has-keywords");
            }
            if (sec == 1) refApplyMultipliers(s);
        }
        return refObserve(s);
    } catch (const RefErr&) {
        return Outcome{};
    }
}

// ---------------------------------------------------------------------------------------------
// generator

struct Gen {
    vh::Rng& rng;
    std::map<std::string, long>& stats;
    Gen(vh::Rng& r, std::map<std::string, long>& st) : rng(r), stats(st) {}

    // per case: region keys (region array, id) named by region-keyed operations so far and boxes used so far; later
    // keywords (also of later sections) reuse them so that a memo keyed by them would be read back
    std::vector<std::pair<std::string, int>> usedKeys;
    std::vector<BoxItems> usedBoxes;

    double niceD(bool allowNeg = false) {
        double v = rng.range(0, 64) / 8.0;
        if (rng.coin(1, 10)) v = rng.range(0, 4000) / 4.0;
        if (allowNeg && rng.coin(1, 6)) v = -v;
        return v;
    }

    // force: -1 random, 0 all six items defaulted, 1 some (not all) items defaulted, 2 all six items given
    BoxItems randBox(const Case& c, bool allowBad, int force = -1) {
        BoxItems b;
        const int dims[3] = { c.nx, c.ny, c.nz };
        int mode = rng.range(0, 9);
        if (force == -1 && !usedBoxes.empty() && rng.coin(1, 8)) { stats["gen.attempt.box-bounds-reused"]++; return rng.pick(usedBoxes); }
        if (force == 0) return b;
        if (force == 1) mode = rng.range(1, 4);
        if (force == 2) mode = 9;
        if (mode == 0) return b;                              // all defaulted
        for (int a = 0; a < 3; ++a) {
            if (mode <= 2 && rng.coin()) continue;            // some axes defaulted
            int lo = rng.range(1, dims[a]), hi = rng.range(1, dims[a]);
            if (lo > hi) std::swap(lo, hi);
            if (rng.coin(1, 4)) { lo = 1; hi = dims[a]; }
            if (mode == 3 && rng.coin(1, 3)) { b.v[2 * a + 1] = hi; continue; }   // only upper given
            if (mode == 4 && rng.coin(1, 3)) { b.v[2 * a] = lo; continue; }       // only lower given
            b.v[2 * a] = lo; b.v[2 * a + 1] = hi;
        }
        if (force == 1) {
            if (!someDefaulted(b)) { const int a = rng.range(0, 2); b.v[2 * a + rng.range(0, 1)].reset(); if (rng.coin()) b.v[2 * a].reset(), b.v[2 * a + 1].reset(); }
            if (allDefaulted(b)) { const int a = rng.range(0, 2); b.v[2 * a + 1] = rng.range(1, dims[a]); }
        }
        if (allowBad && rng.coin(1, 40)) {
            const int a = rng.range(0, 2);
            switch (rng.range(0, 3)) {
            case 0: b.v[2 * a] = 0; break;
            case 1: b.v[2 * a + 1] = dims[a] + 1; break;
            case 2: b.v[2 * a] = dims[a]; b.v[2 * a + 1] = 1; if (dims[a] == 1) b.v[2 * a] = 2; break;
            default: b.v[2 * a] = -1; break;
            }
        } else if (!allDefaulted(b) && usedBoxes.size() < 12) usedBoxes.push_back(b);
        return b;
    }

    std::string pickD(int sec, bool any) {
        if (!any && !DATA_D[sec].empty() && rng.coin(4, 5)) return rng.pick(DATA_D[sec]);
        std::string k = rng.pick(DBL_ORDER);
        return k;
    }
    std::string pickI(int sec, bool any) {
        if (!any && !DATA_I[sec].empty() && rng.coin(4, 5)) return rng.pick(DATA_I[sec]);
        std::string k = rng.pick(INT_ORDER);
        if (k == "ACTNUM") k = "SATNUM";
        return k;
    }

    // one random keyword for section `sec` given the reference state (for the box size)
    KwOp randKw(const Case& c, int sec, const RefState& s) {
        KwOp k;
        const int w = rng.range(0, 99);
        const bool hasDataD = !DATA_D[sec].empty(), hasDataI = !DATA_I[sec].empty();
        if (w < 28 && (hasDataD || hasDataI)) {
            const bool isInt = hasDataI && (!hasDataD || rng.coin(2, 5));
            k.type = isInt ? KT::DATI : KT::DATD;
            k.name = isInt ? rng.pick(DATA_I[sec]) : rng.pick(DATA_D[sec]);
            bool again = false;
            if (!isInt && rng.coin(1, 3)) {
                // a second assignment of an array that already has values: defaults must not overwrite
                std::vector<std::string> ex;
                for (const auto& n : DATA_D[sec]) if (s.d.count(editName(sec, n))) ex.push_back(n);
                if (!ex.empty()) { k.name = rng.pick(ex); again = true; }
            }
            int n = s.boxSize();
            if (rng.coin(1, 60)) n += rng.coin() ? 1 : -1;
            if (n < 0) n = 0;
            const int style = again ? rng.range(2, 3) : rng.range(0, 5);     // 0: constant array, 2/3: with defaulted entries
            const double baseD = niceD();
            const int baseI = rng.range(1, 3);
            for (int j = 0; j < n; ++j) {
                DCell d;
                d.d = (style == 0) ? baseD : niceD(k.name == "DISPERC");
                d.i = (style == 0) ? baseI : rng.range(style == 1 ? 0 : 1, 4);
                if ((style == 2 || style == 3) && rng.coin(1, 5)) {
                    // defaulted entry: a valid default when the keyword's data item has a default value
                    if (!isInt && (k.name == "PORO" || k.name == "PERMY" || k.name == "PERMZ")) { d.st = 'd'; d.d = 0.0; }
                    else if (!isInt && k.name.rfind("MULT", 0) == 0 && k.name != "MULTPV") { d.st = 'd'; d.d = 1.0; }
                    else { d.st = 'e'; d.d = 0.0; d.i = 0; }   // an empty default carries the value-initialised 0
                }
                k.data.push_back(d);
            }
            return k;
        }
        if (w < 36) { k.type = KT::BOX; k.box = randBox(c, true); return k; }
        if (w < 41) { k.type = KT::ENDBOX; return k; }
        const int nrec = rng.coin(1, 2) ? 1 : rng.range(2, 4);
        // record boxes inside one keyword: after a boxed record, often a record with all six items defaulted (it
        // reuses the box of the PREVIOUS RECORD) or a partially defaulted one (defaulted items = full extent)
        bool prevBoxed = false;
        auto recBox = [&](int j) {
            BoxItems b;
            if (j > 0 && prevBoxed && rng.coin(1, 3)) b = randBox(c, false, 0);
            else if (j > 0 && rng.coin(1, 4)) b = randBox(c, false, 1);
            else b = randBox(c, true);
            if (!allDefaulted(b)) prevBoxed = true;
            return b;
        };
        if (w < 66) {
            k.type = KT::SCAL;
            std::vector<std::string> ops = { "EQUALS", "EQUALS", "ADD", "MULTIPLY" };
            if (sec <= 2) { ops.push_back("MINVALUE"); ops.push_back("MAXVALUE"); }
            k.name = rng.pick(ops);
            for (int j = 0; j < nrec; ++j) {
                Rec r;
                bool isInt = rng.coin(1, 3);
                r.a = isInt ? pickI(sec, rng.coin(1, 4)) : pickD(sec, rng.coin(1, 4));
                if (k.name != "EQUALS" && rng.coin(2, 3)) {
                    // operate on something that exists (otherwise "must already exist" rejects almost always)
                    std::vector<std::string> ex;
                    if (isInt) { for (const auto& kv : s.i) if (kv.first != "ACTNUM") ex.push_back(kv.first); }
                    else { for (const auto& kv : s.d) if (kv.first.rfind(MULT_PREFIX, 0) != 0) ex.push_back(kv.first); }
                    if (!ex.empty()) r.a = rng.pick(ex);
                }
                if (!isInt && rng.coin(1, 5)) r.a = rng.pick(std::vector<std::string>{ "PERMX", "PERMY", "PERMZ", "PRESSURE" });
                // several records on the same array (other boxes) are the common use of a multi-record keyword
                if (j > 0 && rng.coin()) { r.a = k.recs[j - 1].a; isInt = INTS.count(r.a) > 0; }
                if (rng.coin(1, 80)) r.a = "FOOBAR";
                r.val = isInt ? (double) rng.range(0, 4) + (rng.coin(1, 6) ? 0.5 : 0.0) : niceD(true);
                if (isInt && rng.coin(1, 10)) r.val = -r.val;
                r.box = recBox(j);
                k.recs.push_back(r);
            }
            return k;
        }
        if (w < 74) {
            k.type = KT::COPY;
            for (int j = 0; j < nrec; ++j) {
                Rec r;
                const bool isInt = rng.coin(1, 3);
                r.b = isInt ? pickI(sec, true) : pickD(sec, true);
                r.a = isInt ? pickI(sec, rng.coin()) : pickD(sec, rng.coin());
                if (rng.coin(1, 50)) r.a = isInt ? pickD(sec, true) : pickI(sec, true);     // type clash
                if (j > 0 && rng.coin(2, 3)) { r.b = k.recs[j - 1].b; r.a = k.recs[j - 1].a; }
                r.box = recBox(j);
                k.recs.push_back(r);
            }
            return k;
        }
        static const std::vector<std::string> FNS = { "MULTA", "POLY", "SLOG", "LOG10", "LOGE", "INV", "MULTX", "ADDX",
                                                       "COPY", "MAXLIM", "MINLIM", "MULTP", "ABS", "MULTIPLY" };
        if (w < 82) {
            k.type = KT::OPER;
            for (int j = 0; j < nrec; ++j) {
                Rec r;
                r.a = pickD(sec, rng.coin(1, 3));
                r.b = pickD(sec, true);
                r.fn = rng.pick(FNS);
                if (rng.coin(1, 60)) r.fn = "NOSUCH";
                r.val = niceD(true); r.val2 = rng.range(0, 6) / 2.0;
                r.box = recBox(j);
                unitBias(r, s);
                k.recs.push_back(r);
            }
            return k;
        }
        static const std::vector<std::string> RS = { "*", "F", "M", "O", "F", "M", "O" };
        if (w < 91) {
            k.type = KT::SREG;
            k.name = rng.pick(std::vector<std::string>{ "EQUALREG", "ADDREG", "MULTIREG" });
            for (int j = 0; j < nrec; ++j) {
                Rec r;
                r.a = rng.coin(1, 8) ? pickI(sec, true) : pickD(sec, rng.coin(1, 3));
                r.val = niceD(true);
                r.rv = rng.range(0, 4);
                r.rs = rng.pick(RS);
                if (rng.coin(1, 60)) r.rs = "X";
                k.recs.push_back(r);
            }
            return k;
        }
        if (w < 96) {
            k.type = KT::CREG;
            for (int j = 0; j < nrec; ++j) {
                Rec r;
                const bool isInt = rng.coin(1, 3);
                r.b = isInt ? pickI(sec, true) : pickD(sec, true);
                r.a = isInt ? pickI(sec, rng.coin()) : pickD(sec, rng.coin());
                r.rv = rng.range(0, 4);
                r.rs = rng.pick(RS);
                k.recs.push_back(r);
            }
            return k;
        }
        k.type = KT::OPRR;
        for (int j = 0; j < nrec; ++j) {
            Rec r;
            r.a = pickD(sec, rng.coin(1, 3));
            r.b = pickD(sec, true);
            r.fn = rng.pick(FNS);
            r.val = niceD(true); r.val2 = rng.range(0, 6) / 2.0;
            r.rv = rng.range(0, 4);
            r.rs = rng.pick(std::vector<std::string>{ "OPERNUM", "FLUXNUM", "MULTNUM", "SATNUM", "FIPNUM" });
            unitBias(r, s);
            k.recs.push_back(r);
        }
        return k;
    }

    // ---- keyword groups: several keywords generated together against an evolving reference state ----

    static DCell defaultCell(const std::string& name, bool isInt) {
        DCell d;
        // a defaulted entry is a valid default when the keyword's data item has a default value
        if (!isInt && (name == "PORO" || name == "PERMY" || name == "PERMZ")) { d.st = 'd'; d.d = 0.0; }
        else if (!isInt && name.rfind("MULT", 0) == 0 && name != "MULTPV") { d.st = 'd'; d.d = 1.0; }
        else { d.st = 'e'; d.d = 0.0; d.i = 0; }   // an empty default carries the value-initialised 0
        return d;
    }
    std::vector<DCell> randData(const std::string& name, bool isInt, int n, int dnum, int dden) {
        std::vector<DCell> v;
        for (int j = 0; j < n; ++j) {
            DCell d;
            d.d = niceD(name == "DISPERC"); d.i = rng.range(1, 4);
            if (dnum > 0 && rng.coin(dnum, dden)) d = defaultCell(name, isInt);
            v.push_back(d);
        }
        return v;
    }
    static BoxItems fullBox(const Case& c) {
        BoxItems b; b.v[0] = 1; b.v[1] = c.nx; b.v[2] = 1; b.v[3] = c.ny; b.v[4] = 1; b.v[5] = c.nz; return b;
    }
    // append k to the group and apply it to t; false when the reference interpreter rejects it
    static bool pushKw(std::vector<KwOp>& g, RefState& t, int sec, const KwOp& k) {
        g.push_back(k);
        try { refKeyword(t, sec, k); return true; } catch (const RefErr&) { return false; }
    }

    // (a) the "distribute top layer" keywords of the GRID section entered in sub-boxes with defaulted entries
    std::vector<KwOp> topGroup(const Case& c, const RefState& s) {
        std::vector<KwOp> g;
        RefState t = s;
        stats["gen.attempt.group.top-layer"]++;
        static const std::vector<std::string> TOPS = { "PORO", "PERMX", "PERMY", "PERMZ" };
        const std::string name = rng.pick(TOPS);
        const int rounds = rng.coin(1, 3) ? 2 : 1;
        const int dims[3] = { c.nx, c.ny, c.nz };
        for (int q = 0; q < rounds; ++q) {
            if (q > 0 || rng.coin(3, 4)) {
                KwOp b; b.type = KT::BOX;
                for (int a = 0; a < 2; ++a) {
                    int lo = rng.range(1, dims[a]), hi = rng.range(1, dims[a]);
                    if (lo > hi) std::swap(lo, hi);
                    if (rng.coin(1, 3)) { lo = 1; hi = dims[a]; }
                    b.box.v[2 * a] = lo; b.box.v[2 * a + 1] = hi;
                }
                // the first box mostly starts in layer 1, a second one mostly lies below
                int k1 = 1, k2 = rng.coin(2, 3) ? 1 : rng.range(1, c.nz);
                if (c.nz > 1 && (q == 0 ? rng.coin(1, 4) : rng.coin(3, 4))) { k1 = rng.range(2, c.nz); k2 = rng.range(k1, c.nz); }
                b.box.v[4] = k1; b.box.v[5] = k2;
                if (rng.coin(1, 5)) { b.box.v[0].reset(); b.box.v[1].reset(); }     // defaulted items = full extent
                if (!pushKw(g, t, 0, b)) return g;
            }
            KwOp k; k.type = KT::DATD;
            k.name = (q == 0 || rng.coin(2, 3)) ? name : rng.pick(TOPS);
            switch (rng.range(0, 3)) {
            case 0: k.data = randData(k.name, false, t.boxSize(), 0, 1); break;
            case 1: k.data = randData(k.name, false, t.boxSize(), 1, 4); break;
            case 2: k.data = randData(k.name, false, t.boxSize(), 1, 2); break;
            default: k.data = randData(k.name, false, t.boxSize(), 1, 1); break;     // n* : every entry defaulted
            }
            if (!pushKw(g, t, 0, k)) return g;
            if (rng.coin(1, 2)) { KwOp e; e.type = KT::ENDBOX; pushKw(g, t, 0, e); }
        }
        return g;
    }

    // (b) BOX ... several keywords ... [ENDBOX]
    std::vector<KwOp> boxSpanGroup(const Case& c, int sec, const RefState& s) {
        std::vector<KwOp> g;
        RefState t = s;
        stats["gen.attempt.group.box-span"]++;
        KwOp b; b.type = KT::BOX; b.box = randBox(c, false, rng.coin(1, 4) ? 1 : 2);
        if (!pushKw(g, t, sec, b)) return g;
        const int inner = rng.range(2, 4);
        for (int q = 0; q < inner; ++q) {
            for (int attempt = 0; attempt < 6; ++attempt) {
                KwOp k = randKw(c, sec, t);
                if (k.type == KT::BOX || k.type == KT::ENDBOX) continue;
                RefState u = t;
                try { refKeyword(u, sec, k); } catch (const RefErr&) { continue; }
                g.push_back(k); t = u;
                break;
            }
        }
        if (rng.coin(2, 3)) { KwOp e; e.type = KT::ENDBOX; pushKw(g, t, sec, e); }
        else stats["gen.attempt.group.box-span.left-open"]++;
        return g;
    }

    // (c) the same array entered again (same or later section) with defaulted entries, often in another box
    std::vector<KwOp> reentryGroup(const Case& c, int sec, const RefState& s) {
        std::vector<KwOp> g;
        RefState t = s;
        std::vector<std::pair<std::string, bool>> ex;
        for (const auto& n : DATA_D[sec]) if (t.d.count(editName(sec, n)) || (sec == 1 && t.d.count(n))) ex.push_back({ n, false });
        for (const auto& n : DATA_I[sec]) if (n != "ACTNUM" && t.i.count(n)) ex.push_back({ n, true });
        if (ex.empty()) return g;
        stats["gen.attempt.group.re-entry"]++;
        const auto pick = rng.pick(ex);
        const bool boxed = rng.coin(3, 5);
        if (boxed) { KwOp b; b.type = KT::BOX; b.box = randBox(c, false, rng.coin(1, 4) ? 1 : 2); if (!pushKw(g, t, sec, b)) return g; }
        KwOp k; k.type = pick.second ? KT::DATI : KT::DATD; k.name = pick.first;
        const int m = rng.range(0, 3);
        k.data = randData(k.name, pick.second, t.boxSize(), m == 0 ? 1 : m == 1 ? 1 : m == 2 ? 2 : 1, m == 0 ? 5 : m == 1 ? 2 : m == 2 ? 3 : 1);
        if (!pushKw(g, t, sec, k)) return g;
        if (boxed && rng.coin()) { KwOp e; e.type = KT::ENDBOX; pushKw(g, t, sec, e); }
        return g;
    }

    // (d) region-keyed operations on region arrays with several values, regions without active cell, sources
    // that do not exist yet, MINVALUE/MAXVALUE afterwards
    std::vector<KwOp> regionGroup(const Case& c, int sec, const RefState& s) {
        std::vector<KwOp> g;
        RefState t = s;
        stats["gen.attempt.group.region"]++;
        static const std::vector<std::string> FNS = { "MULTA", "POLY", "SLOG", "LOG10", "LOGE", "INV", "MULTX", "ADDX",
                                                       "COPY", "MAXLIM", "MINLIM", "MULTP", "ABS", "MULTIPLY" };
        const std::string letter = rng.pick(std::vector<std::string>{ "*", "F", "M", "O" });
        const std::string reg = *refRegionName(letter);
        auto activeVals = [&]() { std::set<int> v; if (t.i.count(reg)) for (int q = 0; q < t.n(); ++q) if (t.act[q] && hasV(t.i.at(reg)[q].st)) v.insert(t.i.at(reg)[q].v); return v; };
        // (1) give the region array several values
        const bool have = t.i.count(reg) && refValid(t, t.i.at(reg));
        const bool several = have && activeVals().size() >= 2;
        if (several ? rng.coin(1, 8) : rng.coin(9, 10)) {
            const bool dataOk = std::count(DATA_I[sec].begin(), DATA_I[sec].end(), reg) > 0;
            if (dataOk && rng.coin(2, 3)) {
                if (!isGlobalBox(t)) { KwOp e; e.type = KT::ENDBOX; if (!pushKw(g, t, sec, e)) return g; }
                KwOp k; k.type = KT::DATI; k.name = reg;
                const int style = rng.range(0, 8);      // 0-3 values 1..3; 4-7 inactive cells carry a value of their own; 8 partly defined
                for (int q = 0; q < t.n(); ++q) {
                    DCell d; d.i = rng.range(1, 3);
                    if (style >= 4 && style <= 7 && !t.act[q] && rng.coin(3, 4)) d.i = 4;
                    if (style == 8 && rng.coin(1, 4)) d = defaultCell(reg, true);
                    k.data.push_back(d);
                }
                if (style >= 4 && style <= 7) stats["gen.attempt.region-array-with-inactive-only-value"]++;
                if (!pushKw(g, t, sec, k)) return g;
            } else {
                KwOp k; k.type = KT::SCAL; k.name = "EQUALS";
                if (!rng.coin(1, 10)) { Rec r; r.a = reg; r.val = 1; r.box = fullBox(c); if (rng.coin(1, 3)) { r.box.v[2].reset(); r.box.v[3].reset(); } k.recs.push_back(r); }
                const int extra = rng.range(1, 3);
                for (int j = 0; j < extra; ++j) { Rec r; r.a = reg; r.val = rng.range(2, 4); r.box = randBox(c, false, rng.coin(1, 4) ? 1 : 2); k.recs.push_back(r); }
                if (!pushKw(g, t, sec, k)) return g;
            }
        }
        // (2) the region-keyed keyword
        const std::set<int> av = activeVals();
        std::set<int> iv;       // values carried by inactive cells only
        if (t.i.count(reg)) for (int q = 0; q < t.n(); ++q) if (!t.act[q] && hasV(t.i.at(reg)[q].st) && !av.count(t.i.at(reg)[q].v)) iv.insert(t.i.at(reg)[q].v);
        std::vector<int> usedHere;
        for (const auto& uk : usedKeys) if (uk.first == reg) usedHere.push_back(uk.second);
        auto pickRv = [&]() {
            if (!usedHere.empty() && rng.coin(1, 4)) return rng.pick(usedHere);
            if (!iv.empty() && rng.coin(1, 4)) return rng.pick(std::vector<int>(iv.begin(), iv.end()));
            if (!av.empty() && rng.coin(5, 6)) return rng.pick(std::vector<int>(av.begin(), av.end()));
            return rng.range(0, 5);
        };
        std::vector<std::string> exD, fullV, missing;
        for (const auto& kv : t.d) {
            if (kv.first.rfind(MULT_PREFIX, 0) == 0) continue;
            exD.push_back(kv.first);
            bool allV = true;
            for (int q = 0; q < t.n(); ++q) if (t.act[q] && kv.second[q].st != 'v') allV = false;
            if (allV) fullV.push_back(kv.first);
        }
        for (const auto& n : DBL_ORDER) if (!t.d.count(n)) missing.push_back(n);
        static const std::vector<std::string> GLOBS = { "PERMX", "PERMY", "PERMZ", "MULTZ" };
        const int nrec = rng.coin(1, 2) ? 1 : rng.range(2, 4);
        const int kind = rng.range(0, 9);
        KwOp k;
        std::string lastTarget, lastSource;
        if (kind <= 3) {
            k.type = KT::SREG;
            k.name = rng.pick(std::vector<std::string>{ "EQUALREG", "ADDREG", "MULTIREG" });
            for (int j = 0; j < nrec; ++j) {
                Rec r;
                r.a = pickD(sec, rng.coin(1, 3));
                if (k.name != "EQUALREG" && !exD.empty() && rng.coin(4, 5)) r.a = rng.pick(exD);
                if (rng.coin(1, 5)) r.a = rng.pick(GLOBS);
                if (j > 0 && rng.coin(1, 3)) r.a = lastTarget;
                r.val = niceD(true); r.rv = pickRv(); r.rs = letter;
                lastTarget = r.a;
                k.recs.push_back(r);
            }
        } else if (kind <= 6) {
            k.type = KT::OPRR;
            for (int j = 0; j < nrec; ++j) {
                Rec r;
                r.a = pickD(sec, rng.coin(1, 3));
                if (rng.coin(1, 5)) r.a = rng.pick(GLOBS);
                if (j > 0 && rng.coin(1, 3)) r.a = lastTarget;
                r.b = (!missing.empty() && rng.coin()) ? rng.pick(missing) : (!exD.empty() ? rng.pick(exD) : pickD(sec, true));
                r.fn = rng.pick(FNS);
                r.val = niceD(true); r.val2 = rng.range(0, 6) / 2.0;
                r.rv = pickRv(); r.rs = reg;
                // the interesting case: no active cell in the region and a source array that does not exist yet
                if (!iv.empty() && !missing.empty() && rng.coin()) { r.rv = rng.pick(std::vector<int>(iv.begin(), iv.end())); r.b = rng.pick(missing); }
                else unitBias(r, t);
                lastTarget = r.a; lastSource = r.b;
                k.recs.push_back(r);
            }
        } else {
            k.type = KT::CREG;
            for (int j = 0; j < nrec; ++j) {
                Rec r;
                r.b = (!fullV.empty() && rng.coin(5, 6)) ? rng.pick(fullV) : pickD(sec, true);
                r.a = pickD(sec, rng.coin());
                if (rng.coin(1, 6)) { r.b = pickI(sec, true); r.a = pickI(sec, true); }
                r.rv = pickRv(); r.rs = letter;
                lastTarget = r.a;
                k.recs.push_back(r);
            }
        }
        if (!pushKw(g, t, sec, k)) return g;
        for (const auto& r : k.recs) noteKey(k.type == KT::OPRR ? r.rs : reg, r.rv);
        // (3) follow-ups: a box operation that must already find the array (the OPERATER source when it was missing:
        // it exists only if some record's region had an active cell), MINVALUE/MAXVALUE on the target
        if (k.type == KT::OPRR && rng.coin()) {
            KwOp f; f.type = KT::SCAL; f.name = rng.pick(std::vector<std::string>{ "ADD", "MULTIPLY" });
            Rec r; r.a = lastSource; r.val = niceD(false); r.box = randBox(c, false);
            f.recs.push_back(r);
            if (!pushKw(g, t, sec, f)) return g;
        }
        if (sec <= 2 && DBL.count(lastTarget) && rng.coin(1, 2)) {
            KwOp f; f.type = KT::SCAL; f.name = rng.coin() ? "MINVALUE" : "MAXVALUE";
            Rec r; r.a = lastTarget; r.val = niceD(true); r.box = randBox(c, false);
            f.recs.push_back(r);
            if (rng.coin(1, 3)) { Rec r2 = r; r2.val = niceD(true); r2.box = randBox(c, false, rng.range(0, 2)); f.recs.push_back(r2); }
            if (!pushKw(g, t, sec, f)) return g;
        }
        return g;
    }

    void noteKey(const std::string& reg, int rv) {
        for (const auto& uk : usedKeys) if (uk.first == reg && uk.second == rv) return;
        if (usedKeys.size() < 16) usedKeys.push_back({ reg, rv });
    }

    // one region-keyed keyword (one record) naming (region array R, id v)
    std::optional<KwOp> regionOpOn(int sec, const RefState& t, const std::string& R, int v, const std::string& preferTarget, std::string& target) {
        std::vector<std::string> letters;
        if (R == "FLUXNUM") letters = { "*", "F" };
        else if (R == "MULTNUM") letters = { "M" };
        else if (R == "OPERNUM") letters = { "O" };
        std::vector<std::string> fullDef, fullV, withInit;
        for (const auto& kv : t.d) {
            if (kv.first.rfind(MULT_PREFIX, 0) == 0) continue;
            bool def = true, allV = true;
            for (int q = 0; q < t.n(); ++q) if (t.act[q]) { def = def && hasV(kv.second[q].st); allV = allV && kv.second[q].st == 'v'; }
            if (def) fullDef.push_back(kv.first);
            if (allV) fullV.push_back(kv.first);
        }
        for (const auto& n : DBL_ORDER) if (DBL.at(n).init) withInit.push_back(n);
        int kind = rng.pick(std::vector<int>{ 0, 0, 0, 0, 0, 1, 1, 1, 2, 2 });
        if (letters.empty()) kind = 1;
        if (kind == 2 && fullV.empty()) kind = 0;
        auto pickTarget = [&](bool mustBeDefined) {
            std::string a = pickD(sec, rng.coin(1, 3));
            if (!preferTarget.empty() && rng.coin()) a = preferTarget;
            if (isGlob(a) && rng.coin(3, 4)) a = pickD(sec, rng.coin(1, 3));
            if (mustBeDefined && !std::count(fullDef.begin(), fullDef.end(), a)) { if (fullDef.empty()) return std::string(); a = rng.pick(fullDef); }
            return a;
        };
        KwOp k; Rec r; r.rv = v;
        if (kind == 0) {
            k.type = KT::SREG;
            k.name = rng.pick(std::vector<std::string>{ "EQUALREG", "EQUALREG", "ADDREG", "MULTIREG" });
            r.a = pickTarget(k.name != "EQUALREG");
            if (r.a.empty()) { k.name = "EQUALREG"; r.a = pickTarget(false); }
            r.val = niceD(k.name != "MULTIREG");
            if (k.name == "ADDREG" && r.val == 0) r.val = 1.5;
            if (k.name == "MULTIREG" && (r.val == 1 || r.val == 0)) r.val = 2;
            r.rs = rng.pick(letters);
        } else if (kind == 1) {
            k.type = KT::OPRR;
            r.a = pickTarget(false);
            r.b = !fullDef.empty() ? rng.pick(fullDef) : rng.pick(withInit);
            r.fn = rng.pick(std::vector<std::string>{ "ADDX", "MULTA", "MULTX", "COPY", "MINLIM", "MAXLIM", "ABS" });
            r.val = niceD(true); if (r.val == 0 || r.val == 1) r.val = 2.5;
            r.val2 = rng.range(1, 6) / 2.0;
            r.rs = R;
        } else {
            k.type = KT::CREG;
            r.b = rng.pick(fullV);
            r.a = pickTarget(false);
            if (isGlob(r.a) && !isGlob(r.b)) r.a = "NTG";
            if (r.a == r.b) r.a = (r.b == "SWAT") ? "SGAS" : "SWAT";
            r.rs = rng.pick(letters);
        }
        target = r.a;
        k.recs.push_back(r);
        return k;
    }

    // (e) "same key reused after its source changed": a region-keyed operation naming (region array R, id v); then R
    // itself is rewritten so that OTHER active cells carry v — by COPY or COPYREG with R as the TARGET, by EQUALS / ADD /
    // MULTIPLY / MINVALUE / MAXVALUE in a box, by a second direct assignment; then another region-keyed operation
    // naming the same (R, v).  Whatever R and the COPY source need is prepared BEFORE the first operation, so that
    // nothing else writes an integer array between the first use of the key and the rewrite: a memo of
    // region_index(R, v) that one writer of R forgets to drop is read back stale.  The first operation may also be one
    // of an earlier group or section (usedKeys).
    std::vector<KwOp> staleKeyGroup(const Case& c, int sec, const RefState& s) {
        std::vector<KwOp> g;
        RefState t = s;
        stats["gen.attempt.group.stale-key"]++;
        // the key: an earlier one (possibly of an earlier section) or a new one
        std::string R; int v = 0; bool old = false;
        {
            std::vector<std::pair<std::string, int>> cand;
            for (const auto& uk : usedKeys) if (t.i.count(uk.first) && refValid(t, t.i.at(uk.first)) && !refRegionEmpty(t, t.i.at(uk.first), uk.second)) cand.push_back(uk);
            if (!cand.empty() && rng.coin(2, 5)) { const auto k0 = rng.pick(cand); R = k0.first; v = k0.second; old = true; }
        }
        if (!old) R = rng.coin(5, 6) ? rng.pick(std::vector<std::string>{ "FLUXNUM", "FLUXNUM", "MULTNUM", "MULTNUM", "OPERNUM" })
                                     : rng.pick(std::vector<std::string>{ "SATNUM", "FIPNUM", "PVTNUM", "EQLNUM" });
        // how R will be rewritten
        enum { W_COPY, W_COPYREG, W_EQUALS, W_ADD, W_MULTIPLY, W_DATA, W_MINMAX };
        std::vector<int> hows = { W_COPY, W_COPY, W_COPY, W_COPY, W_COPYREG, W_COPYREG, W_COPYREG, W_EQUALS, W_EQUALS, W_ADD, W_MULTIPLY };
        if (std::count(DATA_I[sec].begin(), DATA_I[sec].end(), R)) { hows.push_back(W_DATA); hows.push_back(W_DATA); }
        if (sec <= 2) hows.push_back(W_MINMAX);
        const int how = rng.pick(hows);
        auto activeVals = [&](const RefState& u, const std::string& a) { std::set<int> x; if (u.i.count(a)) for (int q = 0; q < u.n(); ++q) if (u.act[q] && hasV(u.i.at(a)[q].st)) x.insert(u.i.at(a)[q].v); return x; };
        auto allV = [&](const RefState& u, const std::string& a) { if (!u.i.count(a)) return false; for (int q = 0; q < u.n(); ++q) if (u.act[q] && u.i.at(a)[q].st != 'v') return false; return true; };
        auto assignInt = [&](const std::string& a) {       // EQUALS a 1 <full> ; a 2..4 <box> ... : every cell a deck value
            KwOp k; k.type = KT::SCAL; k.name = "EQUALS";
            { Rec r; r.a = a; r.val = rng.range(1, 2); r.box = fullBox(c); k.recs.push_back(r); }
            const int extra = rng.range(1, 3);
            for (int j = 0; j < extra; ++j) { Rec r; r.a = a; r.val = rng.range(1, 4); r.box = randBox(c, false, 2); k.recs.push_back(r); }
            return k;
        };
        // (1) preparation: R valid with at least two values among the active cells; the COPY/COPYREG source S a
        // fully assigned integer array other than R
        std::string S;
        {
            std::vector<std::string> ex;
            for (const auto& kv : t.i) if (kv.first != "ACTNUM" && kv.first != R && allV(t, kv.first) && activeVals(t, kv.first).size() >= 2) ex.push_back(kv.first);
            if (!ex.empty() && rng.coin(2, 3)) S = rng.pick(ex);
            else if (how == W_COPY || how == W_COPYREG) {
                do { S = pickI(sec, true); } while (S == R);
                if (!pushKw(g, t, sec, assignInt(S))) return g;
            }
        }
        if (!old) {
            const bool have = t.i.count(R) && refValid(t, t.i.at(R)) && activeVals(t, R).size() >= 2;
            if (!have || rng.coin(1, 4)) { if (!pushKw(g, t, sec, assignInt(R))) return g; }
            const auto av = activeVals(t, R);
            if (av.empty()) return g;
            v = rng.pick(std::vector<int>(av.begin(), av.end()));
        }
        // (2) first use of the key (unless an earlier keyword already used it)
        std::string target;
        if (!old || rng.coin(1, 3)) {
            const auto k = regionOpOn(sec, t, R, v, "", target);
            if (!k || !pushKw(g, t, sec, *k)) return g;
            noteKey(R, v);
        } else stats["gen.attempt.group.stale-key.first-use-in-earlier-group"]++;
        const int rounds = rng.coin(1, 3) ? 2 : 1;
        int curHow = how;
        for (int round = 0; round < rounds; ++round) {
            // (3) rewrite R so that the active cells with R == v change
            auto selection = [&](const RefState& u) { std::vector<char> x(u.n(), 0); for (int q = 0; q < u.n(); ++q) x[q] = u.act[q] && hasV(u.i.at(R)[q].st) && u.i.at(R)[q].v == v; return x; };
            const auto before = selection(t);
            bool done = false;
            const bool plainReuse = old && round == 0 && rng.coin(1, 5);      // no rewrite at all: the key simply comes back
            for (int attempt = 0; attempt < 10 && !done && !plainReuse; ++attempt) {
                std::vector<KwOp> w;
                KwOp k; Rec r;
                switch (curHow) {
                case W_COPY: k.type = KT::COPY; r.b = S; r.a = R; r.box = randBox(c, false, attempt < 5 ? -1 : 0); k.recs.push_back(r); w.push_back(k); break;
                case W_COPYREG: {
                    k.type = KT::CREG; r.b = S; r.a = R;
                    // region set of the COPYREG itself: R (the key's own region set, another id or the same) or another valid one
                    std::vector<std::pair<std::string, std::string>> sets;      // letter, array
                    for (const char* l : { "F", "M", "O" }) { const std::string a = *refRegionName(l); if ((a == "MULTNUM" || t.i.count(a)) && (!t.i.count(a) || refValid(t, t.i.at(a)))) sets.push_back({ l, a }); }
                    if (sets.empty()) { curHow = W_EQUALS; continue; }
                    const auto set = rng.pick(sets);
                    r.rs = set.first;
                    const auto vals = activeVals(t, set.second);
                    r.rv = vals.empty() ? 1 : rng.pick(std::vector<int>(vals.begin(), vals.end()));
                    k.recs.push_back(r); w.push_back(k); break;
                }
                case W_EQUALS: k.type = KT::SCAL; k.name = "EQUALS"; r.a = R; r.val = rng.coin() ? v : rng.range(1, 4); r.box = randBox(c, false, 2); k.recs.push_back(r); w.push_back(k); break;
                case W_ADD: k.type = KT::SCAL; k.name = "ADD"; r.a = R; r.val = rng.coin() ? 1 : -1; r.box = randBox(c, false); k.recs.push_back(r); w.push_back(k); break;
                case W_MULTIPLY: k.type = KT::SCAL; k.name = "MULTIPLY"; r.a = R; r.val = 2; r.box = randBox(c, false); k.recs.push_back(r); w.push_back(k); break;
                case W_MINMAX: k.type = KT::SCAL; k.name = rng.coin() ? "MINVALUE" : "MAXVALUE"; r.a = R; r.val = rng.range(1, 4); r.box = randBox(c, false); k.recs.push_back(r); w.push_back(k); break;
                default: {
                    // second direct assignment, in a box or over the whole grid
                    RefState u = t;
                    try {
                        if (rng.coin(2, 3)) { KwOp b; b.type = KT::BOX; b.box = randBox(c, false, 2); w.push_back(b); refKeyword(u, sec, b); }
                        else if (!isGlobalBox(u)) { KwOp e; e.type = KT::ENDBOX; w.push_back(e); refKeyword(u, sec, e); }
                    } catch (const RefErr&) { continue; }
                    k.type = KT::DATI; k.name = R;
                    for (int q = 0; q < u.boxSize(); ++q) { DCell d; d.i = rng.range(1, 4); k.data.push_back(d); }
                    w.push_back(k);
                    if (w.front().type == KT::BOX && rng.coin(2, 3)) { KwOp e; e.type = KT::ENDBOX; w.push_back(e); }
                    break;
                }
                }
                RefState u = t;
                bool ok = true;
                for (const auto& x : w) { try { refKeyword(u, sec, x); } catch (const RefErr&) { ok = false; break; } }
                if (!ok || !u.i.count(R) || !refValid(u, u.i.at(R))) continue;
                if (selection(u) == before) continue;
                for (const auto& x : w) g.push_back(x);
                t = u; done = true;
            }
            if (!done && !plainReuse) { stats["gen.attempt.group.stale-key.no-rewrite-found"]++; return g; }
            if (done) stats[std::string("gen.attempt.group.stale-key.rewrite.") + (curHow == W_COPY ? "COPY" : curHow == W_COPYREG ? "COPYREG" : curHow == W_EQUALS ? "EQUALS" : curHow == W_ADD ? "ADD" : curHow == W_MULTIPLY ? "MULTIPLY" : curHow == W_DATA ? "data" : "MINMAX")]++;
            // (4) the same key again (once or twice: the second record reads what the first one may have stored)
            const int again = rng.coin(1, 3) ? 2 : 1;
            for (int q = 0; q < again; ++q) {
                std::string tg;
                const auto k = regionOpOn(sec, t, R, v, target, tg);
                if (!k || !pushKw(g, t, sec, *k)) return g;
                target = tg;
            }
            noteKey(R, v);
            // a second round rewrites R another way
            curHow = rng.pick(hows);
            if ((curHow == W_COPY || curHow == W_COPYREG) && S.empty()) curHow = W_EQUALS;
        }
        return g;
    }

    // (f) GRID section: porosity zero in some active cells, so that the ACTNUM update after GRID/EDIT removes active
    // cells (every array is re-compressed; whatever was derived from the old numbering must not survive)
    std::vector<KwOp> poroZeroGroup(const Case& c, const RefState& s) {
        std::vector<KwOp> g;
        RefState t = s;
        stats["gen.attempt.group.poro-zero"]++;
        KwOp k; k.type = KT::SCAL; k.name = "EQUALS";
        bool def = s.d.count("PORO") > 0;
        if (def) for (int q = 0; q < s.n(); ++q) if (s.act[q] && !hasV(s.d.at("PORO")[q].st)) def = false;
        if (!def) { Rec r; r.a = "PORO"; r.val = rng.range(1, 3) / 8.0; r.box = fullBox(c); k.recs.push_back(r); }
        const int nz = rng.range(1, 2);
        for (int j = 0; j < nz; ++j) { Rec r; r.a = "PORO"; r.val = 0; r.box = randBox(c, false, 2); k.recs.push_back(r); }
        pushKw(g, t, 0, k);
        return g;
    }

    std::vector<KwOp> randGroup(const Case& c, int sec, const RefState& s) {
        const int w = rng.range(0, 99);
        std::vector<KwOp> g;
        if (sec == 0 && w < 12) g = topGroup(c, s);
        else if (w < 19) g = boxSpanGroup(c, sec, s);
        else if (w < 27) g = reentryGroup(c, sec, s);
        else if (w < 42) g = regionGroup(c, sec, s);
        else if (w < 52) g = staleKeyGroup(c, sec, s);
        else if (sec == 0 && w < 54) g = poroZeroGroup(c, s);
        if (g.empty()) g.push_back(randKw(c, sec, s));
        return g;
    }

    // A keyword that the code must reject because it would read an undefined ACTIVE cell: a non-assigning
    // scalar operation (box or region form), OPERATE or COPY aimed at an existing array that still has an
    // uninitialised (or, for COPY, defaulted) active cell.
    // OPERATE/OPERATER functions whose parameter is converted to SI (ADDX/MAXLIM/MINLIM: alpha, MULTA: beta) only show
    // that on a unit-bearing target (PERMX/PERMY/PERMZ/PRESSURE): aim a share of the records there, with a source of
    // the same storage kind that already has values
    void unitBias(Rec& r, const RefState& s) {
        if (!rng.coin(1, 4)) return;
        std::vector<std::string> units, have;
        for (const auto& n : DBL_ORDER) if (DBL.at(n).hasUnit) { units.push_back(n); if (s.d.count(n)) have.push_back(n); }
        if (units.empty()) return;
        r.a = (!have.empty() && rng.coin(3, 4)) ? rng.pick(have) : rng.pick(units);
        std::vector<std::string> src;
        for (const auto& kv : s.d) if (kv.first.rfind(MULT_PREFIX, 0) != 0 && isGlob(kv.first) == isGlob(r.a)) src.push_back(kv.first);
        r.b = src.empty() ? r.a : rng.pick(src);
        r.fn = rng.pick(std::vector<std::string>{ "ADDX", "MAXLIM", "MINLIM", "MULTA", "MULTA" });
        if (r.val2 == 0) r.val2 = 1.5;
        stats["gen.attempt.operate-unit-bearing-target"]++;
    }

    // An OPERATER record whose region has no ACTIVE cell is skipped BEFORE its source array is created; a following
    // ADD/MULTIPLY/MINVALUE/MAXVALUE on that source must then still be rejected ("must already exist").
    std::vector<KwOp> operaterThenMustExist(const Case& c, int sec, const RefState& s) {
        std::vector<KwOp> g;
        std::vector<std::string> srcs, regs = { "MULTNUM" };
        for (const auto& n : DBL_ORDER) if (DBL.at(n).init && !DBL.at(n).mult && !s.d.count(n)) srcs.push_back(n);
        if (srcs.empty()) return g;
        for (const auto& kv : s.i) if (kv.first != "ACTNUM" && refValid(s, kv.second)) regs.push_back(kv.first);
        KwOp k; k.type = KT::OPRR;
        Rec r;
        r.rs = rng.pick(regs);
        std::set<int> av, iv;
        if (s.i.count(r.rs)) for (int q = 0; q < s.n(); ++q) (s.act[q] ? av : iv).insert(s.i.at(r.rs)[q].v); else av.insert(1);
        std::vector<int> cand;
        for (int v : iv) if (!av.count(v)) cand.push_back(v);
        r.rv = (!cand.empty() && rng.coin(2, 3)) ? rng.pick(cand) : 9;
        r.a = pickD(sec, rng.coin()); r.b = rng.pick(srcs);
        r.fn = rng.pick(std::vector<std::string>{ "COPY", "MULTX", "ADDX", "ABS", "MULTA" });
        r.val = niceD(true); r.val2 = 1.0;
        k.recs.push_back(r);
        g.push_back(k);
        KwOp f; f.type = KT::SCAL;
        std::vector<std::string> ops = { "ADD", "MULTIPLY" };
        if (sec <= 2) { ops.push_back("MINVALUE"); ops.push_back("MAXVALUE"); }
        f.name = rng.pick(ops);
        Rec q; q.a = r.b; q.val = niceD(false); q.box = randBox(c, false);
        f.recs.push_back(q);
        g.push_back(f);
        stats["gen.attempt.targeted.operater-empty-region-then-must-exist"]++;
        return g;
    }

    // Region-keyed operation on a region array that is only partly defined (FLUXNUM/OPERNUM have no default):
    // must be rejected.  The array is made partly defined by an EQUALS on a sub-box when it does not exist yet.
    std::vector<KwOp> partlyDefinedRegion(const Case& c, int sec, const RefState& s) {
        std::vector<KwOp> g;
        const std::string letter = rng.pick(std::vector<std::string>{ "*", "F", "O" });
        const std::string reg = *refRegionName(letter);
        bool some = false, all = true;
        if (s.i.count(reg)) for (int q = 0; q < s.n(); ++q) if (s.act[q]) { const bool h = hasV(s.i.at(reg)[q].st); some = some || h; all = all && h; }
        if (s.i.count(reg) && all) return g;
        if (!some) {
            if (s.n() < 2) return g;
            KwOp k; k.type = KT::SCAL; k.name = "EQUALS";
            Rec r; r.a = reg; r.val = rng.range(1, 3); r.box = randBox(c, false, 2);
            k.recs.push_back(r);
            g.push_back(k);
        }
        KwOp k;
        Rec r; r.rv = rng.range(1, 3);
        switch (rng.range(0, 2)) {
        case 0: k.type = KT::SREG; k.name = rng.pick(std::vector<std::string>{ "EQUALREG", "ADDREG", "MULTIREG" }); r.a = pickD(sec, true); r.val = niceD(true); r.rs = letter; break;
        case 1: k.type = KT::OPRR; r.a = pickD(sec, true); r.b = pickD(sec, true); r.fn = "ADDX"; r.val = niceD(true); r.rs = reg; break;
        default: k.type = KT::CREG; r.b = pickD(sec, true); r.a = pickD(sec, true); r.rs = letter; break;
        }
        k.recs.push_back(r);
        g.push_back(k);
        stats["gen.attempt.targeted.partly-defined-region"]++;
        return g;
    }

    std::optional<KwOp> targetedReject(const Case& c, int sec, const RefState& s) {
        // arrays with an uninitialised active cell / with a not-deck-value active cell
        std::vector<std::string> dU, iU, dN, iN;
        for (const auto& kv : s.d) {
            if (kv.first.rfind(MULT_PREFIX, 0) == 0) continue;
            bool u = false, nd = false;
            for (int g = 0; g < s.n(); ++g) if (s.act[g]) { u = u || kv.second[g].st == 'u'; nd = nd || kv.second[g].st != 'v'; }
            if (u) dU.push_back(kv.first);
            if (nd && !u) dN.push_back(kv.first);
        }
        for (const auto& kv : s.i) {
            if (kv.first == "ACTNUM") continue;
            bool u = false, nd = false;
            for (int g = 0; g < s.n(); ++g) if (s.act[g]) { u = u || kv.second[g].st == 'u'; nd = nd || kv.second[g].st != 'v'; }
            if (u) iU.push_back(kv.first);
            if (nd && !u) iN.push_back(kv.first);
        }
        KwOp k;
        Rec r;
        r.box.v[0] = 1; r.box.v[1] = c.nx; r.box.v[2] = 1; r.box.v[3] = c.ny; r.box.v[4] = 1; r.box.v[5] = c.nz;
        if (rng.coin(1, 3)) r.box = randBox(c, false);
        std::vector<int> kinds = { 0, 1, 4, 5, 6, 7 };
        if (sec <= 2) { kinds.push_back(2); kinds.push_back(3); kinds.push_back(2); kinds.push_back(3); }
        const int kind = rng.pick(kinds);
        static const char* SC[] = { "ADD", "MULTIPLY", "MINVALUE", "MAXVALUE" };
        if (kind <= 3) {
            const bool useInt = dU.empty() || (!iU.empty() && rng.coin(1, 3));
            if (useInt && iU.empty()) return std::nullopt;
            k.type = KT::SCAL; k.name = SC[kind];
            r.a = useInt ? rng.pick(iU) : rng.pick(dU);
            r.val = useInt ? (double) rng.range(0, 4) : niceD(true);
        } else if (kind <= 5) {
            if (dU.empty()) return std::nullopt;
            k.type = KT::SREG; k.name = kind == 4 ? "ADDREG" : "MULTIREG";
            r.a = rng.pick(dU); r.val = niceD(true); r.rv = rng.range(1, 3);
            r.rs = rng.pick(std::vector<std::string>{ "*", "F", "M", "O" });
        } else if (kind == 6) {
            if (dU.empty()) return std::nullopt;
            k.type = KT::OPER;
            const std::string name = rng.pick(dU);
            r.fn = rng.pick(std::vector<std::string>{ "MULTA", "POLY", "MULTIPLY", "COPY", "ABS", "MINLIM" });
            if ((r.fn == "POLY" || r.fn == "MULTIPLY") && rng.coin()) { r.a = name; r.b = pickD(sec, true); }
            else { r.a = pickD(sec, true); r.b = name; }
            r.val = niceD(true); r.val2 = 1.0;
        } else {
            const bool useInt = (dN.empty() && dU.empty()) || rng.coin(1, 3);
            std::vector<std::string> pool = useInt ? iN : dN;
            for (const auto& x : (useInt ? iU : dU)) pool.push_back(x);
            if (pool.empty()) return std::nullopt;
            k.type = KT::COPY;
            r.b = rng.pick(pool); r.a = useInt ? pickI(sec, true) : pickD(sec, true);
        }
        k.recs.push_back(r);
        return k;
    }

    // PORO is a "distribute top layer" keyword in the GRID section: phase-1 programs only assign it
    // where that post-processing cannot trigger (see design.d/C12.md)
    static bool topSafe(const KwOp& k, const RefState& s) {
        if (k.type != KT::DATD || !DBL.at(k.name).top) return true;
        if (s.box[4] >= 1) return true;                       // the box does not touch layer 1
        if ((int) k.data.size() != s.boxSize()) return true;  // rejected anyway
        return false;
    }

    Case randCase(bool topLayerModelled) {
        Case c;
        usedKeys.clear(); usedBoxes.clear();
        c.nx = rng.range(1, 6); c.ny = rng.range(1, 6); c.nz = rng.range(1, 6);
        if (rng.coin(1, 5)) { c.nx = rng.range(1, 3); c.ny = rng.range(1, 3); c.nz = rng.range(1, 3); }
        const int n = c.nx * c.ny * c.nz;
        const int dens = rng.pick(std::vector<int>{ 100, 90, 75, 50, 25 });
        c.actnum.resize(n);
        int na = 0;
        for (auto& a : c.actnum) { a = (int) rng.below(100) < dens; na += a; }
        // inactive cells in particular positions (on top of the random density)
        {
            const int layer = c.nx * c.ny;
            switch (rng.range(0, 13)) {
            case 0: if (c.nz > 1) { for (int l = 0; l < layer; ++l) c.actnum[l] = 0; stats["gen.shape.whole-top-layer-inactive"]++; } break;
            case 1: case 2: if (c.nz > 1) { for (int l = 0; l < layer; ++l) if (rng.coin()) c.actnum[l] = 0; stats["gen.shape.some-top-cells-inactive"]++; } break;
            case 3: { const int cols = rng.range(1, 2); for (int q = 0; q < cols; ++q) { const int l = (int) rng.below(layer); for (int k = 0; k < c.nz; ++k) c.actnum[l + k * layer] = 0; } stats["gen.shape.inactive-column"]++; } break;
            case 4: c.actnum[0] = 0; stats["gen.shape.first-cell-inactive"]++; break;
            case 5: c.actnum[n - 1] = 0; stats["gen.shape.last-cell-inactive"]++; break;
            case 6: { for (auto& a : c.actnum) a = 0; int g = (int) rng.below(n); if (c.nz > 1 && g < layer && rng.coin()) g += layer; c.actnum[g] = 1; stats["gen.shape.one-active-cell"]++; } break;
            default: break;
            }
            na = 0;
            for (int a : c.actnum) na += a;
        }
        if (na == 0) { c.actnum[rng.below(n)] = 1; na = 1; }
        c.writeActnum = (na != n) || rng.coin();
        stats[na == n ? "grid.allactive" : "grid.masked"]++;

        RefState s = refInit(c);
        const int total = rng.range(3, 25);
        // split the operations over the sections (deck order), generate in PROCESSING order so that
        // the reference state used for steering is the right one
        int count[5] = { 0, 0, 0, 0, 0 };
        for (int j = 0; j < total; ++j) count[rng.pick(std::vector<int>{ 0, 0, 0, 1, 2, 3, 3, 4, 4 })]++;
        if (c.writeActnum) {
            KwOp k; k.type = KT::DATI; k.name = "ACTNUM";
            for (int a : c.actnum) { DCell d; d.i = a; k.data.push_back(d); }
            c.sec[0].push_back(k);
        }
        // direct ACTNUM manipulation (EQUALS ACTNUM 0/1 <box>): seen by the ACTNUM-only pre-pass
        if (rng.coin(1, 4)) {
            KwOp k; k.type = KT::SCAL; k.name = "EQUALS";
            const int nr = rng.range(1, 2);
            for (int j = 0; j < nr; ++j) {
                Rec r; r.a = "ACTNUM"; r.val = rng.coin(2, 3) ? 0.0 : 1.0; r.box = randBox(c, false);
                k.recs.push_back(r);
            }
            c.sec[0].push_back(k);
            stats["gen.equals-actnum"]++;
        }
        {
            // the ACTNUM every later step sees is the one of the pre-pass; keep at least one active cell
            auto eff = refPrepass(c);
            int nact = 0; for (int a : eff) nact += a;
            if (nact == 0) {
                while (c.sec[0].size() > (c.writeActnum ? 1u : 0u)) c.sec[0].pop_back();
                eff = refPrepass(c);
            }
            c.actnum = eff;
            s = refInit(c);
            for (const auto& k : c.sec[0]) refKeyword(s, 0, k);
        }
        // A quarter of the programs end in a deliberately rejected keyword (after `errAt` accepted
        // ones); the others are steered away from rejection so that long programs survive.
        const bool wantErr = rng.coin(1, 4);
        const int errAt = wantErr ? rng.range(0, total - 1) : -1;
        int done = 0;
        bool dead = false;
        for (int p = 0; p < 5 && !dead; ++p) {
            const int sec = PROC_ORDER[p];
            if (p == 2) refResetActnum(s);
            s.globalBox();
            for (int j = 0; j < count[sec] && !dead; ++j, ++done) {
                const bool seekErr = (done == errAt);
                for (int attempt = 0; attempt < (seekErr ? 40 : 12); ++attempt) {
                    // a group of keywords generated together (mostly one keyword)
                    std::vector<KwOp> grp;
                    if (seekErr && rng.coin(3, 4)) {
                        if (rng.coin(1, 6)) grp = partlyDefinedRegion(c, sec, s);
                        else if (rng.coin(1, 5)) grp = operaterThenMustExist(c, sec, s);
                        else if (auto tk = targetedReject(c, sec, s)) grp.push_back(*tk);
                    }
                    if (grp.empty()) grp = randGroup(c, sec, s);
                    if (!topLayerModelled && sec == 0) { bool safe = true; for (const auto& k : grp) safe = safe && topSafe(k, s); if (!safe) continue; }
                    RefState t = s;
                    bool ok = true;
                    size_t used = 0;
                    while (ok && used < grp.size()) { try { refKeyword(t, sec, grp[used]); } catch (const RefErr&) { ok = false; } ++used; }
                    if (seekErr ? ok : (!ok && !rng.coin(1, 40))) continue;
                    for (size_t q = 0; q < used; ++q) c.sec[sec].push_back(grp[q]);     // a rejected keyword ends the program
                    if (ok) s = t;
                    else {
                        const KwOp& k = grp[used - 1];
                        dead = true; stats["gen.rejected-keyword"]++; stats[std::string("gen.rejected.") + (k.type == KT::SCAL || k.type == KT::SREG ? k.name : std::to_string((int) k.type))]++;
                    }
                    break;
                }
            }
            if (sec == 1) refApplyMultipliers(s);
        }
        return c;
    }
};

static void countCase(std::map<std::string, long>& st, const Case& c) {
    static const char* N[] = { "BOX", "ENDBOX", "DATD", "DATI", "SCAL", "COPY", "OPER", "SREG", "CREG", "OPRR" };
    long ops = 0;
    for (int s = 0; s < 5; ++s) for (const auto& k : c.sec[s]) {
        st[std::string("kw.") + N[(int) k.type]]++; st[std::string("sec.") + SECNAME[s]]++; ++ops;
        if (k.type == KT::SCAL || k.type == KT::SREG) st["op." + k.name]++;
        if (k.type == KT::OPER || k.type == KT::OPRR) for (const auto& r : k.recs) st["fn." + r.fn]++;
    }
    st["ops.total"] += ops;
    // (a) where the inactive cells are (ACTNUM as the grid gets it from the pre-pass)
    const int layer = c.nx * c.ny, n = layer * c.nz;
    int nact = 0, topInactive = 0, deadColumns = 0;
    for (int g = 0; g < n; ++g) nact += c.actnum[g] ? 1 : 0;
    for (int l = 0; l < layer; ++l) {
        topInactive += c.actnum[l] ? 0 : 1;
        bool any = false;
        for (int k = 0; k < c.nz; ++k) any = any || c.actnum[l + k * layer];
        if (!any) ++deadColumns;
    }
    if (nact < n) {
        st["a.act.masked-cases"]++;
        if (c.nz > 1 && topInactive == layer) st["a.act.whole-top-layer-inactive"]++;
        else if (c.nz > 1 && topInactive > 0) st["a.act.top-cell-of-some-columns-inactive"]++;
        if (deadColumns > 0 && c.nz > 1) st["a.act.fully-inactive-column"]++;
        if (!c.actnum[0]) st["a.act.first-global-cell-inactive"]++;
        if (!c.actnum[n - 1]) st["a.act.last-global-cell-inactive"]++;
        if (nact == 1) st["a.act.only-one-active-cell"]++;
    }
}

// distribution of what the final program exercises: one pass of the reference interpreter with the counters on
static Outcome runRefCounting(std::map<std::string, long>& st, const Case& c) {
    RSTAT = &st;
    Outcome r = runRef(c);
    RSTAT = nullptr;
    return r;
}


// ---------------------------------------------------------------------------------------------
// Transmissibility calculators (TRANX/TRANY/TRANZ edited in EDIT) and SCHEDULE-section multipliers.
//
// TRAN edits are INJECTED into the EDIT section of the ordinary random cases, interleaved with the edits of ordinary
// arrays (also as extra records of existing EQUALS/ADD/… keywords), several boxes, the same keyword more than once.
// The ordinary arrays are still checked against the model / reference interpreter on the case with the TRAN edits
// stripped (a TRAN edit must not change any ordinary array); the calculators are checked on their own protocol line.

// section box tracking with the semantics of Box::update (all items defaulted: keep; otherwise defaulted = grid extent)
struct BoxTrack {
    int nx, ny, nz, b[6];
    BoxTrack(const Case& c) : nx(c.nx), ny(c.ny), nz(c.nz) { global(); }
    void global() { b[0] = 0; b[1] = nx - 1; b[2] = 0; b[3] = ny - 1; b[4] = 0; b[5] = nz - 1; }
    bool update(const BoxItems& r) {
        if (allDefaulted(r)) return true;
        const int dims[3] = { nx, ny, nz };
        int nb[6];
        for (int k = 0; k < 6; ++k) nb[k] = r.v[k] ? *r.v[k] - 1 : (k % 2 == 0 ? 0 : dims[k / 2] - 1);
        for (int a = 0; a < 3; ++a) if (nb[2 * a] < 0 || nb[2 * a] > nb[2 * a + 1] || nb[2 * a + 1] >= dims[a]) return false;
        for (int k = 0; k < 6; ++k) b[k] = nb[k];
        return true;
    }
    int size() const { return (b[1] - b[0] + 1) * (b[3] - b[2] + 1) * (b[5] - b[4] + 1); }
    template <class F> void each(F f) const {
        int pos = 0;
        for (int k = b[4]; k <= b[5]; ++k) for (int j = b[2]; j <= b[3]; ++j) for (int i = b[0]; i <= b[1]; ++i) f(i + nx * (j + ny * k), pos++);
    }
};

static BoxItems validBox(vh::Rng& rng, const Case& c, std::vector<BoxItems>& used) {
    BoxItems b;
    if (!used.empty() && rng.coin(1, 5)) return rng.pick(used);     // the same box again
    const int dims[3] = { c.nx, c.ny, c.nz };
    const int mode = rng.range(0, 9);
    if (mode <= 1) return b;                                        // all six defaulted: the previous record's / section's box
    for (int a = 0; a < 3; ++a) {
        int lo = rng.range(1, dims[a]), hi = rng.range(1, dims[a]);
        if (lo > hi) std::swap(lo, hi);
        if (rng.coin(1, 4)) { lo = 1; hi = dims[a]; }
        if (mode <= 4 && rng.coin(1, 3)) { if (rng.coin()) b.v[2 * a] = lo; else b.v[2 * a + 1] = hi; continue; }   // partly defaulted
        if (mode <= 4 && rng.coin(1, 4)) continue;
        b.v[2 * a] = lo; b.v[2 * a + 1] = hi;
    }
    used.push_back(b);
    return b;
}

static double tranValue(vh::Rng& rng) { return rng.coin(1, 8) ? 0.0 : rng.range(1, 96) / 8.0; }

static void injectTran(Case& c, vh::Rng& rng, std::map<std::string, long>& st) {
    static const std::vector<std::string> OPS = { "EQUALS", "ADD", "MULTIPLY", "MINVALUE", "MAXVALUE" };
    const int n = c.nx * c.ny * c.nz;
    c.tranData.resize(n);
    for (auto& v : c.tranData) v = rng.range(1, 400) / 4.0;
    auto& ed = c.sec[1];
    std::vector<BoxItems> used;
    std::string lastOp; int lastDir = rng.range(0, 2);
    const int nins = rng.coin(1, 6) ? 0 : rng.range(1, 6);
    for (int q = 0; q < nins; ++q) {
        const int kind = rng.range(0, 9);
        if (kind <= 1 && !ed.empty()) {
            // extra TRAN records in an existing EQUALS/ADD/… keyword of EDIT: at the end, or before a record that names its box
            std::vector<size_t> cand;
            for (size_t j = 0; j < ed.size(); ++j) if (ed[j].type == KT::SCAL) cand.push_back(j);
            if (!cand.empty()) {
                auto& k = ed[rng.pick(cand)];
                Rec r; r.a = TRAN_NAME[rng.coin(2, 3) ? lastDir : rng.range(0, 2)]; r.val = tranValue(rng); r.box = validBox(rng, c, used);
                std::vector<size_t> pos = { k.recs.size() };
                for (size_t j = 0; j < k.recs.size(); ++j) if (!allDefaulted(k.recs[j].box)) pos.push_back(j);
                k.recs.insert(k.recs.begin() + rng.pick(pos), r);
                st["tran.gen.record-in-existing-keyword"]++;
                continue;
            }
        }
        // position: anywhere in EDIT (the section box there is found by replaying BOX/ENDBOX)
        const size_t at = rng.below(ed.size() + 1);
        BoxTrack bt(c);
        bool okPos = true;
        for (size_t j = 0; j < at && okPos; ++j) {
            if (ed[j].type == KT::BOX) okPos = bt.update(ed[j].box);
            else if (ed[j].type == KT::ENDBOX) bt.global();
        }
        if (!okPos) continue;       // behind an invalid BOX the deck is rejected anyway
        KwOp k;
        if (kind <= 4) {
            k.type = KT::TDAT; k.name = TRAN_NAME[rng.coin() ? lastDir : rng.range(0, 2)];
            lastDir = tranDir(k.name);
            k.data.resize(bt.size());
            const int style = rng.range(0, 3);
            for (auto& d : k.data) {
                if (style == 0 || (style == 1 && rng.coin(1, 3)) || (style == 2 && rng.coin(3, 4))) d.st = 'e';
                else { d.st = 'v'; d.d = tranValue(rng); }
            }
            st["tran.gen.data-keyword"]++;
            if (bt.size() != n) st["tran.gen.data-keyword-in-box"]++;
        } else {
            k.type = KT::SCAL;
            k.name = (!lastOp.empty() && rng.coin(1, 3)) ? lastOp : rng.pick(OPS);
            if (k.name == lastOp) st["tran.gen.same-operation-again"]++;
            lastOp = k.name;
            const int nrec = rng.range(1, 4);
            bool prevTran = false;
            for (int j = 0; j < nrec; ++j) {
                Rec r;
                r.box = validBox(rng, c, used);
                if (rng.coin(1, 6)) {
                    // an ordinary array in the same keyword (multipliers are exempt from the "must already exist" rule)
                    r.a = rng.pick(std::vector<std::string>{ "MULTX", "MULTY", "MULTZ", "MULTX-" });
                    r.val = rng.range(0, 16) / 8.0;
                    if (prevTran && allDefaulted(r.box)) r.box.v[0] = 1;      // keep the stripped case equivalent for the ordinary arrays
                    prevTran = false;
                    st["tran.gen.ordinary-record-in-tran-keyword"]++;
                } else {
                    r.a = TRAN_NAME[rng.coin(2, 3) ? lastDir : rng.range(0, 2)];
                    lastDir = tranDir(r.a);
                    r.val = tranValue(rng);
                    prevTran = true;
                }
                k.recs.push_back(r);
            }
            st["tran.gen.operation-keyword"]++;
        }
        ed.insert(ed.begin() + at, k);
    }
}

// the case without its TRAN edits (what the ordinary arrays see)
static Case stripTran(const Case& c) {
    Case o = c;
    o.tranData.clear();
    std::vector<KwOp> ed;
    for (const auto& k : c.sec[1]) {
        if (k.type == KT::TDAT) continue;
        if (k.type != KT::SCAL) { ed.push_back(k); continue; }
        KwOp kk = k;
        kk.recs.clear();
        for (const auto& r : k.recs) if (!isTranName(r.a)) kk.recs.push_back(r);
        if (!kk.recs.empty() || k.recs.empty()) ed.push_back(kk);
    }
    o.sec[1] = ed;
    return o;
}

static bool hasTranRec(const KwOp& k) { for (const auto& r : k.recs) if (isTranName(r.a)) return true; return false; }

// fieldprops.tranI / fieldprops.tranR <this>
static std::string tranTokens(const Case& c, const std::vector<int>& a0, const std::vector<int>& a1) {
    std::ostringstream o;
    o << c.nx << " " << c.ny << " " << c.nz << " ";
    for (int a : a0) o << (a ? '1' : '0');
    o << " ";
    for (int a : a1) o << (a ? '1' : '0');
    o << " " << vh::hexF64(1.0) << " " << vh::hexF64(std::numeric_limits<double>::max()) << " " << vh::hexF64(std::numeric_limits<double>::lowest())
      << " " << vh::hexF64(TRAN_SI);
    for (const auto& k : c.sec[1]) {
        if (k.type == KT::BOX) o << " BOX" << boxTok(k.box);
        else if (k.type == KT::ENDBOX) o << " ENDBOX";
        else if (k.type == KT::TDAT) {
            o << " TDAT " << tranDir(k.name) << " " << k.data.size();
            for (const auto& d : k.data) { if (d.st == 'e') o << " e"; else o << " " << d.st << vh::hexF64(d.d); }
        } else if (k.type == KT::SCAL && hasTranRec(k)) {
            o << " TOP " << k.name << " " << k.recs.size();
            for (const auto& r : k.recs) o << " " << tranDir(r.a) << " " << vh::hexF64(r.val) << boxTok(r.box);
        }
    }
    o << " X";
    for (double v : c.tranData) o << " " << vh::hexF64(v);
    return o.str();
}

static std::string showTran(const Outcome& r) {
    std::string s = "ok";
    for (int d = 0; d < 3; ++d) {
        const auto& o = r.tran[d];
        s += std::string(" ") + (o.active ? "1" : "0") + ":";
        std::string a;
        for (const auto& p : o.actions) { if (!a.empty()) a += ","; a += p.first + "." + p.second; }
        s += (a.empty() ? "-" : a) + ":";
        std::string h;
        for (double v : o.out) h += hexCanon(v);
        s += h.empty() ? "-" : h;
    }
    return s;
}

// The property's own statement for the calculators, in plain C++ on the GLOBAL grid: every record of every keyword is
// applied, in input order, directly to the array handed in, cell by cell over the record's box.  `loose[d][g]` marks
// cells where one ADD / MULTIPLY keyword covers the cell with two or more records: the code combines those inside
// the scratch array first ((v1 + v2) + x instead of (x + v1) + v2), which may differ in the last bits.
struct TranRef { std::vector<double> v[3]; std::vector<char> loose[3]; int nact[3] = { 0, 0, 0 }; };
static TranRef tranReference(const Case& c) {
    TranRef t;
    const int n = c.nx * c.ny * c.nz;
    for (int d = 0; d < 3; ++d) { t.v[d] = c.tranData; t.loose[d].assign(n, 0); }
    BoxTrack sec(c);
    for (const auto& k : c.sec[1]) {
        if (k.type == KT::BOX) { if (!sec.update(k.box)) throw RefErr{}; }
        else if (k.type == KT::ENDBOX) sec.global();
        else if (k.type == KT::TDAT) {
            const int d = tranDir(k.name);
            if ((int) k.data.size() != sec.size()) throw RefErr{};
            sec.each([&](int g, int pos) { if (k.data[pos].st == 'v') t.v[d][g] = k.data[pos].d * TRAN_SI; });
            t.nact[d]++;
        } else if (k.type == KT::SCAL && hasTranRec(k)) {
            BoxTrack rb = sec;
            bool seen[3] = { false, false, false };
            std::vector<int> cover[3];
            for (const auto& r : k.recs) {
                if (!rb.update(r.box)) throw RefErr{};
                const int d = tranDir(r.a);
                if (d > 2) continue;
                if (!seen[d]) { seen[d] = true; t.nact[d]++; cover[d].assign(n, 0); }
                const double x = (k.name == "MULTIPLY") ? r.val : r.val * TRAN_SI;
                rb.each([&](int g, int) {
                    double& v = t.v[d][g];
                    if (k.name == "EQUALS") v = x;
                    else if (k.name == "ADD") v += x;
                    else if (k.name == "MULTIPLY") v *= x;
                    else if (k.name == "MINVALUE") v = std::max(v, x);
                    else if (k.name == "MAXVALUE") v = std::min(v, x);
                    if ((k.name == "ADD" || k.name == "MULTIPLY") && ++cover[d][g] >= 2) t.loose[d][g] = 1;
                });
            }
        }
    }
    return t;
}

static bool closeEnough(double a, double b) { return a == b || std::fabs(a - b) <= 8 * std::numeric_limits<double>::epsilon() * std::max(std::fabs(a), std::fabs(b)); }

// ---- SCHEDULE-section multipliers

static void genSched(Case& c, vh::Rng& rng, std::map<std::string, long>& st) {
    BoxTrack bt(c);
    std::vector<BoxItems> used;
    const int nk = rng.range(0, 6);
    std::string last;
    for (int q = 0; q < nk; ++q) {
        KwOp k;
        const int kind = rng.range(0, 9);
        if (kind == 0) { k.type = KT::BOX; k.box = validBox(rng, c, used); bt.update(k.box); }
        else if (kind == 1) { k.type = KT::ENDBOX; bt.global(); }
        else {
            k.type = KT::DATD;
            k.name = (!last.empty() && rng.coin(1, 3)) ? last : std::string(SCHED_MULT[rng.range(0, 5)]);
            if (k.name == last) st["sched.gen.same-keyword-again"]++;
            last = k.name;
            int cnt = bt.size();
            if (rng.coin(1, 20)) { cnt += rng.coin() ? 1 : -1; st["sched.gen.wrong-count"]++; }
            k.data.resize(std::max(cnt, 0));
            for (auto& d : k.data) {
                if (rng.coin(1, 5)) { d.st = 'd'; d.d = 1.0; }       // n*: the parser's keyword default
                else { d.st = 'v'; d.d = rng.range(0, 24) / 8.0; }
            }
            st["sched.gen.data-keyword"]++;
        }
        c.sched.push_back(k);
    }
    if (c.sched.empty()) { KwOp k; k.type = KT::ENDBOX; c.sched.push_back(k); st["sched.gen.no-data-keyword"]++; }
}

static std::string schedText(const Case& c) {
    std::ostringstream o;
    o << "SCHEDULE\n";
    for (const auto& k : c.sched) {
        if (k.type == KT::BOX) o << "BOX\n" << boxText(k.box) << " /\n";
        else if (k.type == KT::ENDBOX) o << "ENDBOX\n";
        else o << k.name << "\n" << dataText(k.data, false) << " /\n";
    }
    return o.str();
}

static std::string cellsHex(const std::vector<OCell<double>>& cs) {
    std::string s;
    for (const auto& x : cs) s += std::string(1, x.st) + hexCanon(x.v);
    return s.empty() ? "-" : s;
}

static std::string schedTokens(const Case& c, const Outcome& r) {
    std::ostringstream o;
    o << c.nx << " " << c.ny << " " << c.nz << " ";
    for (int a : r.act) o << (a ? '1' : '0');
    o << " " << vh::hexF64(1.0);
    for (const auto& p : r.schedPre) {
        o << " ARR " << p.first << " " << p.second.size();
        for (const auto& x : p.second) o << " " << x.st << vh::hexF64(x.v);
    }
    o << " K";
    for (const auto& k : c.sched) {
        if (k.type == KT::BOX) o << " BOX" << boxTok(k.box);
        else if (k.type == KT::ENDBOX) o << " ENDBOX";
        else {
            o << " DATD " << k.name << " " << k.data.size();
            for (const auto& d : k.data) { if (d.st == 'e') o << " e"; else o << " " << d.st << vh::hexF64(d.d); }
        }
    }
    o << " END";
    return o.str();
}

// arrays in the order the model lists them: those that existed, then the new ones in order of first appearance
static std::string showSched(const Case& c, const Outcome& r) {
    if (!r.schedOk) return "err";
    std::vector<std::string> names;
    for (const auto& p : r.schedPre) names.push_back(p.first);
    for (const auto& k : c.sched) if (k.type == KT::DATD && std::find(names.begin(), names.end(), k.name) == names.end()) names.push_back(k.name);
    std::string s = "ok";
    for (const auto& nme : names)
        for (const auto& p : r.schedPost) if (p.first == nme) s += " " + nme + ":" + cellsHex(p.second);
    return s;
}

// the statement for the SCHEDULE multipliers in plain C++ (global grid): every array that exists restarts from 1,
// every data keyword multiplies its entries into the cells of the current box, in input order
static std::string schedReference(const Case& c, const Outcome& r) {
    const int n = c.nx * c.ny * c.nz;
    std::vector<std::string> names;
    std::map<std::string, std::vector<OCell<double>>> a;
    for (const auto& p : r.schedPre) { names.push_back(p.first); a[p.first].assign(n, OCell<double>{ 'd', 1.0 }); }
    BoxTrack bt(c);
    for (const auto& k : c.sched) {
        if (k.type == KT::BOX) { if (!bt.update(k.box)) return "err"; }
        else if (k.type == KT::ENDBOX) bt.global();
        else {
            if ((int) k.data.size() != bt.size()) return "err";
            if (!a.count(k.name)) { names.push_back(k.name); a[k.name].assign(n, OCell<double>{ 'd', 1.0 }); }
            auto& x = a[k.name];
            bt.each([&](int g, int pos) { x[g].v *= k.data[pos].d; x[g].st = k.data[pos].st; });
        }
    }
    std::string s = "ok";
    for (const auto& nme : names) {
        std::vector<OCell<double>> act;
        for (int g = 0; g < n; ++g) if (r.act[g]) act.push_back(a[nme][g]);
        s += " " + nme + ":" + cellsHex(act);
    }
    return s;
}

static const char* UNITS_OF[4] = { "METRIC", "FIELD", "LAB", "METRIC" };

// one random case of the run: unit system (interleaved within the process), ordinary program, TRAN edits, SCHEDULE keywords
static Case fullCase(Gen& gen, vh::Rng& rng, std::map<std::string, long>& st) {
    const std::string u = UNITS_OF[rng.range(0, 3)];
    useUnits(u);
    st["units." + u]++;
    Case c = gen.randCase(true);
    c.units = u;
    injectTran(c, rng, st);
    if (rng.coin(1, 3)) genSched(c, rng, st);
    return c;
}

// ---------------------------------------------------------------------------------------------
// Fixed witnesses of the three defects found while building this check (design.d/C12.md; fixed in the code by
// 5ceb9fc1d, d8c0ea4e0, 0679405ff).  Always evaluated by property mode.

static std::optional<std::vector<double>> realGetDouble(const std::string& deckStr, const std::string& kw) {
    try {
        ParseContext pc;
        ErrorGuard eg;
        auto deck = theParser().parseString(deckStr, pc, eg);
        EclipseState es(deck);
        return es.fieldProps().get_double(kw);
    } catch (const std::exception&) {
        return std::nullopt;
    }
}

static std::string smallDeck(const std::string& dimens, int n, const std::string& grid, const std::string& runspecExtra = "",
                             const std::string& tail = "PROPS\nREGIONS\nSOLUTION\n") {
    std::ostringstream o;
    o << "RUNSPEC\nDIMENS\n " << dimens << " /\nOIL\nGAS\n" << runspecExtra << "METRIC\nGRID\nDX\n " << n << "*1 /\nDY\n " << n
      << "*1 /\nDZ\n " << n << "*1 /\nTOPS\n " << n << "*1000 /\n" << grid << tail;
    return o.str();
}

static bool sameBits(const std::vector<double>& a, const std::vector<double>& b) {
    if (a.size() != b.size()) return false;
    for (size_t i = 0; i < a.size(); ++i) if (hexCanon(a[i]) != hexCanon(b[i])) return false;
    return true;
}

static void runWitnesses(vh::PropLog& log, std::map<std::string, long>& stats) {
    const double mD = DBL.at("PERMX").scale;
    // (a) a region operation followed by a box operation on an array with global storage
    {
        const std::string g = "PORO\n 2*0.3 /\nFLUXNUM\n 2*1 /\nEQUALREG\n PERMX 100 1 F /\n/\nMULTIPLY\n PERMX 2 /\n/\n";
        const auto v = realGetDouble(smallDeck("2 1 1", 2, g, "WATER\n"), "PERMX");
        const double e = (100.0 * mD) * 2.0;
        if (!v) log.fail("witness.region-then-box", "EQUALREG PERMX 100 1 F; MULTIPLY PERMX 2 is rejected (stale global status)");
        else if (!sameBits(*v, { e, e })) log.fail("witness.region-then-box", "PERMX after EQUALREG 100 and MULTIPLY 2 is not 200 mD in both cells");
        else log.ok();
        stats["witness.region-then-box"]++;
    }
    // (b) "distribute top layer" with the top cell inactive vs active: the lower cell must not notice
    {
        auto deck = [&](const std::string& act) {
            return smallDeck("1 1 2", 2, "ACTNUM\n " + act + " /\nPORO\n 2*0.3 /\nBOX\n 1 1 1 1 1 1 /\nPERMY\n 100 /\nENDBOX\n"
                             "BOX\n 1 1 1 1 2 2 /\nPERMY\n 1* /\nENDBOX\n", "WATER\n");
        };
        const auto a = realGetDouble(deck("0 1"), "PERMY"), b = realGetDouble(deck("1 1"), "PERMY");
        if (!a || !b || a->size() != 1 || b->size() != 2) log.fail("witness.toplayer-inactive", "top-layer decks rejected or of unexpected size");
        else if (hexCanon((*a)[0]) != hexCanon((*b)[1]))
            log.fail("witness.toplayer-inactive", "lower cell PERMY " + hexCanon((*a)[0]) + " with the top cell inactive, " + hexCanon((*b)[1]) + " with it active");
        else log.ok();
        stats["witness.toplayer-inactive"]++;
    }
    // (c) a multi-valued (compositional) keyword on a grid with an inactive cell
    {
        const std::string g = "ACTNUM\n 1 0 1 1 /\nPORO\n 4*0.3 /\nPERMX\n 4*100 /\nPERMY\n 4*100 /\nPERMZ\n 4*100 /\n";
        const std::string tail =
            "PROPS\nCNAMES\n DECANE CO2 METHANE /\nROCK\n 68 0 /\nEOS\n PR /\nBIC\n 0 1 2 /\nACF\n 0.4 0.2 0.01 /\nPCRIT\n 20. 70. 40. /\n"
            "TCRIT\n 600. 300. 190. /\nMW\n 142. 44. 16. /\nVCRIT\n 0.6 0.1 0.1 /\nSTCOND\n 15.0 /\n"
            "SGOF\n 0.0 0.0 1.0 0.0\n 1.0 1.0 0.0 0.0 /\nREGIONS\nSOLUTION\nPRESSURE\n 4*100 /\nSGAS\n 4*1. /\nTEMPI\n 4*150 /\n"
            "XMF\n 0.11 0.12 0.13 0.14\n 0.21 0.22 0.23 0.24\n 0.31 0.32 0.33 0.34 /\n";
        const auto v = realGetDouble(smallDeck("4 1 1", 4, g, "COMPS\n 3 /\nTABDIMS\n 8* 1 3 /\n", tail), "XMF");
        if (!v) log.fail("witness.multivalue-inactive", "compositional deck with ACTNUM 1 0 1 1 rejected");
        else if (!sameBits(*v, { 0.11, 0.13, 0.14, 0.21, 0.23, 0.24, 0.31, 0.33, 0.34 }))
            log.fail("witness.multivalue-inactive", "XMF is not the component-major list of the three active cells");
        else log.ok();
        stats["witness.multivalue-inactive"]++;
    }
    // (e) the same (region set, id) named again after the region array itself was rewritten by COPY / COPYREG
    //     (seeded change C12-4: a memo of region_index that COPY into an integer array does not drop)
    {
        const std::string head = "PORO\n 3*0.3 /\nFLUXNUM\n 1 2 2 /\nMULTNUM\n 2 1 1 /\nEQUALREG\n NTG 0.5 2 M /\n/\n";
        const auto a = realGetDouble(smallDeck("3 1 1", 3, head + "COPY\n FLUXNUM MULTNUM /\n/\nEQUALREG\n NTG 0.25 2 M /\n/\n", "WATER\n"), "NTG");
        if (!a) log.fail("witness.region-key-after-copy", "EQUALREG, COPY FLUXNUM MULTNUM, EQUALREG is rejected");
        else if (!sameBits(*a, { 0.5, 0.25, 0.25 })) log.fail("witness.region-key-after-copy", "NTG after EQUALREG 0.5 (MULTNUM 2), COPY FLUXNUM MULTNUM, EQUALREG 0.25 (MULTNUM 2) is not 0.5 0.25 0.25");
        else log.ok();
        const auto b = realGetDouble(smallDeck("3 1 1", 3, head + "COPYREG\n FLUXNUM MULTNUM 1 F /\n/\nEQUALREG\n NTG 0.25 2 M /\n/\n", "WATER\n"), "NTG");
        if (!b) log.fail("witness.region-key-after-copyreg", "EQUALREG, COPYREG FLUXNUM MULTNUM 1 F, EQUALREG is rejected");
        else if (!sameBits(*b, { 0.5, 1.0, 1.0 })) log.fail("witness.region-key-after-copyreg", "NTG after EQUALREG 0.5 (MULTNUM 2), COPYREG FLUXNUM MULTNUM 1 F (no cell left with MULTNUM 2), EQUALREG 0.25 (MULTNUM 2) is not 0.5 1 1");
        else log.ok();
        stats["witness.region-key-after-copy"]++;
    }
    // (d) ADD on an array whose deck unit has an offset: the shift is a temperature difference
    //     (50 C + 10 C = 60 C = 333.15 K; the full conversion of the shift would add 273.15 twice)
    {
        const std::string tail = "PROPS\nREGIONS\nSOLUTION\nTEMPI\n 2*50 /\nADD\n TEMPI 10 /\n/\n";
        const auto v = realGetDouble(smallDeck("2 1 1", 2, "PORO\n 2*0.3 /\n", "WATER\nTHERMAL\n", tail), "TEMPI");
        if (!v || v->size() != 2) log.fail("witness.add-temperature", "TEMPI deck with ADD rejected");
        else if (std::fabs((*v)[0] - 333.15) > 1e-9 || std::fabs((*v)[1] - 333.15) > 1e-9)
            log.fail("witness.add-temperature", "TEMPI 50 C + ADD 10 gives " + std::to_string((*v)[0]) + " K, expected 333.15 K");
        else log.ok();
        stats["witness.add-temperature"]++;
    }
    // (e) TRANZ given as a data keyword in EDIT, then the simulator's PINCH path FieldPropsManager::apply_tranz_global:
    //     must give what `EQUALS TRANZ` gives (the data keyword's scratch array had no global storage: SIGSEGV, which
    //     ends this harness with the deck below as the killing input)
    {
        auto run = [&](const std::string& edit, std::vector<double>& out) -> bool {
            const std::string deck = "RUNSPEC\nDIMENS\n 2 1 2 /\nOIL\nWATER\nMETRIC\nGRID\nDX\n 4*1 /\nDY\n 4*1 /\nDZ\n 4*1 /\nTOPS\n 2*1000 /\nPORO\n 4*0.3 /\nEDIT\n" + edit;
            if (!CURRENT_INPUT.empty()) vh::spit(CURRENT_INPUT, deck);
            try {
                Parser p; auto d = p.parseString(deck); EclipseState es(d);
                out = { 10, 20, 30, 40 };
                es.fieldProps().apply_tranz_global({ 0, 1, 2, 3 }, out);
                return true;
            } catch (const std::exception&) { return false; }
        };
        std::vector<double> a, b;
        const bool ra = run("TRANZ\n 4*5 /\n", a), rb = run("EQUALS\n TRANZ 5 /\n/\n", b);
        if (!ra || !rb) log.fail("witness.tranz-data-global", std::string("apply_tranz_global throws: data keyword ") + (ra ? "ok" : "throws") + ", EQUALS " + (rb ? "ok" : "throws"));
        else if (a != b) log.fail("witness.tranz-data-global", "TRANZ 4*5 gives " + std::to_string(a[0]) + ", EQUALS TRANZ 5 gives " + std::to_string(b[0]));
        else log.ok();
        stats["witness.tranz-data-global"]++;
    }
}

static int ncases(const std::string& tier, int quick, int thorough) { return tier == "thorough" ? thorough : quick; }

int main(int argc, char** argv) {
    if (argc < 2) { std::cerr << "usage: fieldprops corr|prop <seed> <tier> <outdir>\n"; return 2; }
    OpmLog::removeAllBackends();
    declareKeywords();
    const std::string mode = argv[1];

    if (mode == "one") {
        const std::string text = vh::slurp(argv[2]);
        Outcome r = runReal(text, 0);
        std::cout << showOutcome(r) << "\n";
        return 0;
    }
    if (argc < 5) return 2;
    const uint64_t seed = std::stoull(argv[2]);
    const std::string tier = argv[3], outdir = argv[4];
    vh::Rng rng(seed * 7919 + (mode == "corr" ? 1 : 2));
    CURRENT_INPUT = outdir + "/current_input.DATA";

    if (mode == "corr") {
        vh::Sink sink(outdir);
        Gen gen(rng, sink.stats);
        const int n = ncases(tier, 350, 4000);
        for (int j = 0; j < n; ++j) {
            const Case c = fullCase(gen, rng, sink.stats);
            const Case plain = stripTran(c);        // what the ordinary arrays see
            countCase(sink.stats, plain);
            (void) runRefCounting(sink.stats, plain);
            const std::string deck = deckText(c);
            const Outcome real = runReal(deck, c.nx * c.ny * c.nz, &c);
            const std::string ans = showOutcome(real);
            const std::string toks = caseTokens(plain);
            sink.emit("fieldprops.impl " + toks, ans);
            sink.emit("fieldprops.ref " + toks, ans);
            sink.count(real.ok ? "answer.ok" : "answer.err");
            if (real.ok && real.hasTran) {
                const std::string tt = tranTokens(c, real.act0, real.act), ta = showTran(real);
                sink.emit("fieldprops.tranI " + tt, ta);
                sink.emit("fieldprops.tranR " + tt, ta);
                sink.count("tran.lines");
                for (int d = 0; d < 3; ++d) sink.count("tran.actions." + std::to_string(std::min<size_t>(real.tran[d].actions.size(), 4)));
                if (real.act0 != real.act) sink.count("tran.cells-removed-after-edit");
            }
            if (real.ok && real.hasSched) {
                const std::string stt = schedTokens(c, real), sa = showSched(c, real);
                sink.emit("fieldprops.schedI " + stt, sa);
                sink.emit("fieldprops.schedR " + stt, sa);
                sink.count(real.schedOk ? "sched.ok" : "sched.err");
            }
            if (j < 3) vh::spit(outdir + "/sample" + std::to_string(j) + ".DATA", deck);
        }
        // Box::initIndexList on its own: the real Box class with an arbitrary active map, every triple compared
        const int nidx = ncases(tier, 250, 3000);
        for (int j = 0; j < nidx; ++j) {
            const int nx = rng.range(1, 6), ny = rng.range(1, 6), nz = rng.range(1, 6);
            const int n = nx * ny * nz;
            std::vector<int> act(n), rank(n, 0);
            const int dens = rng.pick(std::vector<int>{ 100, 80, 50, 20, 0 });
            for (auto& a : act) a = (int) rng.below(100) < dens;
            { int r = 0; for (int g = 0; g < n; ++g) { rank[g] = r; r += act[g]; } }
            int bx[6];
            const int dims[3] = { nx, ny, nz };
            for (int a = 0; a < 3; ++a) {
                int lo = rng.range(0, dims[a] - 1), hi = rng.range(0, dims[a] - 1);
                if (lo > hi && !rng.coin(1, 20)) std::swap(lo, hi);
                if (rng.coin(1, 25)) hi = dims[a];
                if (rng.coin(1, 25)) lo = -1;
                bx[2 * a] = lo; bx[2 * a + 1] = hi;
            }
            std::string ans;
            try {
                Box box(GridDims(nx, ny, nz),
                        [&act](const std::size_t g) { return act[g] != 0; },
                        [&rank](const std::size_t g) { return static_cast<std::size_t>(rank[g]); },
                        bx[0], bx[1], bx[2], bx[3], bx[4], bx[5]);
                for (const auto& ci : box.index_list()) {
                    if (!ans.empty()) ans += ",";
                    ans += std::to_string(ci.global_index) + ":" + std::to_string(ci.active_index) + ":" + std::to_string(ci.data_index);
                }
                if (ans.empty()) ans = "-";
                sink.count("idx.ok");
            } catch (const std::exception&) { ans = "err"; sink.count("idx.err"); }
            std::ostringstream o;
            o << "fieldprops.idx " << nx << " " << ny << " " << nz << " ";
            for (int a : act) o << (a ? '1' : '0');
            for (int q = 0; q < 6; ++q) o << " " << bx[q];
            sink.emit(o.str(), ans);
        }
        // BoxManager: random call histories on the real class, the active box's index list after every call
        const int nmgr = ncases(tier, 80, 1000);
        for (int j = 0; j < nmgr; ++j) {
            const int nx = rng.range(1, 5), ny = rng.range(1, 5), nz = rng.range(1, 4);
            const int n = nx * ny * nz;
            std::vector<int> act(n), rank(n, 0);
            const int dens = rng.pick(std::vector<int>{ 100, 70, 40 });
            for (auto& a : act) a = (int) rng.below(100) < dens;
            { int r = 0; for (int g = 0; g < n; ++g) { rank[g] = r; r += act[g]; } }
            BoxManager mgr(GridDims(nx, ny, nz),
                           [&act](const std::size_t g) { return act[g] != 0; },
                           [&rank](const std::size_t g) { return static_cast<std::size_t>(rank[g]); });
            std::ostringstream o;
            o << "fieldprops.mgr " << nx << " " << ny << " " << nz << " ";
            for (int a : act) o << (a ? '1' : '0');
            std::string ans;
            const int dims[3] = { nx, ny, nz };
            const int ncalls = rng.range(1, 10);
            for (int q = 0; q < ncalls; ++q) {
                const int kind = rng.range(0, 6);
                int bx[6] = { 0, 0, 0, 0, 0, 0 };
                for (int a = 0; a < 3; ++a) {
                    int lo = rng.range(0, dims[a] - 1), hi = rng.range(0, dims[a] - 1);
                    if (lo > hi && !rng.coin(1, 15)) std::swap(lo, hi);
                    if (rng.coin(1, 30)) hi = dims[a];
                    bx[2 * a] = lo; bx[2 * a + 1] = hi;
                }
                std::string step;
                try {
                    if (kind <= 1) { o << " I"; for (int v : bx) o << " " << v; mgr.setInputBox(bx[0], bx[1], bx[2], bx[3], bx[4], bx[5]); }
                    else if (kind <= 3) { o << " K"; for (int v : bx) o << " " << v; mgr.setKeywordBox(bx[0], bx[1], bx[2], bx[3], bx[4], bx[5]); }
                    else if (kind == 4) { o << " EI"; mgr.endInputBox(); }
                    else if (kind == 5) { o << " EK"; mgr.endKeyword(); }
                    else { o << " ES"; mgr.endSection(); }
                    for (const auto& ci : mgr.index_list()) {
                        if (!step.empty()) step += ",";
                        step += std::to_string(ci.global_index) + ":" + std::to_string(ci.active_index) + ":" + std::to_string(ci.data_index);
                    }
                    if (step.empty()) step = "-";
                    sink.count("mgr.call.ok");
                } catch (const std::exception&) { step = "err"; sink.count("mgr.call.err"); }
                if (!ans.empty()) ans += ";";
                ans += step;
            }
            sink.emit(o.str(), ans);
        }
        sink.writeStats(outdir + "/stats.json");
        std::remove(CURRENT_INPUT.c_str());
        return 0;
    }

    if (mode == "prop") {
        vh::PropLog log(outdir + "/prop.txt");
        std::map<std::string, long> stats;
        Gen gen(rng, stats);
        runWitnesses(log, stats);
        const int n = ncases(tier, 300, 3500);
        for (int j = 0; j < n; ++j) {
            const Case c = fullCase(gen, rng, stats);
            const Case plain = stripTran(c);
            countCase(stats, plain);
            const std::string deck = deckText(c);
            const std::string key = "case" + std::to_string(j);
            const Outcome real = runReal(deck, c.nx * c.ny * c.nz, &c);
            const Outcome ref = runRefCounting(stats, plain);
            // (1t) transmissibility calculators: every record of every TRAN keyword applied in input order, cell by cell,
            // to the array handed in; one action per keyword and direction; an untouched direction is inactive and the identity
            if (real.ok && real.hasTran) {
                std::string why;
                try {
                    const TranRef t = tranReference(c);
                    for (int d = 0; d < 3 && why.empty(); ++d) {
                        const auto& o = real.tran[d];
                        if ((int) o.actions.size() != t.nact[d]) why = std::string(TRAN_NAME[d]) + ": " + std::to_string(o.actions.size()) + " actions recorded, " + std::to_string(t.nact[d]) + " keywords name it";
                        if (o.active != (t.nact[d] > 0)) why = std::string(TRAN_NAME[d]) + ": tran_active wrong";
                        std::set<std::string> names;
                        for (const auto& a : o.actions) names.insert(a.second);
                        if (names.size() != o.actions.size()) why = std::string(TRAN_NAME[d]) + ": scratch array name used twice";
                        size_t ai = 0;
                        for (size_t g = 0; g < real.act.size() && why.empty(); ++g) {
                            if (!real.act[g]) continue;
                            const double x = o.out[ai++], y = t.v[d][g];
                            const bool same = t.loose[d][g] ? closeEnough(x, y) : hexCanon(x) == hexCanon(y);
                            if (!same) why = std::string(TRAN_NAME[d]) + " global cell " + std::to_string(g) + ": real " + hexCanon(x) + " sequential " + hexCanon(y);
                            if (t.nact[d] == 0 && hexCanon(x) != hexCanon(c.tranData[g])) why = std::string(TRAN_NAME[d]) + ": no edit but cell " + std::to_string(g) + " changed";
                            stats[t.loose[d][g] ? "tran.cells.compared-loosely" : "tran.cells.compared-bitwise"]++;
                        }
                    }
                } catch (const RefErr&) { why = "accepted by the real code, a TRAN keyword is rejected by the reference"; }
                if (!why.empty()) {
                    vh::spit(outdir + "/" + key + ".DATA", deck);
                    log.fail("tran.sequential." + key, why + "; deck=" + outdir + "/" + key + ".DATA");
                } else log.ok();
                stats["tran.compared"]++;
            }
            // (1s) SCHEDULE-section multipliers
            if (real.ok && real.hasSched) {
                const std::string x = showSched(c, real), y = schedReference(c, real);
                if (x != y) {
                    vh::spit(outdir + "/" + key + ".DATA", deck + schedText(c));
                    size_t p = 0; while (p < x.size() && p < y.size() && x[p] == y[p]) ++p;
                    log.fail("sched.sequential." + key, "real and reference differ at char " + std::to_string(p) + ": real=" + x.substr(p > 30 ? p - 30 : 0, 90) +
                             " ref=" + y.substr(p > 30 ? p - 30 : 0, 90) + " deck=" + outdir + "/" + key + ".DATA");
                } else log.ok();
                stats[real.schedOk ? "sched.ok" : "sched.err"]++;
            }
            // (1) sequential application on the global grid
            const std::string a = showOutcome(real), b = showOutcome(ref);
            if (a != b) {
                vh::spit(outdir + "/" + key + ".DATA", deck);
                size_t p = 0; while (p < a.size() && p < b.size() && a[p] == b[p]) ++p;
                log.fail("sequential." + key, "real and reference interpreter differ at char " + std::to_string(p) + ": real=" +
                         a.substr(p > 30 ? p - 30 : 0, 90) + " ref=" + b.substr(p > 30 ? p - 30 : 0, 90) + " deck=" + outdir + "/" + key + ".DATA");
            } else log.ok();
            stats[real.ok ? "real.ok" : "real.err"]++;
            // (2) independence of inactive cells: the same program with every cell active
            Case full = c;
            for (auto& x : full.actnum) x = 1;
            for (auto& k : full.sec[0]) {
                if (k.type == KT::DATI && k.name == "ACTNUM") for (auto& d : k.data) d.i = 1;
                if (k.type == KT::SCAL && k.name == "EQUALS") for (auto& r : k.recs) if (r.a == "ACTNUM") r.val = 1.0;
            }
            bool same = true;
            for (int x : c.actnum) same = same && x;
            if (same) continue;
            Case fullNoSched = full; fullNoSched.sched.clear();
            const Outcome rf = runReal(deckText(full), c.nx * c.ny * c.nz, &fullNoSched);
            // Documented limitation of the code (FieldProps.cpp, handle_region_operation: "Region operation on 3D
            // field {} with global storage will not update inactive cells"): after EQUALREG/ADDREG/MULTIREG/OPERATER
            // on PERMX/Y/Z or MULTZ the global storage of INACTIVE cells stays undefined, so a later box operation
            // over such a cell is rejected although the all-active run is accepted.  Only this verdict clause is
            // waived, and only for programs containing such a region operation.
            bool regionOnGlobal = false;
            for (int sct = 0; sct < 5; ++sct) for (const auto& k : c.sec[sct])
                if (k.type == KT::SREG || k.type == KT::OPRR) for (const auto& r : k.recs) if (isGlob(r.a)) regionOnGlobal = true;
            if (rf.ok && !real.ok && regionOnGlobal) { stats["inactive.verdict-waived-region-on-global-storage"]++; continue; }
            if (rf.ok && !real.ok) {
                vh::spit(outdir + "/" + key + ".DATA", deck);
                log.fail("inactive.verdict." + key, "accepted with all cells active but rejected with ACTNUM; deck=" + outdir + "/" + key + ".DATA");
                continue;
            }
            if (!(rf.ok && real.ok)) { stats["inactive.not-both-ok"]++; log.ok(); continue; }
            // map active index -> global for both runs
            std::vector<int> posA(real.act.size(), -1), posF(rf.act.size(), -1);
            { int a1 = 0, a2 = 0; for (size_t g = 0; g < real.act.size(); ++g) { if (real.act[g]) posA[g] = a1++; if (rf.act[g]) posF[g] = a2++; } }
            std::string why;
            for (size_t g = 0; g < real.act.size() && why.empty(); ++g) {
                if (real.act[g] && !rf.act[g]) why = "cell " + std::to_string(g) + " active with ACTNUM but not in the all-active run";
                if (!(real.act[g] && rf.act[g])) continue;
                for (const auto& k : DBL_ORDER) {
                    const auto& x = real.d.at(k).cells[posA[g]]; const auto& y = rf.d.at(k).cells[posF[g]];
                    if (x.st != y.st || hexCanon(x.v) != hexCanon(y.v)) { why = k + " differs in global cell " + std::to_string(g); break; }
                }
                for (const auto& k : INT_ORDER) {
                    if (k == "ACTNUM") continue;
                    const auto& ox = real.i.at(k); const auto& oy = rf.i.at(k);
                    if (!(ox.valid && oy.valid)) continue;
                    const auto& x = ox.cells[posA[g]]; const auto& y = oy.cells[posF[g]];
                    if (x.st != y.st || x.v != y.v) { why = k + " differs in global cell " + std::to_string(g); break; }
                }
            }
            // the calculators applied to the same global array: equal at every cell active in both runs
            if (why.empty() && real.hasTran && rf.hasTran) {
                for (int d = 0; d < 3 && why.empty(); ++d) {
                    if (real.tran[d].actions != rf.tran[d].actions) why = std::string(TRAN_NAME[d]) + ": action list depends on the ACTNUM";
                    for (size_t g = 0; g < real.act.size() && why.empty(); ++g)
                        if (real.act[g] && rf.act[g] && hexCanon(real.tran[d].out[posA[g]]) != hexCanon(rf.tran[d].out[posF[g]]))
                            why = std::string(TRAN_NAME[d]) + " after apply_tran differs in global cell " + std::to_string(g);
                }
                stats["inactive.tran-compared"]++;
            }
            if (!why.empty()) {
                vh::spit(outdir + "/" + key + ".DATA", deck);
                log.fail("inactive.value." + key, why + "; deck=" + outdir + "/" + key + ".DATA");
            } else log.ok();
            stats["inactive.compared"]++;
        }
        std::ofstream st(outdir + "/prop_stats.json");
        st << "{\n  \"checked\": " << log.checked << ",\n  \"failed\": " << log.failed;
        for (auto& kv : stats) st << ",\n  \"" << kv.first << "\": " << kv.second;
        st << "\n}\n";
        std::remove(CURRENT_INPUT.c_str());
        return 0;
    }
    std::cerr << "unknown mode\n";
    return 2;
}
