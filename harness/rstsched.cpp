// C05 harness, second sentence of the property: "... and the same schedule".
//
//   rstsched prop <seed> <tier> <outdir>     prop.txt / prop_stats.json
//   rstsched one  <deck> <step> [seed]       debugging: print every difference for one deck / restart step
//
// For generated models over the restart-supported keyword set and for shipped decks under tests/:
//   1. build the Schedule from the deck and run a small simulator loop on it (random but deterministic
//      SummaryState, UDQ evaluation, ACTIONX evaluation + Schedule::applyAction, as msim/flow do) up to
//      report step n;
//   2. RestartIO::save at report step n; copy the (action-mutated) Schedule, UDQState, Action::State;
//   3. RstState::load + Schedule(deck [+SKIPREST | tail only], &rst_state)  — the restarted Schedule;
//   4. compare member-wise at the step the file was loaded into (n-1) and EVERY later step: wells,
//      connections, segments, group tree, group controls, well lists, UDQ definitions / assignments /
//      active UDAs, ACTIONX definitions, network, guide rate model, gas lift, WTEST; and the restored
//      UDQState / Action::State against the saved ones.
// The first differing member of each (category, member) is reported with step and object name.
#include "common/vh.hpp"

#include <opm/output/eclipse/RestartIO.hpp>
#include <opm/output/eclipse/RestartValue.hpp>
#include <opm/output/eclipse/AggregateAquiferData.hpp>
#include <opm/output/eclipse/AggregateMSWData.hpp>
#include <opm/output/eclipse/WriteRestartHelpers.hpp>
#include <opm/output/eclipse/VectorItems/intehead.hpp>
#include <opm/output/eclipse/VectorItems/msw.hpp>
#include <opm/io/eclipse/rst/segment.hpp>
#include <opm/output/data/Wells.hpp>
#include <opm/output/data/Solution.hpp>
#include <opm/output/data/Groups.hpp>

#include <opm/io/eclipse/OutputStream.hpp>
#include <opm/io/eclipse/rst/state.hpp>
#include <opm/io/eclipse/ERst.hpp>
#include <opm/io/eclipse/RestartFileView.hpp>

#include <opm/input/eclipse/Deck/Deck.hpp>
#include <opm/input/eclipse/Deck/DeckKeyword.hpp>
#include <opm/input/eclipse/Parser/Parser.hpp>
#include <opm/input/eclipse/Parser/ParseContext.hpp>
#include <opm/input/eclipse/Parser/ErrorGuard.hpp>
#include <opm/input/eclipse/Parser/InputErrorAction.hpp>
#include <opm/input/eclipse/Python/Python.hpp>
#include <opm/input/eclipse/EclipseState/EclipseState.hpp>
#include <opm/input/eclipse/EclipseState/Grid/EclipseGrid.hpp>
#include <opm/input/eclipse/EclipseState/IOConfig/IOConfig.hpp>
#include <opm/input/eclipse/Schedule/Schedule.hpp>
#include <opm/input/eclipse/Schedule/ScheduleState.hpp>
#include <opm/input/eclipse/Schedule/SummaryState.hpp>
#include <opm/input/eclipse/Schedule/Action/State.hpp>
#include <opm/input/eclipse/Schedule/Action/Actions.hpp>
#include <opm/input/eclipse/Schedule/Action/ActionX.hpp>
#include <opm/input/eclipse/Schedule/Action/ActionContext.hpp>
#include <opm/input/eclipse/Schedule/Action/ActionResult.hpp>
#include <opm/input/eclipse/Schedule/Action/SimulatorUpdate.hpp>
#include <opm/input/eclipse/Schedule/UDQ/UDQState.hpp>
#include <opm/input/eclipse/Schedule/UDQ/UDQConfig.hpp>
#include <opm/input/eclipse/Schedule/UDQ/UDQActive.hpp>
#include <opm/input/eclipse/Schedule/UDQ/UDQEnums.hpp>
#include <opm/input/eclipse/Schedule/Well/Well.hpp>
#include <opm/input/eclipse/Schedule/Well/WellConnections.hpp>
#include <opm/input/eclipse/Schedule/Well/WellTestState.hpp>
#include <opm/input/eclipse/Schedule/Well/WellTestConfig.hpp>
#include <opm/input/eclipse/Schedule/Well/WellEconProductionLimits.hpp>
#include <opm/input/eclipse/Schedule/Well/WellMatcher.hpp>
#include <opm/input/eclipse/Schedule/Well/WListManager.hpp>
#include <opm/input/eclipse/Schedule/Well/WList.hpp>
#include <opm/input/eclipse/Schedule/Well/NameOrder.hpp>
#include <opm/input/eclipse/Schedule/MSW/WellSegments.hpp>
#include <opm/input/eclipse/Schedule/MSW/Segment.hpp>
#include <opm/input/eclipse/Schedule/MSW/SegmentMatcher.hpp>
#include <opm/input/eclipse/Schedule/MSW/Valve.hpp>
#include <opm/input/eclipse/Schedule/MSW/SICD.hpp>
#include <opm/input/eclipse/Schedule/MSW/AICD.hpp>
#include <opm/input/eclipse/Schedule/Group/Group.hpp>
#include <opm/input/eclipse/Schedule/Group/GuideRateConfig.hpp>
#include <opm/input/eclipse/Schedule/Group/GuideRateModel.hpp>
#include <opm/input/eclipse/Schedule/Group/GConSump.hpp>
#include <opm/input/eclipse/Schedule/GasLiftOpt.hpp>
#include <opm/input/eclipse/Schedule/Network/ExtNetwork.hpp>
#include <opm/input/eclipse/Schedule/Network/Balance.hpp>
#include <opm/input/eclipse/EclipseState/Grid/RegionSetMatcher.hpp>
#include <opm/input/eclipse/Units/UnitSystem.hpp>
#include <opm/common/utility/TimeService.hpp>
#include <opm/common/OpmLog/OpmLog.hpp>

#include <algorithm>
#include <chrono>
#include <cmath>
#include <filesystem>
#include <functional>
#include <iostream>
#include <memory>
#include <optional>
#include <set>
#include <unordered_set>
#include <sstream>

using M = Opm::UnitSystem::measure;

namespace {

#ifndef VERIF_REPO_DIR
#define VERIF_REPO_DIR "/repo"
#endif
#ifndef VERIF_DIR
#define VERIF_DIR "/verif"
#endif

// ---------------------------------------------------------------------------------------------
// observation record of one schedule step

struct Item { std::string cat, obj, member; bool is_num; double d; std::string s; };

struct Dump {
    std::vector<Item> items;
    std::string cat, obj;
    void at(const std::string& c, const std::string& o) { cat = c; obj = o; }
    void num(const std::string& m, double v) { items.push_back({cat, obj, m, true, v, ""}); }
    void str(const std::string& m, const std::string& v) { items.push_back({cat, obj, m, false, 0.0, v}); }
    void i(const std::string& m, long v) { str(m, std::to_string(v)); }
    void b(const std::string& m, bool v) { str(m, v ? "true" : "false"); }
};

std::string join(const std::vector<std::string>& v) { std::string o; for (auto& s : v) { o += (o.empty() ? "" : ","); o += s; } return "[" + o + "]"; }
std::vector<std::string> sorted(std::vector<std::string> v) { std::sort(v.begin(), v.end()); return v; }

std::string phaseName(Opm::Phase p) { return p == Opm::Phase::OIL ? "OIL" : p == Opm::Phase::GAS ? "GAS" : p == Opm::Phase::WATER ? "WATER" : "OTHER"; }

std::string kwText(const Opm::DeckKeyword& kw)
{
    std::ostringstream o;
    o << kw;
    std::string s = o.str(), out;
    bool sp = false;
    for (char c : s) { if (c == '\n' || c == ' ' || c == '\t') { sp = true; continue; } if (sp && !out.empty()) out += ' '; sp = false; out += c; }
    return out;
}

std::string pcmName(Opm::Well::ProducerCMode m) { try { return Opm::WellProducerCMode2String(m); } catch (...) { return "cmode#" + std::to_string(static_cast<int>(m)); } }
std::string icmName(Opm::Well::InjectorCMode m) { try { return Opm::WellInjectorCMode2String(m); } catch (...) { return "cmode#" + std::to_string(static_cast<int>(m)); } }

struct Options {
    bool events = false;        // compare event masks at steps after the restart step
    bool times = true;          // false at the step the file is loaded into: its block is a placeholder that starts at START
    std::time_t restart_time = 0;            // actions: start_time only matters as a lower bound of later evaluation times
    std::set<std::string> stop_as_shut;      // wells written as SHUT because they were stopped without any flowing connection
    std::set<std::string> wlist_names;       // candidate well list names (collected from both schedules)
};

// Which controls of a producer are "observable": the restart file keeps a target only in the slots
// the writer fills, the reader re-derives the control set from the defined targets.
void dump_well(Dump& d, const Opm::Schedule& sched, std::size_t step, const std::string& wname, const Opm::SummaryState& st, const Options& opt)
{
    const auto& w = sched.getWell(wname, step);
    d.at("well", wname);
    d.str("group", w.groupName());
    d.i("headI", w.getHeadI()); d.i("headJ", w.getHeadJ());
    d.b("hasRefDepth", w.hasRefDepth());
    if (w.hasRefDepth()) d.num("refDepth", w.getRefDepth());
    {
        // canonical: STOP == SHUT for a well the writer saw stopped with no flowing connection (IWEL[Status] holds the dynamic state)
        auto stt = w.getStatus();
        if (stt == Opm::Well::Status::STOP && opt.stop_as_shut.count(wname)) stt = Opm::Well::Status::SHUT;
        d.str("status", Opm::WellStatus2String(stt));
    }
    d.b("producer", w.isProducer());
    d.i("ecl_wtype", w.wellType().ecl_wtype());
    d.str("preferred_phase", phaseName(w.getPreferredPhase()));
    d.b("xflow", w.getAllowCrossFlow());
    d.num("drainage_radius", w.getDrainageRadius());
    d.num("efficiency_factor", w.getEfficiencyFactor());
    d.b("prediction_mode", w.predictionMode());
    d.b("available_for_group_control", w.isAvailableForGroupControl());
    d.num("guide_rate", w.getGuideRate());
    d.str("guide_rate_phase", Opm::WellGuideRateTarget2String(w.getGuideRatePhase()));
    d.num("guide_rate_scaling", w.getGuideRateScalingFactor());
    d.i("pvt_table", w.pvt_table_number());
    d.b("msw", w.isMultiSegment());
    if (w.isProducer()) {
        const auto& p = w.getProductionProperties();
        const auto pc = w.productionControls(st);
        d.str("prod.cmode", pcmName(pc.cmode));
        using PC = Opm::Well::ProducerCMode;
        // canonical: a well that has not had any control keyword yet (control mode undefined) and is not open has no control
        // set to speak of: the first WCONPROD / WCONHIST clears whatever is there (clearControls), WCONINJE / WCONINJH set the BHP
        // item unconditionally, and nothing evaluates the targets of a well without a mode.  Well(RstWell) always adds the BHP
        // control with the default limit the writer stores (1 atm), exactly what handleWCONPROD would do first.  Compared for such
        // a well: mode, status, and everything from the step of its first control keyword on.
        const bool uncontrolled = (pc.cmode == PC::CMODE_UNDEFINED) && (w.getStatus() != Opm::Well::Status::OPEN);
        if (!uncontrolled) {
        for (auto [m, nm] : { std::pair<PC, const char*>{PC::ORAT, "ORAT"}, {PC::WRAT, "WRAT"}, {PC::GRAT, "GRAT"}, {PC::LRAT, "LRAT"},
                              {PC::RESV, "RESV"}, {PC::BHP, "BHP"}, {PC::THP, "THP"}, {PC::GRUP, "GRUP"} })
            // canonical: the stored GRUP flag is a snapshot taken when WCONPROD/WCONINJE was read (a later WGRUPCON does not
            // refresh it); the reader derives it from the current availability of prediction wells.  Compared: the derived value.
            d.b(std::string("prod.has.") + nm, m == PC::GRUP ? (w.isAvailableForGroupControl() && w.predictionMode()) : pc.hasControl(m));
        d.num("prod.oil_rate", pc.oil_rate); d.num("prod.water_rate", pc.water_rate); d.num("prod.gas_rate", pc.gas_rate);
        d.num("prod.liquid_rate", pc.liquid_rate); d.num("prod.resv_rate", pc.resv_rate);
        d.num("prod.bhp_limit", pc.bhp_limit); d.num("prod.thp_limit", pc.thp_limit);
        d.i("prod.vfp_table", pc.vfp_table_number); d.num("prod.alq", pc.alq_value);
        }
        d.str("prod.whistctl", pcmName(p.whistctl_cmode));
        if (!w.predictionMode()) { d.num("prod.bhp_hist_limit", p.bhp_hist_limit); d.num("prod.thp_hist_limit", p.thp_hist_limit); }
    } else {
        const auto ic = w.injectionControls(st);
        d.str("inj.cmode", icmName(ic.cmode));
        d.str("inj.type", Opm::InjectorType2String(ic.injector_type));
        using IC = Opm::Well::InjectorCMode;
        const bool uncontrolled = (ic.cmode == IC::CMODE_UNDEFINED) && (w.getStatus() != Opm::Well::Status::OPEN);
        if (!uncontrolled)
        for (auto [m, nm] : { std::pair<IC, const char*>{IC::RATE, "RATE"}, {IC::RESV, "RESV"}, {IC::BHP, "BHP"}, {IC::THP, "THP"}, {IC::GRUP, "GRUP"} })
            d.b(std::string("inj.has.") + nm, m == IC::GRUP ? (w.isAvailableForGroupControl() && w.predictionMode()) : ic.hasControl(m));
        if (!uncontrolled) {
            d.num("inj.surface_rate", ic.surface_rate); d.num("inj.reservoir_rate", ic.reservoir_rate);
            d.num("inj.bhp_limit", ic.bhp_limit); d.num("inj.thp_limit", ic.thp_limit);
            d.i("inj.vfp_table", ic.vfp_table_number);
        }
    }
    {
        const auto& e = w.getEconLimits();
        d.b("econ.onMinOil", e.onMinOilRate()); d.num("econ.minOil", e.minOilRate());
        d.b("econ.onMinGas", e.onMinGasRate()); d.num("econ.minGas", e.minGasRate());
        d.b("econ.onMaxWct", e.onMaxWaterCut()); d.num("econ.maxWct", e.maxWaterCut());
        d.b("econ.onMaxGor", e.onMaxGasOilRatio()); d.num("econ.maxGor", e.maxGasOilRatio());
        d.b("econ.onMaxWgr", e.onMaxWaterGasRatio()); d.num("econ.maxWgr", e.maxWaterGasRatio());
        d.b("econ.onMinLiq", e.onMinLiquidRate()); d.num("econ.minLiq", e.minLiquidRate());
        d.i("econ.workover", static_cast<int>(e.workover())); d.i("econ.workover2", static_cast<int>(e.workoverSecondary()));
        d.b("econ.endRun", e.endRun()); d.i("econ.quantity", static_cast<int>(e.quantityLimit()));
    }
    const auto& conns = w.getConnections();
    d.i("nconn", conns.size());
    d.i("conn_ordering", static_cast<int>(conns.ordering()));
    for (std::size_t c = 0; c < conns.size(); ++c) {
        const auto& cn = conns.get(c);
        d.at("conn", wname + ":" + std::to_string(c));
        d.str("ijk", std::to_string(cn.getI()) + "," + std::to_string(cn.getJ()) + "," + std::to_string(cn.getK()));
        d.str("state", Opm::Connection::State2String(cn.state()));
        d.str("dir", Opm::Connection::Direction2String(cn.dir()));
        d.num("CF", cn.CF()); d.num("Kh", cn.Kh()); d.num("rw", cn.rw()); d.num("skin", cn.skinFactor());
        d.num("depth", cn.depth()); d.i("complnum", cn.complnum()); d.i("segment", cn.segment());
        d.i("satTableId", cn.satTableId()); d.i("kind", static_cast<int>(cn.kind())); d.i("sort_value", cn.sort_value());
        d.num("length", cn.connectionLength());
    }
    if (w.isMultiSegment()) {
        const auto& segs = w.getSegments();
        d.at("segset", wname);
        d.i("nseg", segs.size());
        d.i("comp_pressure_drop", static_cast<int>(segs.compPressureDrop()));
        for (std::size_t s = 0; s < segs.size(); ++s) {
            const auto& sg = segs[s];
            d.at("segment", wname + ":" + std::to_string(s));
            d.i("number", sg.segmentNumber()); d.i("branch", sg.branchNumber()); d.i("outlet", sg.outletSegment());
            d.num("totalLength", sg.totalLength()); d.num("depth", sg.depth()); d.num("diameter", sg.internalDiameter());
            d.num("roughness", sg.roughness()); d.num("crossArea", sg.crossArea()); d.num("volume", sg.volume());
            d.i("type", sg.ecl_type_id());
            if (sg.isValve()) {
                const auto& v = sg.valve();
                d.num("valve.conFlowCoeff", v.conFlowCoefficient()); d.num("valve.conCrossArea", v.conCrossArea());
                d.num("valve.conMaxCrossArea", v.conMaxCrossArea()); d.num("valve.pipeAdditionalLength", v.pipeAdditionalLength());
                d.num("valve.pipeDiameter", v.pipeDiameter()); d.num("valve.pipeRoughness", v.pipeRoughness());
                d.num("valve.pipeCrossArea", v.pipeCrossArea()); d.i("valve.status", static_cast<int>(v.status()));
            }
            if (sg.isSpiralICD()) {
                const auto& v = sg.spiralICD();
                d.num("sicd.strength", v.strength()); d.num("sicd.length", v.length()); d.num("sicd.densityCalibration", v.densityCalibration());
                d.num("sicd.viscosityCalibration", v.viscosityCalibration()); d.num("sicd.criticalValue", v.criticalValue());
                d.num("sicd.widthTransitionRegion", v.widthTransitionRegion()); d.num("sicd.maxViscosityRatio", v.maxViscosityRatio());
                d.i("sicd.methodFlowScaling", v.methodFlowScaling()); d.i("sicd.status", static_cast<int>(v.status()));
                d.num("sicd.maxAbsoluteRate", v.maxAbsoluteRate().value_or(-1.0));
            }
        }
    }
}

void dump_group(Dump& d, const Opm::Schedule& sched, std::size_t step, const std::string& gname, const Opm::SummaryState& st)
{
    const auto& g = sched.getGroup(gname, step);
    d.at("group", gname);
    d.str("parent", g.name() == "FIELD" ? "" : g.parent());
    d.str("child_groups", join(sorted(g.groups())));      // canonical: membership, not insertion order
    d.str("wells", join(sorted(g.wells())));
    d.num("efficiency_factor", g.getGroupEfficiencyFactor());
    d.b("production_group", g.isProductionGroup());
    d.b("injection_group", g.isInjectionGroup());
    if (g.isProductionGroup()) {
        const auto pc = g.productionControls(st);
        // canonical: GCONPROD FLD and NONE share the restart integer 0 (the file keeps "available for higher level control" elsewhere)
        d.str("prod.cmode", (pc.cmode == Opm::Group::ProductionCMode::FLD || pc.cmode == Opm::Group::ProductionCMode::NONE) ? std::string("NONE|FLD") : Opm::Group::ProductionCMode2String(pc.cmode));
        d.num("prod.oil_target", pc.oil_target); d.num("prod.water_target", pc.water_target);
        d.num("prod.gas_target", pc.gas_target); d.num("prod.liquid_target", pc.liquid_target);
        d.num("prod.resv_target", pc.resv_target);
        // NOT compared: pc.guide_rate (GCONPROD item 9) — no restart item holds it (SGRP[prod GuideRate] is never written)
        d.i("prod.guide_rate_def", static_cast<int>(pc.guide_rate_def));
        d.i("prod.controls", pc.production_controls);
        // canonical: for FLD the writer always stores the code of RATE (as ECLIPSE does)
        d.i("prod.exceed.allRates", static_cast<int>(pc.cmode == Opm::Group::ProductionCMode::FLD ? Opm::Group::ExceedAction::RATE : pc.group_limit_action.allRates));
        const bool fld = pc.cmode == Opm::Group::ProductionCMode::FLD;
        d.i("prod.exceed.water", static_cast<int>(fld ? Opm::Group::ExceedAction::RATE : pc.group_limit_action.water));
        d.i("prod.exceed.gas", static_cast<int>(fld ? Opm::Group::ExceedAction::RATE : pc.group_limit_action.gas));
        d.i("prod.exceed.liquid", static_cast<int>(fld ? Opm::Group::ExceedAction::RATE : pc.group_limit_action.liquid));
        d.b("prod.available_group_control", g.productionGroupControlAvailable());
    }
    for (auto ph : { Opm::Phase::WATER, Opm::Phase::GAS, Opm::Phase::OIL }) {
        const std::string pre = "inj." + phaseName(ph) + ".";
        d.b(pre + "has", g.hasInjectionControl(ph));
        if (!g.hasInjectionControl(ph)) continue;
        const auto ic = g.injectionControls(ph, st);
        d.str(pre + "cmode", Opm::Group::InjectionCMode2String(ic.cmode));
        d.num(pre + "surface_max_rate", ic.surface_max_rate); d.num(pre + "resv_max_rate", ic.resv_max_rate);
        d.num(pre + "target_reinj_fraction", ic.target_reinj_fraction); d.num(pre + "target_void_fraction", ic.target_void_fraction);
        d.i(pre + "controls", ic.injection_controls);
        d.str(pre + "reinj_group", ic.reinj_group); d.str(pre + "voidage_group", ic.voidage_group);
        d.num(pre + "guide_rate", ic.guide_rate); d.i(pre + "guide_rate_def", static_cast<int>(ic.guide_rate_def));
        d.b(pre + "available_group_control", g.injectionGroupControlAvailable(ph));
    }
}

std::string canonQuantity(const std::string& q)
{
    // numeric literals come back through a double (SACN): 210.0 -> 210
    char* end = nullptr;
    const double v = std::strtod(q.c_str(), &end);
    if (!q.empty() && end && *end == '\0') { char b[40]; std::snprintf(b, sizeof b, "%.12g", v); return b; }
    return q;
}

std::string condText(const Opm::Action::Condition& c)
{
    std::ostringstream o;
    o << "lhs=" << canonQuantity(c.lhs.quantity) << join(c.lhs.args) << " cmp=" << c.comparator_as_int() << " rhs=" << canonQuantity(c.rhs.quantity) << join(c.rhs.args)
      << " logic=" << c.logic_as_int() << " paren=" << c.paren_as_int();
    return o.str();
}

void dump_step(Dump& d, const Opm::Schedule& sched, std::size_t step, const Opm::SummaryState& st, const Options& opt)
{
    const auto& ss = sched[step];
    d.at("step", "");
    if (opt.times) d.str("start_time", std::to_string(Opm::TimeService::to_time_t(ss.start_time())));
    d.str("well_order", join(sched.wellNames(step)));
    for (const auto& wname : sched.wellNames(step)) dump_well(d, sched, step, wname, st, opt);
    d.at("step", "");
    d.str("group_names", join(sorted(sched.groupNames(step))));
    {
        std::vector<std::string> rg;
        for (const auto* g : sched.restart_groups(step)) rg.push_back(g ? g->name() : std::string("-"));
        while (!rg.empty() && rg.size() > 1 && rg[rg.size() - 2] == "-") rg.erase(rg.end() - 2);   // padding before FIELD depends on WELLDIMS only
        d.str("restart_group_order", join(rg));
    }
    for (const auto& gname : sorted(sched.groupNames(step))) dump_group(d, sched, step, gname, st);

    // well lists
    {
        const auto& wlm = ss.wlist_manager();
        d.at("wlist", "");
        // The lists themselves (list -> wells) are compared.  WListManager has no enumeration of its lists, so the candidate
        // names come from the per-well name vectors of BOTH schedules (those vectors are bookkeeping that can go stale in the
        // original: delWListWell does not erase the name, a second DEL clears all names of the well).
        std::set<std::string> lists = opt.wlist_names;
        for (const auto& wname : sched.wellNames(step)) {
            if (!wlm.hasWList(wname)) continue;
            for (const auto& l : wlm.getWListNames(wname)) lists.insert(l);
        }
        std::vector<std::string> present;
        for (const auto& l : lists) if (wlm.hasList(l) && !wlm.getList(l).wells().empty()) present.push_back(l);
        d.str("lists", join(present));
        for (const auto& l : present) { d.at("wlist", l); d.str("wells", join(sorted(wlm.getList(l).wells()))); }
    }
    // UDQ
    {
        const auto& udq = ss.udq();
        d.at("udq", "");
        d.i("size", udq.size());
        for (const auto& in : udq.input()) {
            d.at("udq", in.keyword());
            d.str("unit", in.unit());
            d.i("var_type", static_cast<int>(in.var_type()));
            if (in.is<Opm::UDQDefine>()) {
                const auto& def = in.get<Opm::UDQDefine>();
                d.str("kind", "DEFINE");
                d.str("expression", def.input_string());
                d.i("update", static_cast<int>(def.status().first));
            } else {
                d.str("kind", "ASSIGN");
            }
        }
        const auto& act = ss.udq_active();
        d.at("uda", "");
        std::vector<std::string> recs;
        for (const auto& r : act.iuad()) recs.push_back(r.udq + "/" + std::to_string(static_cast<int>(r.control)) + "/use=" + std::to_string(r.use_count));
        d.str("iuad", join(recs));
        std::vector<std::string> ins;
        for (const auto& r : act.iuap()) ins.push_back(r.udq + "/" + r.wgname + "/" + std::to_string(static_cast<int>(r.control)));
        d.str("iuap", join(ins));
    }
    // ACTIONX
    {
        const auto& acts = ss.actions();
        d.at("actions", "");
        d.i("ecl_size", acts.ecl_size());
        for (const auto& a : acts) {
            d.at("action", a.name().substr(0, 8));     // ZACT holds 8 characters
            d.i("max_run", a.max_run()); d.num("min_wait", a.min_wait());
            d.str("start_time", std::to_string(std::max(a.start_time(), opt.restart_time)));
            std::vector<std::string> cs; for (const auto& c : a.conditions()) cs.push_back(condText(c));
            d.str("conditions", join(cs));
            std::vector<std::string> ks; for (const auto& k : a) ks.push_back(kwText(k));
            d.str("keywords", join(ks));
        }
    }
    // network
    {
        const auto& net = ss.network();
        d.at("network", "");
        d.b("active", net.active());
        if (net.active()) {
            for (const auto& n : sorted(net.node_names())) {
                const auto& node = net.node(n);
                d.at("node", n);
                d.b("has_terminal_pressure", node.terminal_pressure().has_value());
                if (node.terminal_pressure()) d.num("terminal_pressure", *node.terminal_pressure());
                d.b("as_choke", node.as_choke()); d.b("add_gas_lift_gas", node.add_gas_lift_gas());
                const auto up = net.uptree_branch(n);
                d.str("uptree", up ? up->uptree_node() : std::string(""));
                if (up) d.i("vfp_table", up->vfp_table().value_or(-1));
            }
        }
        const auto& nb = ss.network_balance();
        d.at("netbalan", "");
        d.i("mode", static_cast<int>(nb.mode())); d.num("interval", nb.interval()); d.num("pressure_tolerance", nb.pressure_tolerance());
        d.i("pressure_max_iter", nb.pressure_max_iter()); d.num("thp_tolerance", nb.thp_tolerance()); d.i("thp_max_iter", nb.thp_max_iter());
    }
    // guide rate model
    {
        const auto& gr = ss.guide_rate();
        d.at("guiderate", "");
        d.b("has_model", gr.has_model());
        if (gr.has_model()) {
            const auto& m = gr.model();
            d.i("target", static_cast<int>(m.target())); d.num("A", m.getA()); d.num("B", m.getB()); d.num("C", m.getC());
            d.num("D", m.getD()); d.num("E", m.getE()); d.num("F", m.getF()); d.num("delay", m.update_delay()); d.num("damping", m.damping_factor());
        }
        for (const auto& wname : sched.wellNames(step)) {
            d.at("guiderate.well", wname);
            // canonical: an entry without a positive guide rate behaves like no entry (GuideRate uses the model then)
            const bool fixed = gr.has_well(wname) && gr.well(wname).guide_rate > 0.0;
            d.b("has", fixed);
            // (the entry's target is a snapshot of Well::getGuideRatePhase() at WGRUPCON time — RAT of a well that only later becomes
            //  an injector is never refreshed in the original; the well's own guide rate phase is compared with the well)
            if (fixed) { const auto& t = gr.well(wname); d.num("guide_rate", t.guide_rate); d.num("scaling", t.scaling_factor); }
        }
        for (const auto& gname : sorted(sched.groupNames(step))) {
            d.at("guiderate.group", gname);
            d.b("has_prod", gr.has_production_group(gname));
            if (gr.has_production_group(gname)) { const auto& t = gr.production_group(gname); d.i("target", static_cast<int>(t.target)); }
        }
    }
    // gas lift
    {
        const auto& glo = ss.glo();
        d.at("glo", "");
        d.b("active", glo.active());
        if (glo.active()) {
            d.num("increment", glo.gaslift_increment()); d.num("min_eco_gradient", glo.min_eco_gradient()); d.num("min_wait", glo.min_wait()); d.b("all_newton", glo.all_newton());
            for (const auto& wname : sched.wellNames(step)) {
                d.at("glo.well", wname); d.b("has", glo.has_well(wname));
                if (glo.has_well(wname)) { const auto& w = glo.well(wname); d.b("use_glo", w.use_glo()); d.num("max_rate", w.max_rate().value_or(-1)); d.num("min_rate", w.min_rate());
                                           d.num("weight", w.weight_factor()); d.num("inc_weight", w.inc_weight_factor()); d.b("alloc_extra", w.alloc_extra_gas()); }
            }
            for (const auto& gname : sorted(sched.groupNames(step))) {
                d.at("glo.group", gname); d.b("has", glo.has_group(gname));
                if (glo.has_group(gname)) { const auto& g = glo.group(gname); d.num("max_lift_gas", g.max_lift_gas().value_or(-1)); d.num("max_total_gas", g.max_total_gas().value_or(-1)); }
            }
        }
    }
    // WTEST
    {
        const auto& wt = ss.wtest_config();
        for (const auto& wname : sched.wellNames(step)) {
            d.at("wtest", wname);
            d.b("has", wt.has(wname));
            if (wt.has(wname)) { const auto& w = wt.get(wname); d.i("reasons", w.reasons); d.num("interval", w.test_interval); d.i("num_test", w.num_test); d.num("startup_time", w.startup_time); }
        }
    }
    // GCONSUMP
    {
        const auto& gc = ss.gconsump();
        for (const auto& gname : sorted(sched.groupNames(step))) {
            d.at("gconsump", gname);
            d.b("has", gc.has(gname));
            if (gc.has(gname)) { const auto p = gc.get(gname, st); d.num("consumption_rate", p.consumption_rate); d.num("import_rate", p.import_rate); }
        }
    }
    d.at("step", "");
    d.str("whistctl", pcmName(ss.whistctl()));
    if (opt.events) {
        d.at("events", "");
        { std::string mk; for (int bit = 0; bit < 40; ++bit) mk += ss.events().hasEvent(1ull << bit) ? "1" : "0"; d.str("mask", mk); }     // legitimate to differ at the restart step itself
    }
}

// ---------------------------------------------------------------------------------------------
// comparison

bool close(double a, double b, double rel, double abs_tol)
{
    if (a == b) return true;
    if (std::isnan(a) || std::isnan(b)) return std::isnan(a) && std::isnan(b);
    return std::abs(a - b) <= rel * std::max(std::abs(a), std::abs(b)) + abs_tol;
}

struct Reporter {
    vh::PropLog* log = nullptr;
    bool verbose = false;
    std::set<std::string> seen;     // one FAIL per key and case
    std::set<std::string> reported; // ... and per run in prop.txt
    std::map<std::string, long> counts, instances;
    std::string where;
    std::string key_override;       // fixed reproduction decks: every difference is reported under this one key
    void ok() { if (log) log->ok(); }
    void fail(const std::string& key0, const std::string& detail0) {
        const std::string key = key_override.empty() ? key0 : key_override;
        const std::string detail = key_override.empty() ? detail0 : ("[" + key0 + "] " + detail0);
        if (verbose) std::cout << "DIFF " << key << " " << detail << "\n";
        counts[key]++;
        if (!seen.insert(key).second) return;
        instances[key]++;
        if (!reported.insert(key).second) return;         // prop.txt: the first instance of every key; counts go to the stats
        if (log) log->fail(key, where + " " + detail);
    }
};

std::string show(const Item& it) { return it.is_num ? (vh::hexF64(it.d) + "(" + std::to_string(it.d) + ")") : it.s; }

void compare(const Dump& a, const Dump& b, std::size_t step, Reporter& rep, const std::string& prefix)
{
    // items are aligned by (category, object, member); a member present on one side only is a structural difference,
    // reported unless a value difference of the same object already explains it (has=true vs has=false ...)
    if (const char* want = std::getenv("RSTSCHED_DUMP")) {
        for (const auto& x : a.items) if (x.cat == want) std::cout << "ORIG step=" << step << " " << x.cat << "[" << x.obj << "]." << x.member << "=" << show(x) << "\n";
        for (const auto& x : b.items) if (x.cat == want) std::cout << "RST  step=" << step << " " << x.cat << "[" << x.obj << "]." << x.member << "=" << show(x) << "\n";
    }
    std::map<std::string, const Item*> bi, ai;
    auto key = [](const Item& it) { return it.cat + "\x1f" + it.obj + "\x1f" + it.member; };
    for (const auto& y : b.items) bi[key(y)] = &y;
    for (const auto& x : a.items) ai[key(x)] = &x;
    std::set<std::string> explained;
    for (const auto& x : a.items) {
        const auto it = bi.find(key(x));
        if (it == bi.end()) continue;
        const auto& y = *it->second;
        const bool same = x.is_num == y.is_num && (x.is_num ? close(x.d, y.d, 2e-6, 1e-30) : (x.s == y.s));
        if (same) rep.ok();
        else {
            explained.insert(x.cat + "\x1f" + x.obj);
            rep.fail(prefix + "." + x.cat + "." + x.member, "step=" + std::to_string(step) + " " + x.cat + "=" + x.obj + " original=" + show(x) + " restarted=" + show(y));
        }
    }
    for (const auto& x : a.items)
        if (!bi.count(key(x)) && !explained.count(x.cat + "\x1f" + x.obj))
            rep.fail(prefix + ".structure." + x.cat, "step=" + std::to_string(step) + " only the original has " + x.cat + "[" + x.obj + "]." + x.member + "=" + show(x));
    for (const auto& y : b.items)
        if (!ai.count(key(y)) && !explained.count(y.cat + "\x1f" + y.obj))
            rep.fail(prefix + ".structure." + y.cat, "step=" + std::to_string(step) + " only the restarted schedule has " + y.cat + "[" + y.obj + "]." + y.member + "=" + show(y));
}

// ---------------------------------------------------------------------------------------------
// small simulator loop on the real Schedule

struct Case {
    Opm::Deck deck;
    Opm::EclipseState es;
    Opm::EclipseGrid grid;
    Opm::Schedule sched;
    explicit Case(const Opm::Deck& d, const Opm::RestartIO::RstState* rst = nullptr)
        : deck(d), es(deck), grid(es.getInputGrid()),
          sched(deck, es, std::make_shared<Opm::Python>(), false, false, true, std::nullopt, rst)
    {}
};

Opm::Deck parse(const std::string& text_or_file, bool is_file)
{
    Opm::ParseContext pc;
    pc.update(Opm::ParseContext::PARSE_RANDOM_SLASH, Opm::InputErrorAction::IGNORE);
    pc.update(Opm::ParseContext::PARSE_MISSING_DIMS_KEYWORD, Opm::InputErrorAction::WARN);
    pc.update(Opm::ParseContext::SUMMARY_UNKNOWN_WELL, Opm::InputErrorAction::WARN);
    pc.update(Opm::ParseContext::SUMMARY_UNKNOWN_GROUP, Opm::InputErrorAction::WARN);
    Opm::ErrorGuard eg;
    Opm::Parser parser;
    auto deck = is_file ? parser.parseFile(text_or_file, pc, eg) : parser.parseString(text_or_file, pc, eg);
    eg.clear();
    return deck;
}

struct Sim {
    Case& cs;
    Opm::SummaryState st;
    Opm::UDQState udq;
    Opm::Action::State as;
    Opm::WellTestState wtest;
    Opm::data::Wells xw;
    bool segment_results = true;      // the simulator reports segment rates / pressures (false: the writer derives them from the connection rates)
    std::map<std::pair<std::string, int>, std::array<double, 4>> seg_expected;   // (well, segment) -> oil, water, gas (SI, flow sign), pressure
    explicit Sim(Case& c)
        : cs(c), st(Opm::TimeService::from_time_t(c.sched.getStartTime()), c.es.runspec().udqParams().undefinedValue()),
          udq(c.es.runspec().udqParams().undefinedValue())
    {}

    // state after simulating report step `rs` (time level rs), computed on snapshot rs-1
    void advance(vh::Rng& rng, std::size_t rs)
    {
        const std::size_t sim_step = rs - 1;
        const auto& us = cs.es.getUnits();
        xw.clear(); seg_expected.clear();
        double fo = 0, fw = 0, fg = 0;
        std::map<std::string, std::array<double, 3>> gsum;
        for (const auto& wname : cs.sched.wellNames(sim_step)) {
            const auto& well = cs.sched.getWell(wname, sim_step);
            Opm::data::Well w;
            const bool prod = well.isProducer();
            bool open = well.getStatus() == Opm::Well::Status::OPEN;
            if (prod ? (well.productionControls(st).cmode == Opm::Well::ProducerCMode::CMODE_UNDEFINED)
                     : (well.injectionControls(st).cmode == Opm::Well::InjectorCMode::CMODE_UNDEFINED)) open = false;
            const double sgn = prod ? -1.0 : 1.0;
            const double qo = open ? rng.unit() * 1e-2 : 0.0, qw = open ? rng.unit() * 1e-2 : 0.0, qg = open ? rng.unit() * 5.0 : 0.0;
            const bool inj_w = !prod && well.injectorType() == Opm::InjectorType::WATER;
            const bool inj_g = !prod && well.injectorType() == Opm::InjectorType::GAS;
            w.rates.set(Opm::data::Rates::opt::oil, prod ? sgn * qo : 0.0);
            w.rates.set(Opm::data::Rates::opt::wat, (prod || inj_w) ? sgn * qw : 0.0);
            w.rates.set(Opm::data::Rates::opt::gas, (prod || inj_g) ? sgn * qg : 0.0);
            w.bhp = 1.0e5 * (100.0 + 300.0 * rng.unit());
            w.thp = 1.0e5 * (10.0 + 50.0 * rng.unit());
            w.temperature = 0.0;
            w.dynamicStatus = well.getStatus();
            const bool has_mode = prod ? (well.productionControls(st).cmode != Opm::Well::ProducerCMode::CMODE_UNDEFINED)
                                       : (well.injectionControls(st).cmode != Opm::Well::InjectorCMode::CMODE_UNDEFINED);
            if (!has_mode) w.dynamicStatus = Opm::Well::Status::SHUT;      // a simulator cannot operate a well that has no control mode yet
            w.current_control.isProducer = prod;
            if (prod) {
                auto cm = well.productionControls(st).cmode;
                if (cm == Opm::Well::ProducerCMode::CMODE_UNDEFINED || cm == Opm::Well::ProducerCMode::NONE) cm = Opm::Well::ProducerCMode::BHP;
                w.current_control.prod = cm;
            } else {
                auto cm = well.injectionControls(st).cmode;
                if (cm == Opm::Well::InjectorCMode::CMODE_UNDEFINED) cm = Opm::Well::InjectorCMode::BHP;
                w.current_control.inj = cm;
            }
            const auto& conns = well.getConnections();
            const std::size_t nc = conns.size();
            for (std::size_t c = 0; c < nc; ++c) {
                const auto& conn = conns.get(c);
                Opm::data::Connection xc;
                xc.index = conn.global_index();
                const bool copen = open && conn.state() == Opm::Connection::State::OPEN;
                const double f = copen ? 1.0 / static_cast<double>(nc) : 0.0;
                xc.rates.set(Opm::data::Rates::opt::oil, w.rates.get(Opm::data::Rates::opt::oil) * f);
                xc.rates.set(Opm::data::Rates::opt::wat, w.rates.get(Opm::data::Rates::opt::wat) * f);
                xc.rates.set(Opm::data::Rates::opt::gas, w.rates.get(Opm::data::Rates::opt::gas) * f);
                xc.pressure = w.bhp + 1.0e4 * static_cast<double>(c);
                xc.reservoir_rate = sgn * (qo + qw) * f;
                xc.trans_factor = conn.CF();          // the simulator's transmissibility factor = the schedule's
                xc.compact_mult = 1.0;
                w.connections.push_back(xc);
            }
            const std::size_t nopen = std::count_if(w.connections.begin(), w.connections.end(), [](const Opm::data::Connection& x) { return x.rates.flowing(); });
            (void) nopen;
            if (well.getStatus() == Opm::Well::Status::STOP) {
                // a stopped well with cross flow between two open connections: no surface rate, flowing connections
                std::vector<std::size_t> oc;
                for (std::size_t c = 0; c < nc; ++c) if (conns.get(c).state() == Opm::Connection::State::OPEN) oc.push_back(c);
                if (oc.size() >= 2 && well.getAllowCrossFlow()) {
                    // (XCON keeps magnitudes, the sign follows the well type: both in the well's own direction)
                    w.connections[oc[0]].rates.set(Opm::data::Rates::opt::oil, sgn * 1.0e-5);
                    w.connections[oc[1]].rates.set(Opm::data::Rates::opt::oil, sgn * 2.0e-5);
                }
            }
            if (well.isMultiSegment()) {
                const auto& segs = well.getSegments();
                using RO = Opm::data::Rates::opt;
                std::function<std::array<double, 3>(int)> subtree = [&](int segno) {
                    std::array<double, 3> q{0.0, 0.0, 0.0};
                    for (std::size_t c = 0; c < nc; ++c) {
                        const auto& cn = conns.get(c);
                        if (cn.segment() != segno || cn.state() != Opm::Connection::State::OPEN) continue;
                        q[0] += w.connections[c].rates.get(RO::oil, 0.0); q[1] += w.connections[c].rates.get(RO::wat, 0.0); q[2] += w.connections[c].rates.get(RO::gas, 0.0);
                    }
                    for (int in : segs.getFromSegmentNumber(segno).inletSegments()) { const auto r = subtree(in); q[0] += r[0]; q[1] += r[1]; q[2] += r[2]; }
                    return q;
                };
                for (std::size_t sidx = 0; sidx < segs.size(); ++sidx) {
                    const int segno = segs[sidx].segmentNumber();
                    const auto q = subtree(segno);
                    const double pr = segment_results ? w.bhp + 1.0e4 * segno : w.bhp;
                    seg_expected[{wname, segno}] = { q[0], q[1], q[2], pr };
                    if (!segment_results || well.getStatus() == Opm::Well::Status::SHUT) continue;
                    auto& sg = w.segments[segno];
                    sg.segNumber = segno;
                    sg.rates.set(RO::oil, q[0]); sg.rates.set(RO::wat, q[1]); sg.rates.set(RO::gas, q[2]);
                    sg.pressures[Opm::data::SegmentPressures::Value::Pressure] = pr;
                    // summary vectors: output units, positive towards the well head
                    st.update_segment_var(wname, "SOFR", segno, -us.from_si(M::liquid_surface_rate, q[0]));
                    st.update_segment_var(wname, "SWFR", segno, -us.from_si(M::liquid_surface_rate, q[1]));
                    st.update_segment_var(wname, "SGFR", segno, -us.from_si(M::gas_surface_rate, q[2]));
                    st.update_segment_var(wname, "SPR", segno, us.from_si(M::pressure, pr));
                }
            }
            // connection level summary vectors (output units): the XCON writer takes rates / pressure / totals from here
            for (const auto& xc : w.connections) {
                auto cset = [&](const std::string& key, M m, double si) { st.update_conn_var(wname, key, xc.index + 1, us.from_si(m, si)); };
                const char dch = prod ? 'P' : 'I';
                cset(std::string("CO") + dch + "R", M::liquid_surface_rate, std::abs(xc.rates.get(Opm::data::Rates::opt::oil, 0.0)));
                cset(std::string("CW") + dch + "R", M::liquid_surface_rate, std::abs(xc.rates.get(Opm::data::Rates::opt::wat, 0.0)));
                cset(std::string("CG") + dch + "R", M::gas_surface_rate,    std::abs(xc.rates.get(Opm::data::Rates::opt::gas, 0.0)));
                cset(std::string("CV") + dch + "R", M::rate,                std::abs(xc.reservoir_rate));
                cset("CPR", M::pressure, xc.pressure);
            }
            xw[wname] = w;
            auto wset = [&](const std::string& key, M m, double si) { st.update_well_var(wname, key, us.from_si(m, si)); };
            wset("WOPR", M::liquid_surface_rate, prod ? qo : 0.0); wset("WWPR", M::liquid_surface_rate, prod ? qw : 0.0); wset("WGPR", M::gas_surface_rate, prod ? qg : 0.0);
            wset("WLPR", M::liquid_surface_rate, prod ? qo + qw : 0.0);
            wset("WWIR", M::liquid_surface_rate, inj_w ? qw : 0.0); wset("WGIR", M::gas_surface_rate, inj_g ? qg : 0.0);
            wset("WWCT", M::water_cut, prod ? qw / (qo + qw + 1e-30) : 0.0); wset("WGOR", M::gas_oil_ratio, prod ? qg / (qo + 1e-30) : 0.0);
            wset("WBHP", M::pressure, w.bhp); wset("WTHP", M::pressure, w.thp);
            for (const char* k : {"WOPT", "WWPT", "WWIT"}) wset(k, M::liquid_surface_volume, 1.0e4 * rng.unit() * rs);
            for (const char* k : {"WGPT", "WGIT"}) wset(k, M::gas_surface_volume, 1.0e6 * rng.unit() * rs);
            if (prod) { fo += qo; fw += qw; fg += qg; auto& g = gsum[well.groupName()]; g[0] += qo; g[1] += qw; g[2] += qg; }
        }
        // group level: sums up the tree
        for (const auto& gname : cs.sched.groupNames(sim_step)) {
            if (gname == "FIELD") continue;
            double o = 0, w = 0, g = 0;
            std::function<void(const std::string&)> rec = [&](const std::string& gn) {
                const auto& grp = cs.sched.getGroup(gn, sim_step);
                auto it = gsum.find(gn); if (it != gsum.end()) { o += it->second[0]; w += it->second[1]; g += it->second[2]; }
                for (const auto& ch : grp.groups()) rec(ch);
            };
            rec(gname);
            st.update_group_var(gname, "GOPR", us.from_si(M::liquid_surface_rate, o));
            st.update_group_var(gname, "GWPR", us.from_si(M::liquid_surface_rate, w));
            st.update_group_var(gname, "GGPR", us.from_si(M::gas_surface_rate, g));
            st.update_group_var(gname, "GLPR", us.from_si(M::liquid_surface_rate, o + w));
            st.update_group_var(gname, "GWCT", w / (o + w + 1e-30));
        }
        st.update("FOPR", us.from_si(M::liquid_surface_rate, fo)); st.update("FWPR", us.from_si(M::liquid_surface_rate, fw));
        st.update("FGPR", us.from_si(M::gas_surface_rate, fg)); st.update("FLPR", us.from_si(M::liquid_surface_rate, fo + fw));
        st.update("FWCT", fw / (fo + fw + 1e-30));
        st.update("FPR", us.from_si(M::pressure, 2.0e7 + 1.0e6 * rng.unit()));
        // control-mode and well-count vectors the group writer reads (Summary.cpp derives them from the group data)
        for (const auto& gname : cs.sched.groupNames(sim_step)) {
            const auto& grp = cs.sched.getGroup(gname, sim_step);
            const int pc = grp.isProductionGroup() ? Opm::Group::ProductionCMode2Int(grp.prod_cmode()) : 0;
            auto icm = [&](Opm::Phase ph) { return grp.hasInjectionControl(ph) ? Opm::Group::InjectionCMode2Int(grp.injectionControls(ph, st).cmode) : 0; };
            int np = 0, ni = 0;
            std::function<void(const Opm::Group&)> cnt = [&](const Opm::Group& g) {
                for (const auto& wn : g.wells()) { const auto& w = cs.sched.getWell(wn, sim_step); if (w.getStatus() == Opm::Well::Status::OPEN) { if (w.isProducer()) ++np; else ++ni; } }
                for (const auto& ch : g.groups()) cnt(cs.sched.getGroup(ch, sim_step));
            };
            cnt(grp);
            if (gname == "FIELD") {
                st.update("FMCTP", pc); st.update("FMCTW", icm(Opm::Phase::WATER)); st.update("FMCTG", icm(Opm::Phase::GAS));
                st.update("FMWPR", np); st.update("FMWIN", ni);
            } else {
                st.update_group_var(gname, "GMCTP", pc); st.update_group_var(gname, "GMCTW", icm(Opm::Phase::WATER)); st.update_group_var(gname, "GMCTG", icm(Opm::Phase::GAS));
                st.update_group_var(gname, "GMWPR", np); st.update_group_var(gname, "GMWIN", ni);
            }
        }
        // whatever else the UDQ definitions and ACTIONX conditions ask for (the simulator registers these vectors)
        {
            std::unordered_set<std::string> need;
            cs.sched.getUDQConfig(sim_step).required_summary(need);
            for (std::size_t q : { sim_step, rs }) for (const auto& a : cs.sched[q].actions()) {
                a.required_summary(need);
                for (const auto& cnd : a.conditions()) { need.insert(cnd.lhs.quantity); need.insert(cnd.rhs.quantity); }
            }
            for (const auto& key : need) {
                if (key.empty() || key.size() > 8) continue;
                if (key[0] == 'W') { for (const auto& wname : cs.sched.wellNames(rs)) if (!st.has_well_var(wname, key)) st.update_well_var(wname, key, 100.0 * rng.unit()); }
                else if (key[0] == 'G') { for (const auto& gname : cs.sched.groupNames(rs)) if (!st.has_group_var(gname, key)) st.update_group_var(gname, key, 100.0 * rng.unit()); }
                else if (key[0] == 'F' || key == "TIMESTEP" || key == "ELAPSED") { if (!st.has(key)) st.update(key, 100.0 * rng.unit()); }
            }
        }
        const double t1 = cs.sched.seconds(rs);
        st.update_elapsed(t1 - st.get_elapsed());
        st.update("TIME", us.from_si(M::time, t1));
        {
            const auto ts = Opm::TimeStampUTC(Opm::TimeService::to_time_t(cs.sched[rs].start_time()));
            st.update("DAY", ts.day()); st.update("MNTH", ts.month()); st.update("YEAR", ts.year());
        }
        // UDQ
        const Opm::EclipseState& es = cs.es;
        cs.sched.getUDQConfig(sim_step).eval(rs, cs.sched.wellMatcher(rs), cs.sched.segmentMatcherFactory(rs),
            [&es]() { return std::make_unique<Opm::RegionSetMatcher>(es.fipRegionStatistics()); }, st, udq);
    }

    // ACTIONX at the end of report step rs (as flow's ActionHandler / msim::post_step)
    int run_actions(std::size_t rs)
    {
        const auto& actions = cs.sched[rs].actions.get();
        if (actions.empty()) return 0;
        int triggered = 0;
        const auto sim_time = Opm::TimeService::to_time_t(cs.sched[rs].start_time());
        const auto context = Opm::Action::Context { st, cs.sched[rs].wlist_manager.get() };
        for (const auto* action : actions.pending(as, sim_time)) {
            const auto result = action->eval(context);
            if (result.conditionSatisfied()) {
                const Opm::Action::ActionX copy = *action;    // applyAction rebuilds the snapshots the pointer lives in
                cs.sched.applyAction(rs, copy, result.matches(), std::unordered_map<std::string, double>{});
                as.add_run(copy, sim_time, result);
                ++triggered;
            }
        }
        return triggered;
    }

    void save(std::size_t rs, const std::string& dir, const std::string& base, bool formatted, bool unified)
    {
        namespace OS = Opm::EclIO::OutputStream;
        Opm::data::Solution sol;
        const auto nact = cs.grid.getNumActive();
        sol.insert("PRESSURE", M::pressure, std::vector<double>(nact, 2.0e7), Opm::data::TargetType::RESTART_SOLUTION);
        sol.insert("SWAT", M::identity, std::vector<double>(nact, 0.2), Opm::data::TargetType::RESTART_SOLUTION);
        sol.insert("SGAS", M::identity, std::vector<double>(nact, 0.1), Opm::data::TargetType::RESTART_SOLUTION);
        Opm::RestartValue value(sol, xw, Opm::data::GroupAndNetworkValues{}, {});
        OS::Restart rst { OS::ResultSet{ dir, base }, static_cast<int>(rs), OS::Formatted{ formatted }, OS::Unified{ unified } };
        std::optional<Opm::RestartIO::Helpers::AggregateAquiferData> aq { std::nullopt };
        Opm::RestartIO::save(rst, static_cast<int>(rs), std::chrono::duration<double>(cs.sched[rs].start_time() - cs.sched[0].start_time()).count(), value, cs.es, cs.grid, cs.sched, as, wtest, st, udq, aq, true);
    }
};

std::string rst_file_name(const std::string& dir, const std::string& base, std::size_t rs, bool formatted, bool unified)
{
    namespace OS = Opm::EclIO::OutputStream;
    char b[8]; std::snprintf(b, sizeof b, "%04d", static_cast<int>(rs));
    return OS::outputFileName(OS::ResultSet{ dir, base }, unified ? (formatted ? "FUNRST" : "UNRST") : ((formatted ? "F" : "X") + std::string(b)));
}

// Deck with SKIPREST inserted right after SCHEDULE (the restarted deck keeps the whole history).
Opm::Deck with_skiprest(const Opm::Deck& deck)
{
    Opm::Deck out(deck);
    // re-parse from text: simplest way to insert a keyword at a position
    std::ostringstream o; o << deck;
    std::string text = o.str();
    const auto pos = text.find("\nSCHEDULE");
    if (pos == std::string::npos) throw std::runtime_error("deck without SCHEDULE");
    const auto eol = text.find('\n', pos + 1);
    text.insert(eol + 1, "SKIPREST\n");
    return parse(text, false);
}

void compare_udq_state(const Opm::Schedule& sched, std::size_t step, const Opm::UDQState& a, const Opm::UDQState& b, Reporter& rep)
{
    const auto& udq = sched[step].udq();
    for (const auto& in : udq.input()) {
        const auto& key = in.keyword();
        const auto vt = in.var_type();
        auto cmp = [&](const std::string& obj, bool ha, double va, bool hb, double vb) {
            if (ha != hb) { rep.fail("udqstate.defined", "udq=" + key + " " + obj + " saved=" + std::to_string(ha) + " restored=" + std::to_string(hb)); return; }
            if (!ha) { rep.ok(); return; }
            if (close(va, vb, 1e-12, 0.0)) rep.ok();
            else rep.fail("udqstate.value", "udq=" + key + " " + obj + " saved=" + vh::hexF64(va) + " restored=" + vh::hexF64(vb));
        };
        if (vt == Opm::UDQVarType::WELL_VAR) {
            for (const auto& w : sched.wellNames(step)) {
                const bool ha = a.has_well_var(w, key), hb = b.has_well_var(w, key);
                cmp("well=" + w, ha, ha ? a.get_well_var(w, key) : 0.0, hb, hb ? b.get_well_var(w, key) : 0.0);
            }
        } else if (vt == Opm::UDQVarType::GROUP_VAR) {
            for (const auto& g : sched.groupNames(step)) {
                if (g == "FIELD") continue;      // field level quantities are FU*; DUDG's FIELD slot is not read back (documented)
                const bool ha = a.has_group_var(g, key), hb = b.has_group_var(g, key);
                cmp("group=" + g, ha, ha ? a.get_group_var(g, key) : 0.0, hb, hb ? b.get_group_var(g, key) : 0.0);
            }
        } else if (vt == Opm::UDQVarType::FIELD_VAR) {
            const bool ha = a.has(key), hb = b.has(key);
            cmp("field", ha, ha ? a.get(key) : 0.0, hb, hb ? b.get(key) : 0.0);
        }
    }
}

void compare_action_state(const Opm::Action::Actions& acts, const Opm::Action::Actions& racts, const Opm::Action::State& a, const Opm::Action::State& b, std::time_t start, Reporter& rep)
{
    auto rit = racts.begin();
    for (const auto& act : acts) {
        if (rit == racts.end()) break;
        const auto& ract = *rit++;
        const auto ca = a.run_count(act), cb = b.run_count(ract);
        if (ca != cb) rep.fail("actionstate.run_count", "action=" + act.name() + " saved=" + std::to_string(ca) + " restored=" + std::to_string(cb));
        else rep.ok();
        if (ca > 0 && cb > 0) {
            const auto ta = a.run_time(act), tb = b.run_time(ract);
            // SACT keeps the elapsed time of the last run as a single-precision number of time units
            if (std::abs(std::difftime(ta, tb)) > 1.0e-6 * std::abs(std::difftime(ta, start)) + 1.0) rep.fail("actionstate.run_time", "action=" + act.name() + " saved=" + std::to_string(ta) + " restored=" + std::to_string(tb));
            else rep.ok();
        }
    }
}

// What RestartIO::load gives back for the dynamic well state: connection results BY CELL, and the segment rates /
// pressures of multi-segment wells (RSEG) against the sum of the connection rates of the segment's subtree.
void check_dynamic(Case& cs, Sim& sim, std::size_t rs, const std::string& fname, Reporter& rep, long& nseg)
{
    Opm::SummaryState st2(Opm::TimeService::from_time_t(cs.sched.getStartTime()), cs.es.runspec().udqParams().undefinedValue());
    Opm::Action::State as2;
    const auto rv = Opm::RestartIO::load(fname, static_cast<int>(rs), as2, st2,
        { Opm::RestartKey("PRESSURE", M::pressure), Opm::RestartKey("SWAT", M::identity), Opm::RestartKey("SGAS", M::identity) }, cs.es, cs.grid, cs.sched);
    using RO = Opm::data::Rates::opt;
    const std::size_t sim_step = rs - 1;
    for (const auto& wname : cs.sched.wellNames(sim_step)) {
        const auto& well = cs.sched.getWell(wname, sim_step);
        const auto& xw = sim.xw.at(wname);
        const auto li = rv.wells.find(wname);
        if (li == rv.wells.end()) { rep.fail("dyn.well-missing", "well=" + wname); continue; }
        const auto& lw = li->second;
        if (well.getStatus() == Opm::Well::Status::SHUT) continue;
        for (const auto& xc : xw.connections) {
            const auto* lc = lw.find_connection(xc.index);
            if (lc == nullptr) { rep.fail("dyn.conn.missing", "well=" + wname + " cell=" + std::to_string(xc.index)); continue; }
            bool ok = true;
            for (auto p : { RO::oil, RO::wat, RO::gas }) ok = ok && close(xc.rates.get(p, 0.0), lc->rates.get(p, 0.0), 1e-10, 1e-300);
            if (ok) rep.ok(); else rep.fail("dyn.conn.rate", "well=" + wname + " cell=" + std::to_string(xc.index) + " saved oil=" + vh::hexF64(xc.rates.get(RO::oil, 0.0)) + " restored=" + vh::hexF64(lc->rates.get(RO::oil, 0.0)));
            if (close(xc.pressure, lc->pressure, 1e-10, 0.0)) rep.ok(); else rep.fail("dyn.conn.pressure", "well=" + wname + " cell=" + std::to_string(xc.index));
        }
        if (!well.isMultiSegment()) continue;
        const auto& segs = well.getSegments();
        const auto& us = cs.es.getUnits();
        for (std::size_t sidx = 0; sidx < segs.size(); ++sidx) {
            const int segno = segs[sidx].segmentNumber();
            const auto sit = lw.segments.find(segno);
            if (sit == lw.segments.end()) { rep.fail("dyn.segment.missing", "well=" + wname + " segment=" + std::to_string(segno)); continue; }
            const auto qe = sim.seg_expected.at({wname, segno});
            const std::array<double, 3> q{qe[0], qe[1], qe[2]};
            ++nseg;
            // scale of the stored total (output units) decides what "equal" means for the parts recovered from fractions
            const double so = std::abs(us.from_si(M::liquid_surface_rate, q[0])), sw = std::abs(us.from_si(M::liquid_surface_rate, q[1])), sg = std::abs(us.from_si(M::gas_surface_rate, q[2]));
            const double tot = so + sw + sg + 1e-300;
            const char* nm[] = {"oil", "water", "gas"};
            const RO ph[] = {RO::oil, RO::wat, RO::gas};
            const M mm[] = {M::liquid_surface_rate, M::liquid_surface_rate, M::gas_surface_rate};
            for (int k = 0; k < 3; ++k) {
                const double got = sit->second.rates.get(ph[k], 0.0);
                const double tol = std::abs(us.to_si(mm[k], 1e-9 * tot * (k == 2 ? 1000.0 : k == 1 ? 10.0 : 1.0)));
                if (std::abs(got - q[k]) <= tol + 1e-9 * std::abs(q[k])) rep.ok();
                else rep.fail(std::string(sim.segment_results ? "dyn.segment." : "dyn.segment-derived.") + nm[k] + "_rate", "well=" + wname + (well.isProducer() ? " (producer)" : " (injector)") + " segment=" + std::to_string(segno)
                              + " units=" + us.getName() + " expected(sum of connection rates)=" + std::to_string(q[k]) + " restored=" + std::to_string(got));
            }
            const double pr = sit->second.pressures[Opm::data::SegmentPressures::Value::Pressure];
            if (close(pr, qe[3], 1e-10, 0.0)) rep.ok(); else rep.fail("dyn.segment.pressure", "well=" + wname + " segment=" + std::to_string(segno));
        }
    }
}

struct CaseStats { long segments_restored = 0; long cases = 0, rejected = 0, steps = 0, actions_triggered = 0, with_udq = 0, with_actions = 0, with_msw = 0, with_network = 0, with_wlist = 0; };

// One (deck, restart step) instance.  `tail_text`: non-empty -> the restarted deck is this text (schedule tail only,
// no SKIPREST); empty -> the original deck with SKIPREST.
bool run_instance(vh::Rng& rng, const Opm::Deck& deck, std::size_t rs, const std::string& tail_text, const std::string& workdir,
                  Reporter& rep, CaseStats& stats, const std::string& label, bool formatted, bool unified)
{
    std::unique_ptr<Case> csp;
    try { csp = std::make_unique<Case>(deck); }
    catch (const std::exception& e) { stats.rejected++; if (rep.verbose) std::cout << "deck rejected: " << e.what() << "\n"; return false; }
    Case& cs = *csp;
    if (rs < 1 || rs >= cs.sched.size()) return false;
    cs.es.getIOConfig().setEclCompatibleRST(false);
    rep.where = label + " restart_step=" + std::to_string(rs) + (tail_text.empty() ? " skiprest" : " tail");
    rep.seen.clear();
    std::filesystem::remove_all(workdir);
    std::filesystem::create_directories(workdir);

    Sim sim(cs);
    try {
        for (std::size_t k = 1; k <= rs; ++k) {
            sim.advance(rng, k);
            if (k == rs) break;           // the file is written before the actions of the same time level run (msim order)
            stats.actions_triggered += sim.run_actions(k);
        }
        sim.save(rs, workdir, "CASE", formatted, unified);
    } catch (const std::exception& e) {
        rep.fail("rstsched.save-throws", e.what());
        return true;
    }
    try { check_dynamic(cs, sim, rs, rst_file_name(workdir, "CASE", rs, formatted, unified), rep, stats.segments_restored); }
    catch (const std::exception& e) { rep.fail("dyn.load-throws", e.what()); }
    const Opm::Schedule original = cs.sched;          // the schedule the writer saw
    const std::size_t sim_step = rs - 1;

    std::unique_ptr<Case> rcs;
    std::optional<Opm::RestartIO::RstState> state;
    try {
        auto erst = std::make_shared<Opm::EclIO::ERst>(rst_file_name(workdir, "CASE", rs, formatted, unified));
        auto view = std::make_shared<Opm::EclIO::RestartFileView>(erst, static_cast<int>(rs));
        state.emplace(Opm::RestartIO::RstState::load(view, cs.es.runspec(), Opm::Parser{}, &cs.grid));
        const Opm::Deck rdeck = tail_text.empty() ? with_skiprest(deck) : parse(tail_text, false);
        rcs = std::make_unique<Case>(rdeck, &*state);
    } catch (const std::exception& e) {
        const std::string msg = e.what();
        const std::string cls = msg.find("control mode") != std::string::npos ? "undefined-control-mode"
                              : msg.find("map::at") != std::string::npos ? "map-at"
                              : (msg.find("manual to automatic") != std::string::npos || msg.find("SKIPREST") != std::string::npos) ? "skiprest-time-mismatch" : "other";
        rep.fail("rstsched.restart-throws." + cls, msg);
        return true;
    }
    const Opm::Schedule& restarted = rcs->sched;
    stats.cases++;
    if (original[sim_step].udq().size() > 0) stats.with_udq++;
    if (original[sim_step].actions().ecl_size() > 0) stats.with_actions++;
    if (original[sim_step].network().active()) stats.with_network++;
    for (const auto& w : original.wellNames(sim_step)) if (original.getWell(w, sim_step).isMultiSegment()) { stats.with_msw++; break; }

    if (original.size() != restarted.size()) { rep.fail("sched.size", "original " + std::to_string(original.size()) + " restarted " + std::to_string(restarted.size())); return true; }
    Options opt;
    opt.restart_time = Opm::TimeService::to_time_t(original[rs].start_time());
    for (const auto& [wname, w] : sim.xw) {
        const bool flowing = std::any_of(w.connections.begin(), w.connections.end(), [](const Opm::data::Connection& c) { return c.rates.flowing(); });
        if (w.dynamicStatus == Opm::Well::Status::STOP && !flowing) opt.stop_as_shut.insert(wname);
    }
    for (std::size_t step = sim_step; step < original.size(); ++step) {
        Dump a, b;
        opt.times = step > sim_step;
        opt.wlist_names.clear();
        for (const auto* sp : { &original, &restarted }) {
            const auto& wlm = (*sp)[step].wlist_manager();
            for (const auto& wname : sp->wellNames(step)) if (wlm.hasWList(wname)) for (const auto& l : wlm.getWListNames(wname)) opt.wlist_names.insert(l);
        }
        try { dump_step(a, original, step, sim.st, opt); }
        catch (const std::exception& e) { rep.fail("sched.dump-original-throws", "step=" + std::to_string(step) + " " + e.what()); continue; }
        try { dump_step(b, restarted, step, sim.st, opt); }
        catch (const std::exception& e) { rep.fail("sched.dump-restarted-throws", "step=" + std::to_string(step) + " " + e.what()); continue; }
        compare(a, b, step, rep, step == sim_step ? "sched" : "sched");
        stats.steps++;
    }
    // dynamic side of UDQ / ACTIONX
    try {
        Opm::UDQState u2(cs.es.runspec().udqParams().undefinedValue());
        u2.load_rst(*state);
        compare_udq_state(original, sim_step, sim.udq, u2, rep);
        Opm::Action::State a2;
        a2.load_rst(restarted[sim_step].actions(), *state);
        compare_action_state(original[sim_step].actions(), restarted[sim_step].actions(), sim.as, a2, original.getStartTime(), rep);
    } catch (const std::exception& e) {
        rep.fail("rstsched.state-load-throws", e.what());
    }
    if (!std::getenv("RSTSCHED_KEEP")) std::filesystem::remove_all(workdir);
    return true;
}

// ---------------------------------------------------------------------------------------------
// shipped decks

struct Shipped { const char* file; std::vector<int> steps; };

const std::vector<Shipped>& shipped()
{
    static const std::vector<Shipped> v = {
        {"tests/SPE1CASE2.DATA", {1, 30, 60, 100}},
        {"tests/UDQ_ACTIONX.DATA", {1, 3, 7, 10}},
        {"tests/UDQ_WCONPROD.DATA", {2, 6, 10}},
        {"tests/ACTIONX_M1.DATA", {3, 10, 12}},
        {"tests/MSW.DATA", {1, 2}},
        {"tests/MSW_2WELSEGS.DATA", {1, 2}},
        {"tests/UDQ_BASE.DATA", {2, 5}},
        {"tests/TEST_WLIST.DATA", {1, 2, 3}},
        {"tests/0A4_GRCTRL_LRAT_LRAT_GGR_BASE_MODEL2_MSW_ALL.DATA", {1, 3}},
        {"tests/9_4C_WINJ_GINJ_UDQ_MSW-UDARATE_TEST_PACK.DATA", {1, 3}},
        {"tests/2_WLIFT_MODEL5_NOINC.DATA", {1, 3}},
        {"tests/5_NETWORK_MODEL5_STDW_NETBAL_PACK.DATA", {1, 3}},
        {"tests/TEST_AGGREGATE_MSW.DATA", {1, 2}},
    };
    return v;
}

// ---------------------------------------------------------------------------------------------
// generated models
struct GenModel {
    std::string units; int nsteps = 0;
    std::string header;                 // RUNSPEC .. SOLUTION
    std::string always;                 // schedule keywords every restart deck keeps (VFP tables)
    std::vector<std::string> blocks;    // blocks[k]: keywords of report step k (k = 0 .. nsteps-1)
    std::vector<std::string> dates;     // dates[k]: the DATES record that starts block k (k >= 1)
    std::string full;
    std::string tail(std::size_t rs) const {
        std::string t = header + "SCHEDULE\n" + always;
        for (std::size_t k = rs; k < blocks.size(); ++k) {
            if (k > rs) t += "DATES\n " + dates[k] + " /\n/\n";
            t += blocks[k];
        }
        t += "DATES\n " + dates[blocks.size()] + " /\n/\nEND\n";
        return t;
    }
    void finish() {
        full = header + "SCHEDULE\n" + always;
        for (std::size_t k = 0; k < blocks.size(); ++k) {
            if (k > 0) full += "DATES\n " + dates[k] + " /\n/\n";
            full += blocks[k];
        }
        full += "DATES\n " + dates[blocks.size()] + " /\n/\nEND\n";
    }
};

std::string num(double x) { std::ostringstream o; o.precision(10); o << x; return o.str(); }

bool g_with_sicd = true;      // WSEGSICD segments in the generated multi-segment wells

struct GWell {
    std::string name, group; int i, j, k0, nc; bool producer, history; char injphase; int born; bool msw; bool shut;
    double orat, wrat, grat, bhp, efac; bool bottom_up; int ctrl_from; int sattab;
};

GenModel make_model(vh::Rng& rng, int c)
{
    GenModel m;
    static const std::vector<std::string> U = {"METRIC", "FIELD", "LAB", "PVT-M"};
    m.units = U[c % 4];
    const double qthr = (m.units == "FIELD") ? 2700.0 : (m.units == "LAB") ? 1.8e7 : 400.0;    // median oil rate of the simulator loop, output units
    const int nx = rng.range(4, 6), ny = rng.range(4, 6), nz = rng.range(3, 5);
    const int n = nx * ny * nz;
    const int nblocks = rng.range(3, 5);
    m.nsteps = nblocks;
    const bool with_msw = rng.coin(1, 3), with_udq = rng.coin(2, 3), with_act = rng.coin(1, 2), with_net = rng.coin(1, 4),
               with_wlist = rng.coin(1, 3), with_gcon = rng.coin(2, 3), with_node = rng.coin(), with_wtest = rng.coin(1, 3),
               with_guiderat = rng.coin(1, 4), with_glo = rng.coin(1, 5), exact_groups = rng.coin(), late_parent = rng.coin();
    const bool sicd_ok = g_with_sicd;
    static const char* mon[] = {"JAN", "FEB", "MAR", "APR", "MAY", "JUN", "JUL", "AUG"};
    m.dates.resize(nblocks + 1);
    for (int k = 1; k <= nblocks; ++k) m.dates[k] = std::string("1 '") + mon[k] + "' 2020";

    std::vector<std::string> groups;
    const int ng = rng.range(1, 3);
    for (int g = 0; g < ng; ++g) groups.push_back("G" + std::to_string(g + 1));
    std::vector<GWell> wells;
    const int nw = rng.range(3, 7);
    std::vector<char> used(nx * ny, 0);
    for (int w = 0; w < nw; ++w) {
        GWell ws;
        ws.producer = (w == 0) ? true : (w == 1 ? false : rng.coin(2, 3));
        ws.name = std::string(ws.producer ? "P" : "I") + std::to_string(w + 1);
        ws.group = groups[rng.below(groups.size())];
        int col; do { col = static_cast<int>(rng.below(nx * ny)); } while (used[col]);
        used[col] = 1; ws.i = col % nx; ws.j = col / nx;
        ws.nc = rng.range(1, std::min(3, nz)); ws.k0 = rng.range(0, nz - ws.nc);
        ws.history = rng.coin(1, 4);
        ws.injphase = rng.coin(2, 3) ? 'W' : 'G';
        ws.born = (w >= 2 && rng.coin(1, 4)) ? rng.range(1, nblocks - 1) : 0;
        ws.msw = with_msw && ws.born == 0 && (w <= 1 ? rng.coin(2, 3) : rng.coin());
        if (ws.msw && nz >= 3) { ws.nc = rng.range(2, std::min(4, nz)); ws.k0 = rng.range(0, nz - ws.nc); }
        ws.bottom_up = rng.coin(1, 3);
        ws.ctrl_from = ((w >= 2) && rng.coin(1, 6)) ? std::min(nblocks - 1, ws.born + rng.range(1, 2)) : ws.born;   // first control keyword later than WELSPECS / COMPDAT
        ws.sattab = rng.coin(1, 3) ? rng.range(1, 3) : 0;
        ws.shut = rng.coin(1, 6);
        ws.orat = 100.0 * rng.range(1, 50); ws.wrat = 50.0 * rng.range(1, 40); ws.grat = 1000.0 * rng.range(1, 90);
        ws.bhp = 50.0 + rng.range(0, 300); ws.efac = rng.coin() ? 1.0 : 0.05 * rng.range(10, 19);
        wells.push_back(ws);
    }

    std::ostringstream h;
    h << "RUNSPEC\nTITLE\n C05S\nDIMENS\n " << nx << " " << ny << " " << nz << " /\nOIL\nGAS\nWATER\n" << m.units << "\n"
      << "START\n 1 'JAN' 2020 /\nWELLDIMS\n 12 8 " << (exact_groups ? ng + (with_node ? 1 : 0) : 6) << " 12 6* 4 10 /\nWSEGDIMS\n 4 12 4 /\nUDQDIMS\n 50 25 0 50 50 0 0 50 0 20 /\nUDADIMS\n 10 1* 10 /\n"
      << "ACTDIMS\n 6 20 80 4 /\n";
    if (with_net) h << "NETWORK\n 6 5 /\n";
    h << "TABDIMS\n 3 /\nGRID\n"
      << "DXV\n " << nx << "*100 /\nDYV\n " << ny << "*100 /\nDZV\n " << nz << "*10 /\n"
      << "DEPTHZ\n " << (nx + 1) * (ny + 1) << "*2000 /\n"
      << "PORO\n " << n << "*0.2 /\nPERMX\n " << n << "*100 /\nPERMY\n " << n << "*100 /\nPERMZ\n " << n << "*10 /\n"
      << "PROPS\nDENSITY\n 800 1000 1 /\nSOLUTION\n";      // the network writer averages surface densities (DENSITY must exist)
    m.header = h.str();

    auto born_in = [&](int k) { std::vector<const GWell*> v; for (auto& w : wells) if (w.born == k) v.push_back(&w); return v; };
    auto alive = [&](int k) { std::vector<const GWell*> v; for (auto& w : wells) if (w.born <= k) v.push_back(&w); return v; };

    auto specs = [&](std::ostringstream& o, const std::vector<const GWell*>& ws) {
        if (ws.empty()) return;
        o << "WELSPECS\n";
        for (auto* w : ws)
            o << " '" << w->name << "' '" << w->group << "' " << w->i + 1 << " " << w->j + 1 << " " << (rng.coin(3, 4) ? num(2000.0 + rng.range(0, 30)) : std::string("1*"))
              << " '" << (w->producer ? (rng.coin(2, 3) ? "OIL" : (rng.coin() ? "GAS" : "WATER")) : (w->injphase == 'W' ? "WATER" : "GAS")) << "' " << (rng.coin() ? "0" : num(10.0 * rng.range(1, 20)))
              << " 'STD' 'SHUT' '" << (rng.coin() ? "YES" : "NO") << "' /\n";
        o << "/\nCOMPDAT\n";
        for (auto* w : ws) for (int cq = 0; cq < w->nc; ++cq) {
            const int cidx = w->bottom_up ? w->nc - 1 - cq : cq;        // COMPDAT records bottom-up: input order != along-track order
            o << " '" << w->name << "' " << w->i + 1 << " " << w->j + 1 << " " << w->k0 + cidx + 1 << " " << w->k0 + cidx + 1 << " '"
              << ((rng.coin(5, 6) || cidx == 0) ? "OPEN" : "SHUT") << "' " << (w->sattab ? std::to_string(1 + (w->sattab + cidx) % 3) : std::string("1*")) << " 1* " << num(0.1 + 0.05 * rng.range(1, 6)) << " 1* " << num(0.5 * rng.range(0, 4)) << " 1* '" << "ZXY"[rng.below(3)] << "' /\n";
        }
        o << "/\n";
        for (auto* w : ws) if (w->msw) {
            o << "WELSEGS\n '" << w->name << "' " << num(2000.0 + 10.0 * w->k0) << " 0 1* 'ABS' '" << (rng.coin() ? "HFA" : "HF-") << "' /\n";
            for (int s = 0; s < w->nc; ++s)
                o << " " << s + 2 << " " << s + 2 << " 1 " << s + 1 << " " << num(10.0 * (s + 1)) << " " << num(2000.0 + 10.0 * w->k0 + 10.0 * (s + 1)) << " 0.2 0.0001 /\n";
            o << "/\nCOMPSEGS\n '" << w->name << "' /\n";
            for (int s = 0; s < w->nc; ++s)
                o << " " << w->i + 1 << " " << w->j + 1 << " " << w->k0 + s + 1 << " 1 " << num(10.0 * s) << " " << num(10.0 * (s + 1)) << " /\n";
            o << "/\n";
            const int dev = rng.range(0, 2);
            if (dev == 0) o << "WSEGVALV\n '" << w->name << "' " << w->nc + 1 << " 0.7 " << num(0.001 * rng.range(1, 9)) << " /\n/\n";
            else if (dev == 1 && sicd_ok)
                o << "WSEGSICD\n '" << w->name << "' " << w->nc + 1 << " " << w->nc + 1 << " " << num(0.0001 * rng.range(1, 9)) << " " << num(1.0 * rng.range(5, 20)) << " 1000.25 1.45 0.5 "
                  << num(0.01 * rng.range(1, 9)) << " 5 -1 " << (rng.coin() ? num(100.0 * rng.range(1, 30)) : std::string("1*")) << " 'OPEN' /\n/\n";
        }
    };
    auto controls = [&](std::ostringstream& o, const std::vector<const GWell*>& ws_all, double scale, bool uda_ok, int kblock) {
        std::vector<const GWell*> ws;
        for (auto* w : ws_all) if (w->ctrl_from <= kblock) ws.push_back(w);
        for (auto& w : wells) if (w.ctrl_from == kblock && w.born < kblock && std::find(ws.begin(), ws.end(), &w) == ws.end()) ws.push_back(&w);
        bool any;
        any = false; for (auto* w : ws) any = any || (w->producer && !w->history);
        if (any) {
            o << "WCONPROD\n";
            for (auto* w : ws) if (w->producer && !w->history) {
                static const char* cm[] = {"ORAT", "ORAT", "LRAT", "GRAT", "BHP", "WRAT", "RESV"};
                const std::string mode = cm[rng.below(7)];
                const bool uda = uda_ok && mode == "ORAT" && rng.coin(1, 3);
                o << " '" << w->name << "' '" << (w->shut ? "SHUT" : "OPEN") << "' '" << mode << "' " << (uda ? std::string("'WUORAT'") : num(w->orat * scale)) << " "
                  << (mode == "WRAT" || rng.coin() ? num(w->wrat * scale) : std::string("1*")) << " " << (mode == "GRAT" || rng.coin() ? num(w->grat * scale) : std::string("1*")) << " "
                  << (mode == "LRAT" || rng.coin(1, 3) ? num((w->orat + w->wrat) * scale) : std::string("1*")) << " " << (mode == "RESV" ? num(2 * w->orat * scale) : std::string("1*"))
                  << " " << num(w->bhp) << " /\n";
            }
            o << "/\n";
        }
        any = false; for (auto* w : ws) any = any || (w->producer && w->history);
        if (any) {
            o << "WCONHIST\n";
            for (auto* w : ws) if (w->producer && w->history)
                o << " '" << w->name << "' '" << (w->shut ? "SHUT" : "OPEN") << "' '" << (rng.coin() ? "ORAT" : "LRAT") << "' " << num(w->orat * scale) << " " << num(w->wrat * scale)
                  << " " << num(w->grat * scale) << " /\n";
            o << "/\n";
        }
        any = false; for (auto* w : ws) any = any || (!w->producer && !w->history);
        if (any) {
            o << "WCONINJE\n";
            for (auto* w : ws) if (!w->producer && !w->history)
                o << " '" << w->name << "' '" << (w->injphase == 'W' ? "WATER" : "GAS") << "' '" << (w->shut ? "SHUT" : "OPEN") << "' '" << (rng.coin(3, 4) ? "RATE" : "BHP") << "' "
                  << num((w->injphase == 'W' ? w->wrat : w->grat) * scale) << " 1* " << num(w->bhp + 200) << " /\n";
            o << "/\n";
        }
        any = false; for (auto* w : ws) any = any || (!w->producer && w->history);
        if (any) {
            o << "WCONINJH\n";
            for (auto* w : ws) if (!w->producer && w->history)
                o << " '" << w->name << "' '" << (w->injphase == 'W' ? "WATER" : "GAS") << "' '" << (w->shut ? "SHUT" : "OPEN") << "' "
                  << num((w->injphase == 'W' ? w->wrat : w->grat) * scale) << " /\n";
            o << "/\n";
        }
    };
    auto gconprod = [&](std::ostringstream& o, const std::string& g, double scale, bool uda_ok) {
        static const char* cm[] = {"ORAT", "LRAT", "GRAT", "WRAT", "NONE", "FLD"};
        const std::string mode = (g == "FIELD") ? std::string(cm[rng.below(5)]) : std::string(cm[rng.below(6)]);
        const bool uda = uda_ok && rng.coin(1, 3);
        o << " '" << g << "' '" << mode << "' " << (uda ? std::string("'FUORAT'") : num(5000.0 * scale)) << " " << (mode == "WRAT" || rng.coin() ? num(3000.0 * scale) : std::string("1*")) << " "
          << (mode == "GRAT" || rng.coin() ? num(90000.0 * scale) : std::string("1*")) << " " << (mode == "LRAT" || rng.coin() ? num(7000.0 * scale) : std::string("1*"))
          << " '" << (rng.coin() ? "RATE" : "NONE") << "' '" << (g == "FIELD" || rng.coin() ? "YES" : "NO") << "' " << (rng.coin(1, 3) ? num(1.0 * rng.range(1, 9)) + " 'OIL'" : std::string("1* 1*")) << " /\n";
    };

    m.blocks.resize(nblocks);
    std::set<std::string> prd_members;
    for (int k = 0; k < nblocks; ++k) {
        std::ostringstream o;
        const double scale = 1.0 + 0.25 * k;
        const auto fresh = born_in(k);
        const auto live = alive(k);
        auto gruptree = [&]() {
            o << "GRUPTREE\n";
            if (with_node && !late_parent) o << " 'PLAT' 'FIELD' /\n";
            bool any_child = false;
            for (std::size_t gi = 0; gi < groups.size(); ++gi) {
                const bool under = with_node && (rng.coin() || (late_parent && gi + 1 == groups.size() && !any_child));
                any_child = any_child || under;
                o << " '" << groups[gi] << "' '" << (under ? "PLAT" : "FIELD") << "' /\n";
            }
            o << "/\n";
        };
        // late_parent: the well groups exist (WELSPECS) before GRUPTREE names their parent, so the parent is the last group created
        if (k == 0 && !late_parent) gruptree();
        specs(o, fresh);
        if (k == 0 && late_parent) gruptree();
        if (k == 0 && with_udq) {
            o << "UDQ\n ASSIGN WUORAT " << num(qthr * 0.5) << " /\n DEFINE WUWC2 WWCT 'P*' * 2 /\n DEFINE FUORAT FOPR * 0.9 + " << num(qthr) << " /\n";
            if (rng.coin()) o << " DEFINE GUOPR GOPR * 0.5 /\n";
            if (rng.coin()) o << " UNITS WUORAT 'SM3/DAY' /\n";
            o << "/\n";
        }
        controls(o, k == 0 ? live : (rng.coin() ? live : fresh), scale, with_udq, k);
        if (with_gcon && (k == 0 || rng.coin(1, 3))) {
            o << "GCONPROD\n";
            for (auto& g : groups) if (rng.coin(2, 3)) gconprod(o, g, scale, with_udq);
            if (with_node && rng.coin()) gconprod(o, "PLAT", scale, false);
            if (rng.coin()) gconprod(o, "FIELD", scale, false);
            o << "/\n";
            if (rng.coin()) {
                o << "GCONINJE\n";
                const std::string g = rng.coin() ? groups[rng.below(groups.size())] : std::string("FIELD");
                const int mode = rng.range(0, 3);
                o << " '" << g << "' '" << (rng.coin(2, 3) ? "WATER" : "GAS") << "' ";
                if (mode == 0) o << "'RATE' " << num(4000.0 * scale) << " 3* ";
                else if (mode == 1) o << "'REIN' 2* " << num(0.1 * rng.range(5, 12)) << " 1* ";
                else if (mode == 2) o << "'VREP' 3* " << num(0.1 * rng.range(5, 12)) << " ";
                else o << "'RESV' 1* " << num(4500.0 * scale) << " 2* ";
                o << "'" << (g == "FIELD" || rng.coin() ? "YES" : "NO") << "' /\n/\n";
            }
        }
        if (rng.coin(1, 3)) { o << "GEFAC\n '" << groups[rng.below(groups.size())] << "' " << num(0.05 * rng.range(10, 20)) << " /\n/\n"; }
        {
            bool any = false; std::ostringstream q;
            for (auto* w : (k == 0 ? live : fresh)) if (w->efac != 1.0) { q << " '" << w->name << "' " << num(w->efac) << " /\n"; any = true; }
            if (any) o << "WEFAC\n" << q.str() << "/\n";
        }
        if (rng.coin(1, 3) && !live.empty()) {
            const auto* w = live[rng.below(live.size())];
            o << "WGRUPCON\n '" << w->name << "' '" << (rng.coin() ? "YES" : "NO") << "' " << num(0.5 * rng.range(1, 6)) << " '" << (w->producer ? "OIL" : "RAT") << "' " << num(0.25 * rng.range(1, 8)) << " /\n/\n";
        }
        if (rng.coin(1, 3)) {
            for (auto* w : live) if (w->producer && rng.coin()) {
                o << "WECON\n '" << w->name << "' " << num(w->orat / 50) << " " << num(w->grat / 40) << " 0.95 " << num(20000.0) << " 1* '" << (rng.coin() ? "CON" : "WELL") << "' '" << ((w->i + w->j) % 4 == 0 ? "YES" : "NO") << "' /\n/\n";   // (a WECON that changes only the end-run flag is ignored by the original Schedule: operator== skips it)
                break;
            }
        }
        if (with_wtest && rng.coin() && !live.empty()) {
            const auto* w = live[rng.below(live.size())];
            o << "WTEST\n '" << w->name << "' " << num(10.0 * rng.range(1, 9)) << " '" << (rng.coin() ? "PE" : "P") << "' " << rng.range(1, 5) << " " << rng.range(0, 3) << " /\n/\n";
        }
        if (with_wlist && (k == 0 || rng.coin(1, 3)) && !live.empty()) {
            o << "WLIST\n";
            if (k == 0) { o << " '*PRD' 'NEW'"; for (auto* w : live) if (w->producer) { o << " '" << w->name << "'"; prd_members.insert(w->name); } o << " /\n"; }
            const auto* w = live[rng.below(live.size())];
            if (k > 0) {
                // a list is never emptied: the file keeps well lists per member, so an emptied list does not exist after the restart
                // and a later WLIST ADD / DEL on it throws (recorded: design.d/C05.repro/EMPTY_WLIST.DATA)
                const bool del = rng.coin() && !(prd_members.count(w->name) && prd_members.size() < 2);
                o << " '*PRD' '" << (del ? "DEL" : "ADD") << "' '" << w->name << "' /\n";
                if (del) prd_members.erase(w->name); else prd_members.insert(w->name);
            }
            if (rng.coin()) o << " '*LST" << k << "' 'NEW' '" << w->name << "' /\n";
            o << "/\n";
        }
        if (with_guiderat && k == 0) o << "GUIDERAT\n " << num(30.0) << " 'OIL' 1.0 0.5 1.0 1.0 0.0 0.0 'YES' 0.5 /\n";
        if (with_glo && k == 0) {
            o << "LIFTOPT\n " << num(12500.0) << " " << num(5e-3) << " 0.0 'YES' /\n";
            for (auto* w : live) if (w->producer) { o << "WLIFTOPT\n '" << w->name << "' 'YES' " << num(150000.0) << " 1.01 " << num(10.0) << " /\n/\n"; break; }
            if (rng.coin()) o << "GLIFTOPT\n '" << groups[0] << "' " << num(200000.0) << " " << num(500000.0) << " /\n/\n";
        }
        if (with_net && k == 0) {
            o << "BRANPROP\n";
            for (auto& g : groups) o << " '" << g << "' '" << (with_node ? "PLAT" : "FIELD") << "' 9999 /\n";
            if (with_node) o << " 'PLAT' 'FIELD' 9999 /\n";
            o << "/\nNODEPROP\n 'FIELD' " << num(20.0 + rng.range(0, 20)) << " /\n";
            for (auto& g : groups) o << " '" << g << "' 1* '" << "NO" << "' /\n";
            o << "/\n";
        }
        if (k > 0 && rng.coin() && !live.empty()) {
            const auto* w = live[rng.below(live.size())];
            // (with UDAs in play only BHP: WELTARG with a number on a UDA-valued quantity leaves a stale UDQActive record in the
            //  ORIGINAL schedule — recorded in design.d/C05.md, reproduction design.d/C05.repro/UDA_WELTARG.DATA)
            if (w->producer && !w->history) { const bool orat = !with_udq && rng.coin(); o << "WELTARG\n '" << w->name << "' '" << (orat ? "ORAT" : "BHP") << "' " << num(orat ? w->orat * 0.5 : w->bhp + 10) << " /\n/\n"; }
        }
        std::vector<const GWell*> ctl;       // wells that have had a control keyword: only those are opened / shut by WELOPEN
        for (auto* w : live) if (w->ctrl_from <= k) ctl.push_back(w);
        if (k > 0 && rng.coin() && !ctl.empty()) {
            const auto* w = ctl[rng.below(ctl.size())];
            const int what = rng.range(0, 2);
            if (what == 0) o << "WELOPEN\n '" << w->name << "' '" << (rng.coin() ? "SHUT" : "OPEN") << "' /\n/\n";
            else if (what == 1) o << "WELOPEN\n '" << w->name << "' '" << (rng.coin() ? "SHUT" : "OPEN") << "' " << w->i + 1 << " " << w->j + 1 << " " << w->k0 + 1 << " /\n/\n";
            else if (!w->msw) o << "COMPDAT\n '" << w->name << "' " << w->i + 1 << " " << w->j + 1 << " " << w->k0 + 1 << " " << w->k0 + 1 << " 'OPEN' 1* " << num(1.0 * rng.range(1, 20)) << " 0.3 /\n/\n";
        }
        if (k > 0 && with_udq && rng.coin(1, 3)) o << "UDQ\n DEFINE FUNEW" << k << " FWPR + " << k << " /\n ASSIGN WUORAT " << num(qthr * 0.25 * (k + 1)) << " /\n/\n";
        if (with_act && (k == 0 || rng.coin(1, 3)) && !live.empty()) {
            const auto* w = live[rng.below(live.size())];
            const int cond = rng.range(0, 3);
            o << "ACTIONX\n 'ACT" << k << "' " << rng.range(1, 3) << " " << (rng.coin() ? "0" : "40") << " /\n";
            if (cond == 0) o << " WWCT 'P*' > 0.5 /\n";
            else if (cond == 1) o << " FOPR > " << num(qthr * (0.5 + 0.5 * rng.range(0, 4))) << " AND /\n DAY >= 1 /\n";
            else if (cond == 2) o << " MNTH >= " << mon[rng.range(1, nblocks)] << " /\n";
            else o << " WOPR '" << wells[0].name << "' < " << num(qthr) << " /\n";
            o << "/\n";
            const int act = rng.range(0, 5);
            if (act == 0) o << "WELOPEN\n '" << (cond == 0 ? std::string("?") : w->name) << "' '" << ((rng.coin() || cond == 0 || w->ctrl_from > k) ? "SHUT" : "OPEN") << "' /\n/\n";
            else if (act == 1 && w->producer && !w->history && !with_udq) o << "WELTARG\n '" << w->name << "' 'ORAT' " << num(w->orat * 0.3) << " /\n/\n";
            else if (act == 2) { o << "GCONPROD\n"; gconprod(o, groups[rng.below(groups.size())], 0.5, false); o << "/\n"; }
            else if (act == 3) o << "WEFAC\n '" << w->name << "' " << num(0.05 * rng.range(8, 19)) << " /\n/\n";
            else if (act == 4 && with_udq) o << "UDQ\n ASSIGN WUORAT " << num(qthr * 0.125) << " /\n/\n";
            else o << "WELOPEN\n '" << w->name << "' 'SHUT' /\n/\n";
            o << "ENDACTIO\n";
        }
        m.blocks[k] = o.str();
    }
    m.finish();
    return m;
}

void write_stats(const std::string& path, const vh::PropLog& log, const CaseStats& s, const std::map<std::string, long>& extra)
{
    std::ofstream f(path);
    f << "{\n  \"checked\": " << log.checked << ",\n  \"failed\": " << log.failed
      << ",\n  \"instances\": " << s.cases << ",\n  \"decks_rejected\": " << s.rejected << ",\n  \"steps_compared\": " << s.steps
      << ",\n  \"actions_triggered_before_restart\": " << s.actions_triggered << ",\n  \"instances_with_udq\": " << s.with_udq
      << ",\n  \"instances_with_actions\": " << s.with_actions << ",\n  \"instances_with_msw\": " << s.with_msw
      << ",\n  \"instances_with_network\": " << s.with_network << ",\n  \"segments_restored\": " << s.segments_restored;
    for (auto& kv : extra) f << ",\n  \"" << kv.first << "\": " << kv.second;
    f << "\n}\n";
}

int run_prop(uint64_t seed, const std::string& tier, const std::string& outdir)
{
    vh::PropLog log(outdir + "/prop.txt");
    g_with_sicd = true;      // WSEGSICD segments in the generated models (two recorded findings live there)
    vh::Rng rng(seed * 104729 + 5);
    Reporter rep; rep.log = &log;
    CaseStats stats;
    std::map<std::string, long> extra;
    const std::string work = outdir + "/rs_work";
    const bool thorough = tier == "thorough";
    // shipped decks: quick = one restart step per deck (rotating with the seed), thorough = all listed
    for (const auto& sd : shipped()) {
        const std::string path = std::string(VERIF_REPO_DIR) + "/" + sd.file;
        Opm::Deck deck;
        try { deck = parse(path, true); }
        catch (const std::exception& e) { extra["shipped_unparsed"]++; std::cerr << sd.file << ": " << e.what() << "\n"; continue; }
        std::vector<int> steps = sd.steps;
        if (!thorough) steps = { sd.steps[seed % sd.steps.size()] };
        for (int rs : steps) {
            const int variant = static_cast<int>(rng.below(4));
            if (run_instance(rng, deck, rs, "", work, rep, stats, sd.file, variant & 1, variant & 2)) extra["shipped_instances"]++;
        }
    }
    // fixed reproduction decks of recorded findings (every difference under one key)
    for (auto [file, key, rs] : { std::tuple<const char*, const char*, int>{"NOCONTROL.DATA", "rstsched.well-without-controls", 2},
                                  {"UDA_WELTARG.DATA", "sched.uda-replaced-by-weltarg", 2},
                                  {"EMPTY_WLIST.DATA", "rstsched.emptied-well-list", 2},
                                  {"ACTIONX_CONSTANT.DATA", "rstsched.actionx-constant-reformatted", 2},
                                  {"ACTIONX_DATEPAREN.DATA", "rstsched.actionx-date-parenthesis", 2} }) {
        const std::string path = std::string(VERIF_DIR) + "/design.d/C05.repro/" + file;
        try {
            const auto deck = parse(path, true);
            rep.key_override = key;
            if (run_instance(rng, deck, rs, "", work, rep, stats, file, false, false)) extra["repro_instances"]++;
        } catch (const std::exception& e) { extra["repro_unparsed"]++; std::cerr << file << ": " << e.what() << "\n"; }
        rep.key_override.clear();
    }
    const int ngen = thorough ? 400 : 40;
    for (int c = 0; c < ngen; ++c) {
        vh::Rng crng(seed * 1000003ull + 7919ull * static_cast<uint64_t>(c) + 11);     // `rstsched gen <seed> <c>` replays exactly this case
        const auto gm = make_model(crng, c);
        const std::size_t rs = static_cast<std::size_t>(crng.range(1, gm.nsteps - 1));
        const bool tail = crng.coin();
        const int variant = static_cast<int>(crng.below(4));
        vh::spit(outdir + "/current_input.DATA", "-- generated#" + std::to_string(c) + " restart step " + std::to_string(rs) + (tail ? " tail" : " skiprest") + "\n" + gm.full);
        Opm::Deck deck;
        try { deck = parse(gm.full, false); }
        catch (const std::exception& e) { stats.rejected++; std::cerr << "generated deck does not parse: " << e.what() << "\n" << gm.full; continue; }
        if (run_instance(crng, deck, rs, tail ? gm.tail(rs) : std::string(), work, rep, stats, "generated#" + std::to_string(c) + "(" + gm.units + ")", variant & 1, variant & 2))
            extra[std::string("generated_") + (tail ? "tail" : "skiprest")]++;
    }
    std::filesystem::remove(outdir + "/current_input.DATA");
    for (const auto& kv : rep.instances) extra["instances_failing." + kv.first] = kv.second;
    write_stats(outdir + "/prop_stats.json", log, stats, extra);
    return 0;
}

// ---------------------------------------------------------------------------------------------
// correspondence: the real RstSegment against the model's decoding of the same ISEG / RSEG windows (Gen/RstMsw.lean)

#define MEASURES(X) X(identity) X(length) X(time) X(pressure) X(liquid_surface_rate) X(gas_surface_rate) X(rate) \
    X(liquid_surface_volume) X(gas_surface_volume) X(volume) X(geometric_volume) X(geometric_volume_rate) X(density) X(viscosity) \
    X(icd_strength) X(aicd_strength)

std::string ublock(const Opm::UnitSystem& us)
{
    std::ostringstream o;
    int k = 0;
#define CNT(m) ++k;
    MEASURES(CNT)
#undef CNT
    o << "U " << k;
#define ONE(m) { const double off = us.to_si(M::m, 0.0); const double f = us.from_si(M::m, off + 1.0); const double t = us.to_si(M::m, 1.0) - off; \
                 o << " " #m " " << vh::hexF64(f) << " " << vh::hexF64(t) << " " << vh::hexF64(off); }
    MEASURES(ONE)
#undef ONE
    return o.str();
}

int run_corr(uint64_t seed, const std::string& tier, const std::string& outdir)
{
    vh::Sink sink(outdir);
    g_with_sicd = true;
    const int want = tier == "thorough" ? 400 : 40;
    int wells_done = 0;
    for (int c = 0; c < 4000 && wells_done < want; ++c) {
        vh::Rng crng(seed * 999983ull + 31ull * static_cast<uint64_t>(c) + 3);
        const auto gm = make_model(crng, c);
        if (gm.full.find("WELSEGS") == std::string::npos) continue;
        std::unique_ptr<Case> csp;
        try { csp = std::make_unique<Case>(parse(gm.full, false)); }
        catch (const std::exception& e) { sink.count("deck_rejected"); continue; }
        Case& cs = *csp;
        const std::size_t rs = static_cast<std::size_t>(crng.range(1, gm.nsteps - 1));
        Sim sim(cs);
        sim.segment_results = crng.coin();
        try { for (std::size_t k = 1; k <= rs; ++k) sim.advance(crng, k); }
        catch (const std::exception& e) { sink.count("sim_failed"); continue; }
        const std::size_t sim_step = rs - 1;
        const auto& us = cs.es.getUnits();
        const auto ih = Opm::RestartIO::Helpers::createInteHead(cs.es, cs.grid, cs.sched, 0.0, static_cast<int>(sim_step), static_cast<int>(rs), static_cast<int>(sim_step));
        namespace VI = Opm::RestartIO::Helpers::VectorItems;
        auto md = Opm::RestartIO::Helpers::AggregateMSWData(ih);
        md.captureDeclaredMSWData(cs.sched, sim_step, us, ih, cs.grid, sim.st, sim.xw);
        const auto& iseg = md.getISeg(); const auto& rseg = md.getRSeg();
        const int nisegz = ih[VI::intehead::NISEGZ], nrsegz = ih[VI::intehead::NRSEGZ], nsegmx = ih[VI::intehead::NSEGMX];
        const std::string U = ublock(us);
        sink.count("case." + gm.units);
        int msw_index = 0;
        for (const auto& wname : cs.sched.wellNames(sim_step)) {
            const auto& well = cs.sched.getWell(wname, sim_step);
            if (!well.isMultiSegment()) continue;
            ++msw_index; ++wells_done;
            sink.count(well.isProducer() ? "msw.producer" : "msw.injector");
            for (int is = 0; is < nsegmx; ++is) {
                const std::size_t io = static_cast<std::size_t>(nisegz) * (is + (msw_index - 1) * nsegmx), ro = static_cast<std::size_t>(nrsegz) * (is + (msw_index - 1) * nsegmx);
                if (iseg[io + VI::ISeg::SegNo] == 0) continue;
                const Opm::RestartIO::RstSegment sg(us, is + 1, iseg.data() + io, rseg.data() + ro);
                sink.count("segments");
                {
                    std::ostringstream w, f, a; int n = 0;
                    w << "W " << nisegz; for (int q = 0; q < nisegz; ++q) w << " " << iseg[io + q];
#define SI(member) { f << " segment." #member; a << (n++ ? " " : "") << static_cast<long>(sg.member); }
                    SI(outlet_segment) SI(branch) SI(segment_type) SI(icd_scaling_mode) SI(icd_status)
#undef SI
                    sink.emit("rstmsw.dec ISEG " + U + " " + w.str() + " F " + std::to_string(n) + f.str(), a.str());
                }
                {
                    std::ostringstream w, f, a; int n = 0;
                    w << "W " << nrsegz; for (int q = 0; q < nrsegz; ++q) w << " " << vh::hexF64(rseg[ro + q]);
#define SD(member) { f << " segment." #member; a << (n++ ? " " : "") << vh::hexF64(static_cast<double>(sg.member)); }
                    SD(dist_outlet) SD(outlet_dz) SD(diameter) SD(roughness) SD(area) SD(volume) SD(dist_bhp_ref) SD(node_depth) SD(total_flow)
                    SD(water_flow_fraction) SD(gas_flow_fraction) SD(pressure) SD(valve_length) SD(valve_area) SD(valve_flow_coeff) SD(valve_max_area)
                    SD(fluid_density) SD(fluid_viscosity) SD(critical_water_fraction) SD(transition_region_width) SD(max_emulsion_ratio)
                    SD(max_valid_flow_rate) SD(icd_length) SD(valve_area_fraction) SD(aicd_flowrate_exponent) SD(aicd_viscosity_exponent)
#undef SD
                    sink.emit("rstmsw.dec RSEG " + U + " " + w.str() + " F " + std::to_string(n) + f.str(), a.str());
                    sink.count("dec.fields", n + 5);
                }
            }
        }
    }
    sink.writeStats(outdir + "/stats.json");
    return 0;
}

int run_one(const std::string& deckfile, int rs, uint64_t seed)
{
    Reporter rep; rep.verbose = true;
    CaseStats stats;
    vh::Rng rng(seed);
    const auto deck = parse(deckfile, true);
    run_instance(rng, deck, rs, "", "/tmp/rstsched_one_" + std::to_string(::getpid()), rep, stats, deckfile, false, false);
    std::cout << "instances " << stats.cases << " steps " << stats.steps << " actions " << stats.actions_triggered << "\n";
    return 0;
}

int run_gen(uint64_t seed, int c)
{
    Reporter rep; rep.verbose = true;
    CaseStats stats;
    vh::Rng crng(seed * 1000003ull + 7919ull * static_cast<uint64_t>(c) + 11);
    const auto gm = make_model(crng, c);
    const std::size_t rs = static_cast<std::size_t>(crng.range(1, gm.nsteps - 1));
    const bool tail = crng.coin();
    const int variant = static_cast<int>(crng.below(4));
    std::cout << gm.full << "\n-- restart step " << rs << (tail ? " tail" : " skiprest") << "\n";
    if (tail && std::getenv("RSTSCHED_SHOW_TAIL")) std::cout << "---- tail\n" << gm.tail(rs) << "\n";
    const auto deck = parse(gm.full, false);
    run_instance(crng, deck, rs, tail ? gm.tail(rs) : std::string(), "/tmp/rstsched_gen_" + std::to_string(::getpid()), rep, stats, "gen", variant & 1, variant & 2);
    std::cout << "instances " << stats.cases << " rejected " << stats.rejected << " steps " << stats.steps << " actions " << stats.actions_triggered << "\n";
    return 0;
}

} // namespace

int main(int argc, char** argv)
{
    if (argc < 4) { std::cerr << "usage: rstsched prop <seed> <tier> <outdir> | one <deck> <step> [seed] | gen <seed> <index>\n"; return 2; }
    const std::string mode = argv[1];
    try {
        if (mode == "prop" && argc >= 5) {
            std::filesystem::create_directories(argv[4]);
            return run_prop(std::strtoull(argv[2], nullptr, 10), argv[3], argv[4]);
        }
        if (mode == "corr" && argc >= 5) {
            std::filesystem::create_directories(argv[4]);
            return run_corr(std::strtoull(argv[2], nullptr, 10), argv[3], argv[4]);
        }
        if (mode == "one") return run_one(argv[2], std::atoi(argv[3]), argc > 4 ? std::strtoull(argv[4], nullptr, 10) : 1);
        if (mode == "gen") return run_gen(std::strtoull(argv[2], nullptr, 10), std::atoi(argv[3]));
    } catch (const std::exception& e) {
        std::cerr << "harness error: " << e.what() << "\n";
        return 3;
    }
    return 2;
}
