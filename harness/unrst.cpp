// C08 harness: unified restart files under rewinds and truncation, on the real
// OutputStream::Restart / ERst / EclFile of the working tree.
//
//   unrst corr <seed> <tier> <outdir>   histories through the real writer vs the model (bytes),
//                                       truncated files through the real EclFile vs the model
//   unrst prop <seed> <tier> <outdir>   property on the implementation alone:
//                                       rewind == fresh file of survivors (formatted and
//                                       unformatted), steps increasing, earlier bytes kept;
//                                       every truncation offset: exact data or exception
#include "common/vh.hpp"

#include <opm/io/eclipse/EclFile.hpp>
#include <opm/io/eclipse/ERst.hpp>
#include <opm/io/eclipse/EclOutput.hpp>
#include <opm/io/eclipse/OutputStream.hpp>

#include <algorithm>
#include <filesystem>
#include <iostream>

using namespace Opm::EclIO;
namespace fs = std::filesystem;

namespace {

struct A {                       // one array of a step
    std::string name; char kind; // 'I','R','D','L','C'
    std::vector<int> iv; std::vector<float> fv; std::vector<double> dv; std::vector<bool> bv; std::vector<std::string> sv;
};
struct Step { int n; std::vector<A> arrs; };

std::string be(uint32_t v) { unsigned char b[4] = { (unsigned char)(v >> 24), (unsigned char)(v >> 16), (unsigned char)(v >> 8), (unsigned char) v }; return std::string((char*) b, 4); }
std::string padName(const std::string& n) { return n + std::string(8 - n.size(), ' '); }

std::string protoArr(const A& a) {
    std::string raw; const char* ty = ""; int esz = 4; size_t n = 0;
    switch (a.kind) {
    case 'I': ty = "INTE"; for (int v : a.iv) raw += be((uint32_t) v); n = a.iv.size(); break;
    case 'R': ty = "REAL"; for (float v : a.fv) { uint32_t u; std::memcpy(&u, &v, 4); raw += be(u); } n = a.fv.size(); break;
    case 'D': ty = "DOUB"; esz = 8; for (double v : a.dv) { uint64_t u; std::memcpy(&u, &v, 8); raw += be((uint32_t)(u >> 32)) + be((uint32_t) u); } n = a.dv.size(); break;
    case 'L': ty = "LOGI"; for (bool v : a.bv) raw += v ? std::string("\xff\xff\xff\xff", 4) : std::string(4, '\0'); n = a.bv.size(); break;
    case 'C': {
        size_t mx = 0; for (auto& s : a.sv) mx = std::max(mx, s.size());
        if (mx > 8) { ty = "C0NN"; esz = (int) mx; } else { ty = "CHAR"; esz = 8; }
        for (auto& s : a.sv) raw += s + std::string(esz - s.size(), ' ');
        n = a.sv.size(); break; }
    }
    return std::string(ty) + "," + std::to_string(esz) + "," + vh::hex(padName(a.name)) + "," + std::to_string(n) + "," + vh::hex(raw);
}

A randArr(vh::Rng& r) {
    static const std::vector<std::string> names = { "PRESSURE", "SWAT", "SGAS", "INTEHEAD", "LOGIHEAD", "DOUBHEAD", "ZWEL", "IWEL", "XCON", "RS", "STARTSOL", "ENDSOL" };
    A a; a.name = r.pick(names); a.kind = r.pick(std::vector<char>{ 'I', 'R', 'D', 'L', 'C' });
    size_t n = r.coin(1, 6) ? 0 : (r.coin(1, 10) ? 1000 + r.below(5) : r.below(12));
    const bool longStrings = r.coin(1, 3);     // strings of more than 8 characters are written as C0nn
    for (size_t i = 0; i < n; ++i) switch (a.kind) {
    case 'I': a.iv.push_back((int) (uint32_t) r.next()); break;
    case 'R': a.fv.push_back((float) (r.unit() * 400.0)); break;
    case 'D': a.dv.push_back(r.unit() * 1e5 - 3e4); break;
    case 'L': a.bv.push_back(r.coin()); break;
    case 'C': { std::string s = "W" + std::to_string(r.below(9999)); if (longStrings) s += "_LONGNAME" + std::to_string(r.below(999)); a.sv.push_back(s); } break;
    }
    return a;
}

void writeStepReal(const OutputStream::ResultSet& rs, const Step& st, bool fmt) {
    OutputStream::Restart rst(rs, st.n, OutputStream::Formatted{ fmt }, OutputStream::Unified{ true });
    for (auto& a : st.arrs) switch (a.kind) {
    case 'I': rst.write(a.name, a.iv); break;
    case 'R': rst.write(a.name, a.fv); break;
    case 'D': rst.write(a.name, a.dv); break;
    case 'L': rst.write(a.name, a.bv); break;
    case 'C': rst.write(a.name, a.sv); break;
    }
}

std::string rstName(const OutputStream::ResultSet& rs, bool fmt) { return rs.outputDir + "/" + rs.baseName + (fmt ? ".FUNRST" : ".UNRST"); }

std::vector<Step> survivors(const std::vector<Step>& h) {
    std::vector<Step> st;
    for (auto& s : h) {
        st.erase(std::remove_if(st.begin(), st.end(), [&](const Step& x) { return x.n >= s.n; }), st.end());
        st.push_back(s);
    }
    return st;
}

// enumerate all sequences of given length over the step alphabet
void allSeqs(const std::vector<int>& alphabet, int len, std::vector<int>& cur, std::vector<std::vector<int>>& out) {
    if ((int) cur.size() == len) { out.push_back(cur); return; }
    for (int s : alphabet) { cur.push_back(s); allSeqs(alphabet, len, cur, out); cur.pop_back(); }
}

std::vector<std::vector<int>> histories(const std::string& tier, vh::Rng& r) {
    std::vector<std::vector<int>> hs;
    std::vector<int> cur;
    if (tier == "thorough") {
        for (int len = 1; len <= 5; ++len) allSeqs({ 0, 1, 2, 3, 4 }, len, cur, hs);       // 3905 histories
        for (int i = 0; i < 200; ++i) { std::vector<int> h; int len = r.range(6, 14); for (int k = 0; k < len; ++k) h.push_back(r.range(0, 40)); hs.push_back(h); }
    } else {
        for (int len = 1; len <= 4; ++len) allSeqs({ 1, 2, 3 }, len, cur, hs);             // 120 histories
        for (int i = 0; i < 40; ++i) { std::vector<int> h; int len = r.range(5, 10); for (int k = 0; k < len; ++k) h.push_back(r.range(0, 12)); hs.push_back(h); }
    }
    return hs;
}

std::vector<Step> materialise(const std::vector<int>& h, vh::Rng& r, bool small) {
    std::vector<Step> out;
    for (int n : h) { Step s; s.n = n; int na = small ? r.range(0, 2) : r.range(0, 4); for (int i = 0; i < na; ++i) s.arrs.push_back(randArr(r)); out.push_back(s); }
    return out;
}

bool sameArrRead(ERst& rst, int step, const A& a, int occ) {
    switch (a.kind) {
    case 'I': return rst.getRestartData<int>(a.name, step, occ) == a.iv;
    case 'R': { auto& v = rst.getRestartData<float>(a.name, step, occ); return v.size() == a.fv.size() && std::memcmp(v.data(), a.fv.data(), 4 * v.size()) == 0; }
    case 'D': { auto& v = rst.getRestartData<double>(a.name, step, occ); return v.size() == a.dv.size() && std::memcmp(v.data(), a.dv.data(), 8 * v.size()) == 0; }
    case 'L': return rst.getRestartData<bool>(a.name, step, occ) == a.bv;
    case 'C': return rst.getRestartData<std::string>(a.name, step, occ) == a.sv;
    }
    return false;
}

} // namespace

int main(int argc, char** argv) {
    if (argc < 5) { std::cerr << "usage: unrst corr|prop <seed> <tier> <outdir>\n"; return 2; }
    const std::string mode = argv[1];
    const uint64_t seed = std::strtoull(argv[2], nullptr, 10);
    const std::string tier = argv[3];
    const std::string outdir = argv[4];
    fs::create_directories(outdir + "/tmp");
    vh::Rng rng(seed);
    OutputStream::ResultSet rs{ outdir + "/tmp", "CASE" };

    if (mode == "corr") {
        vh::Sink sink(outdir);
        auto hs = histories(tier, rng);
        std::string lastBytes;
        for (auto& hn : hs) {
            auto h = materialise(hn, rng, true);
            fs::remove(rstName(rs, false));
            bool threw = false;
            try { for (auto& s : h) writeStepReal(rs, s, false); } catch (const std::exception&) { threw = true; }
            std::string op = "unrst.run ";
            for (size_t i = 0; i < h.size(); ++i) {
                if (i) op += "|";
                op += std::to_string(h[i].n) + "=";
                for (size_t j = 0; j < h[i].arrs.size(); ++j) { if (j) op += ";"; op += protoArr(h[i].arrs[j]); }
            }
            std::string bytes = vh::slurp(rstName(rs, false));
            sink.emit(op, threw ? "err" : vh::hex(bytes));
            sink.count("history.len" + std::to_string(std::min<size_t>(h.size(), 6)));
            bool rewinds = false; for (size_t i = 1; i < hn.size(); ++i) if (hn[i] <= *std::max_element(hn.begin(), hn.begin() + i)) rewinds = true;
            sink.count(rewinds ? "history.with_rewind" : "history.monotone");
            if (!threw) lastBytes = bytes;
            // truncations of this file through the real EclFile vs model decode
            if (!threw && !bytes.empty() && rng.coin(1, tier == "thorough" ? 20 : 4)) {
                int ncut = tier == "thorough" ? 40 : 10;
                for (int c = 0; c < ncut; ++c) {
                    std::string b = bytes.substr(0, rng.below(bytes.size() + 1));
                    std::string p = outdir + "/tmp/T.UNRST";
                    vh::spit(p, b);
                    std::string ans = "ok";
                    try { EclFile f(p); f.loadData(); ans = "ok " + std::to_string(f.size()); } catch (const std::exception&) { ans = "err"; }
                    // the model answers with the full listing; compare only verdict and array count
                    sink.emit("eclbin.count " + vh::hex(b), ans);
                    sink.count("truncation." + std::string(ans == "err" ? "err" : "ok"));
                }
            }
        }

        // formatted histories (INTE / LOGI / CHAR arrays): the real .FUNRST after the whole
        // history against Model/UnrstFmt.lean
        {
            auto protoFmt = [](const A& a) {
                std::string o;
                switch (a.kind) {
                case 'I': o = "I," + vh::hex(padName(a.name)) + ","; if (a.iv.empty()) o += "-"; for (size_t i = 0; i < a.iv.size(); ++i) { if (i) o += ":"; o += std::to_string(a.iv[i]); } break;
                case 'L': o = "L," + vh::hex(padName(a.name)) + ","; if (a.bv.empty()) o += "-"; for (bool b : a.bv) o += b ? 'T' : 'F'; break;
                default: {
                    size_t mx = 0; for (auto& x : a.sv) mx = std::max(mx, x.size());
                    o = (mx > 8 ? "S" + std::to_string(mx) : std::string("C")) + "," + vh::hex(padName(a.name)) + ","; if (a.sv.empty()) o += "-"; for (size_t i = 0; i < a.sv.size(); ++i) { if (i) o += ":"; o += vh::hex(a.sv[i]); } break; }
                }
                return o;
            };
            size_t cnt = 0;
            for (auto& hn : hs) {
                if (tier != "thorough" && (cnt++ % 2)) continue;
                auto h = materialise(hn, rng, true);
                for (auto& st : h) for (auto& a : st.arrs) {
                    if (a.kind == 'R') { a.kind = 'I'; a.iv.assign(a.fv.size(), 0); for (size_t i = 0; i < a.iv.size(); ++i) a.iv[i] = (int) (uint32_t) rng.next(); }
                    if (a.kind == 'D') { a.kind = 'L'; a.bv.assign(a.dv.size(), false); for (size_t i = 0; i < a.bv.size(); ++i) a.bv[i] = rng.coin(); }
                }
                fs::remove(rstName(rs, true));
                bool threw = false;
                try { for (auto& st : h) writeStepReal(rs, st, true); } catch (const std::exception&) { threw = true; }
                std::string op = "unrstfmt.run ";
                for (size_t i = 0; i < h.size(); ++i) {
                    if (i) op += "|";
                    op += std::to_string(h[i].n) + "=";
                    for (size_t j = 0; j < h[i].arrs.size(); ++j) { if (j) op += ";"; op += protoFmt(h[i].arrs[j]); }
                }
                sink.emit(op, threw ? "err" : vh::hex(vh::slurp(rstName(rs, true))));
                sink.count("fmthistory.len" + std::to_string(std::min<size_t>(h.size(), 6)));
            }
        }
        // formatted header line length for several counts (the number seekPosition must subtract)
        for (int n : { 0, 1, 9, 10, 999, 1000, 1234, 2000 }) {
            std::string path = outdir + "/tmp/H.FUNRST";
            { EclOutput out(path, true, std::ios::out); out.write("SEQNUM", std::vector<int>(n, 7)); }
            std::string bytes = vh::slurp(path);
            size_t nl = bytes.find('\n');
            sink.emit("unrst.fmthdr " + vh::hex(std::string("SEQNUM  ")) + " " + std::to_string(n) + " " + vh::hex(std::string("INTE")), std::to_string(nl + 1));
            sink.count("fmthdr");
        }
        sink.writeStats(outdir + "/stats.json");
        return 0;
    }

    if (mode == "prop") {
        vh::PropLog log(outdir + "/prop.txt");
        long nhist = 0, ntrunc = 0;
        auto hs = histories(tier, rng);
        OutputStream::ResultSet rsF{ outdir + "/tmp", "FRESH" };
        for (int fmti = 0; fmti < 2; ++fmti) {
            bool fmt = fmti == 1;
            for (auto& hn : hs) {
                auto h = materialise(hn, rng, false);
                std::string key = std::string(fmt ? "fmt" : "bin") + ".history";
                for (int n : hn) key += "." + std::to_string(n);
                fs::remove(rstName(rs, fmt)); fs::remove(rstName(rsF, fmt));
                try {
                    std::string prev; std::vector<Step> sofar;
                    bool good = true;
                    for (auto& s : h) {
                        writeStepReal(rs, s, fmt);
                        sofar.push_back(s);
                        std::string now = vh::slurp(rstName(rs, fmt));
                        // (1) equals fresh file of the survivors
                        auto sv = survivors(sofar);
                        fs::remove(rstName(rsF, fmt));
                        for (auto& x : sv) writeStepReal(rsF, x, fmt);
                        std::string fresh = vh::slurp(rstName(rsF, fmt));
                        if (now != fresh) { log.fail(key, "after writing step " + std::to_string(s.n) + ": file has " + std::to_string(now.size()) + " bytes, fresh file of survivors " + std::to_string(fresh.size())); good = false; break; }
                        // (2) steps strictly increasing and the one just written last
                        ERst rst(rstName(rs, fmt));
                        auto steps = rst.listOfReportStepNumbers();
                        if (!std::is_sorted(steps.begin(), steps.end()) || std::adjacent_find(steps.begin(), steps.end()) != steps.end() || steps.empty() || steps.back() != s.n) { log.fail(key, "report steps not strictly increasing / last written not last"); good = false; break; }
                        // (3) every smaller step preserved byte for byte: the old file's prefix up to the first step >= n
                        if (!prev.empty()) {
                            std::vector<Step> before(sofar.begin(), sofar.end() - 1);
                            auto svb = survivors(before);
                            std::vector<Step> keep; for (auto& x : svb) if (x.n < s.n) keep.push_back(x);
                            fs::remove(rstName(rsF, fmt));
                            for (auto& x : keep) writeStepReal(rsF, x, fmt);
                            std::string keepBytes = keep.empty() ? std::string() : vh::slurp(rstName(rsF, fmt));
                            if (now.compare(0, keepBytes.size(), keepBytes) != 0 || prev.compare(0, keepBytes.size(), keepBytes) != 0) { log.fail(key, "smaller steps not preserved byte for byte"); good = false; break; }
                        }
                        prev = now;
                    }
                    if (good) log.ok();
                } catch (const std::exception& e) { log.fail(key, std::string("writer/reader threw: ") + e.what()); }
                ++nhist;
            }
        }
        // truncation: every offset (quick: one small file of three steps; thorough: several larger files)
        int nfiles = tier == "thorough" ? 6 : 2;
        for (int k = 0; k < nfiles; ++k) {
            std::vector<Step> h = materialise({ 1, 2, 3 }, rng, k % 2 == 0);
            fs::remove(rstName(rs, false));
            for (auto& s : h) writeStepReal(rs, s, false);
            std::string bytes = vh::slurp(rstName(rs, false));
            std::string p = outdir + "/tmp/CUT.UNRST";
            size_t stride = (tier == "thorough" || bytes.size() < 6000) ? 1 : 3;
            for (size_t cut = 0; cut <= bytes.size(); cut += stride) {
                vh::spit(p, bytes.substr(0, cut));
                std::string key = "bin.truncate.file" + std::to_string(k) + ".at" + std::to_string(cut);
                try {
                    ERst rst(p);
                    for (auto& s : h) {
                        if (!rst.hasReportStepNumber(s.n)) continue;
                        std::map<std::string, int> occ;
                        for (auto& a : s.arrs) {
                            int o = occ[a.name]++;
                            try { if (!sameArrRead(rst, s.n, a, o)) log.fail(key, "step " + std::to_string(s.n) + " array " + a.name + " read back DIFFERENT data"); else log.ok(); }
                            catch (const std::exception&) { log.ok(); }   // an error is an allowed outcome
                        }
                    }
                } catch (const std::exception&) { log.ok(); }
                ++ntrunc;
            }
        }
        std::ofstream st(outdir + "/prop_stats.json");
        st << "{\n  \"checked\": " << log.checked << ",\n  \"failed\": " << log.failed << ",\n  \"histories\": " << nhist << ",\n  \"truncation_offsets\": " << ntrunc << "\n}\n";
        return 0;
    }
    return 2;
}
