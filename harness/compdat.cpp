// C06 — connection factors obey the Peaceman relation.
//
//   compdat corr <seed> <tier> <outdir>   real Parser/EclipseState/Schedule on generated decks
//                                         vs the Lean Float model (ops.txt / impl.txt)
//   compdat prop <seed> <tier> <outdir>   the property's own statement on the real code alone
//
// corr lines ("op line carries the implementation's bits, the model answers ok/differs"):
//   peaceman.ctf   one per connection created by a one-cell COMPDAT record
//   peaceman.unit  deck value vs getSIDouble for every explicit COMPDAT item
//   conns.seq      one per (history, report step): all COMPDAT/WPIMULT/WELOPEN records of
//                  a well up to that step and the connection list the Schedule holds there;
//                  also one per well of the "layered" decks (records K1 < K2 on columns whose
//                  cells - permeability, DZ, NTG, corner-point geometry - differ by layer)
// A small share of the lines is perturbed on purpose and must be answered `differs <field>`.
#include "common/vh.hpp"

#include <opm/input/eclipse/Parser/Parser.hpp>
#include <opm/input/eclipse/Deck/Deck.hpp>
#include <opm/input/eclipse/Deck/DeckKeyword.hpp>
#include <opm/input/eclipse/Deck/DeckRecord.hpp>
#include <opm/input/eclipse/Deck/DeckItem.hpp>
#include <opm/input/eclipse/EclipseState/EclipseState.hpp>
#include <opm/input/eclipse/EclipseState/Grid/EclipseGrid.hpp>
#include <opm/input/eclipse/EclipseState/Grid/FieldPropsManager.hpp>
#include <opm/input/eclipse/Schedule/Schedule.hpp>
#include <opm/input/eclipse/Schedule/Well/Well.hpp>
#include <opm/input/eclipse/Schedule/Well/WellConnections.hpp>
#include <opm/input/eclipse/Schedule/Well/Connection.hpp>
#include <opm/input/eclipse/Units/UnitSystem.hpp>
#include <opm/input/eclipse/Python/Python.hpp>

#include <omp.h>

#include <algorithm>
#include <array>
#include <cmath>
#include <filesystem>
#include <iostream>
#include <memory>
#include <optional>
#include <set>
#include <tuple>

namespace fs = std::filesystem;
using namespace Opm;

namespace {

// ---------------------------------------------------------------------------------------
// generator

struct UnitSys { const char* name; double L, KH, CF; };   // SI factors, used to pick magnitudes and mutually consistent explicit values
UnitSys mkUnit(const char* name, const UnitSystem& us) {
    return { name, us.to_si(UnitSystem::measure::length, 1.0), us.to_si(UnitSystem::measure::effective_Kh, 1.0),
             us.to_si(UnitSystem::measure::transmissibility, 1.0) };
}
const std::vector<UnitSys> UNITS = {
    mkUnit("METRIC", UnitSystem::newMETRIC()), mkUnit("FIELD", UnitSystem::newFIELD()),
    mkUnit("LAB", UnitSystem::newLAB()), mkUnit("PVT-M", UnitSystem::newPVT_M()),
};

std::string num(double v) { char b[40]; std::snprintf(b, sizeof b, "%.17g", v); return b; }

double logU(vh::Rng& r, double lo, double hi) { return lo * std::exp(r.unit() * std::log(hi / lo)); }
double uni(vh::Rng& r, double lo, double hi) { return lo + r.unit() * (hi - lo); }

struct Scenario {
    UnitSys u;
    int nx, ny, nz;
    std::vector<double> dxv, dyv, dzv;              // deck units
    double tops;
    std::vector<double> permx, permy, permz, ntg, poro;   // global index order, deck units (mD)
    std::vector<int> actnum;
    bool hasNtg;
    // corner-point variant (layered scenarios only): COORD / ZCORN in deck units instead of DXV/DYV/DZV/TOPS
    bool cpg = false;
    std::vector<double> coord, zcorn;
    int gi(int i, int j, int k) const { return i + nx * (j + ny * k); }
    // corner (a,b,c) in {0,1}^3 of cell (i,j,k) in deck units: the ZCORN value and the pillar's x, y at that depth
    // (the definition of the corner-point format, evaluated in long double)
    std::array<long double,3> corner(int i, int j, int k, int a, int b, int c) const {
        const long double z = zcorn[(size_t) (2 * i + a) + (size_t) 2 * nx * ((2 * j + b) + (size_t) 2 * ny * (2 * k + c))];
        const double* P = &coord[6 * ((size_t) (i + a) + (size_t) (nx + 1) * (j + b))];
        const long double t = (z - P[2]) / ((long double) P[5] - P[2]);
        return { P[0] + t * ((long double) P[3] - P[0]), P[1] + t * ((long double) P[4] - P[1]), z };
    }
    // cell extents in deck units, text-book definition: DX / DY = distance between the centres of the two X / Y faces,
    // DZ = mean depth of the bottom face - mean depth of the top face
    std::array<long double,3> dimsDeck(int i, int j, int k) const {
        if (!cpg) return { dxv[i], dyv[j], dzv[k] };
        auto centre = [&](int axis, int side) {
            std::array<long double,3> m{ 0, 0, 0 };
            for (int p = 0; p < 2; ++p) for (int q = 0; q < 2; ++q) {
                const auto c = axis == 0 ? corner(i, j, k, side, p, q) : axis == 1 ? corner(i, j, k, p, side, q) : corner(i, j, k, p, q, side);
                for (int d = 0; d < 3; ++d) m[d] += c[d] / 4;
            }
            return m;
        };
        std::array<long double,3> out;
        for (int axis = 0; axis < 2; ++axis) {
            const auto lo = centre(axis, 0), hi = centre(axis, 1);
            out[axis] = sqrtl((hi[0] - lo[0]) * (hi[0] - lo[0]) + (hi[1] - lo[1]) * (hi[1] - lo[1]) + (hi[2] - lo[2]) * (hi[2] - lo[2]));
        }
        out[2] = centre(2, 1)[2] - centre(2, 0)[2];
        return out;
    }
    // SI estimates for input conditioning only
    std::array<double,3> dimsSI(int i, int j, int k) const {
        const auto d = dimsDeck(i, j, k);
        return { (double) d[0] * u.L, (double) d[1] * u.L, (double) d[2] * u.L };
    }
};

Scenario makeScenario(vh::Rng& r, int maxn) {
    Scenario s;
    s.u = r.pick(UNITS);
    s.nx = r.range(2, maxn); s.ny = r.range(2, 3); s.nz = r.range(2, maxn);
    for (int i = 0; i < s.nx; ++i) s.dxv.push_back(logU(r, 5, 300) / s.u.L);
    for (int j = 0; j < s.ny; ++j) s.dyv.push_back(logU(r, 5, 300) / s.u.L);
    for (int k = 0; k < s.nz; ++k) s.dzv.push_back(logU(r, 1, 50) / s.u.L);
    s.tops = uni(r, 500, 3000) / s.u.L;
    const int n = s.nx * s.ny * s.nz;
    s.hasNtg = r.coin(4, 5);
    const bool iso = r.coin(1, 8);    // sometimes isotropic, the case the unit tests use
    for (int g = 0; g < n; ++g) {
        double kx = logU(r, 1e-3, 1e3);
        s.permx.push_back(kx);
        s.permy.push_back(iso ? kx : logU(r, 1e-3, 1e3));
        s.permz.push_back(iso ? kx : logU(r, 1e-3, 1e3));
        s.ntg.push_back(r.coin(1, 5) ? 1.0 : uni(r, 0.1, 1.0));
        s.poro.push_back(uni(r, 0.05, 0.4));
        s.actnum.push_back(r.coin(1, 10) ? 0 : 1);
    }
    s.actnum[0] = 1;
    return s;
}

std::string arr(const char* kw, const std::vector<double>& v) {
    std::string o = std::string(kw) + "\n";
    for (size_t i = 0; i < v.size(); ++i) o += " " + num(v[i]) + ((i % 4 == 3) ? "\n" : "");
    return o + " /\n";
}

std::string gridSection(const Scenario& s) {
    std::string d = "RUNSPEC\nDIMENS\n " + std::to_string(s.nx) + " " + std::to_string(s.ny) + " " + std::to_string(s.nz) + " /\nOIL\nWATER\n";
    d += std::string(s.u.name) + "\nSTART\n 1 'JAN' 2020 /\nGRID\n";
    if (s.cpg) d += arr("COORD", s.coord) + arr("ZCORN", s.zcorn);
    else {
        d += arr("DXV", s.dxv) + arr("DYV", s.dyv) + arr("DZV", s.dzv);
        d += "TOPS\n " + std::to_string(s.nx * s.ny) + "*" + num(s.tops) + " /\n";
    }
    d += arr("PERMX", s.permx) + arr("PERMY", s.permy) + arr("PERMZ", s.permz) + arr("PORO", s.poro);
    if (s.hasNtg) d += arr("NTG", s.ntg);
    d += "ACTNUM\n";
    for (int a : s.actnum) d += " " + std::to_string(a);
    d += " /\nPROPS\nSOLUTION\nSCHEDULE\n";
    return d;
}

// One COMPDAT record as generated (deck units / deck tokens) plus what the generator intended.
struct Rec {
    std::string well;
    int I, J, K1, K2;            // 1-based deck values; I/J 0 = written as 1* (well head)
    bool ijStar = false;         // write 1* instead of 0
    std::string state = "OPEN";
    char dir = 'Z';
    std::string cf = "1*", diam = "1*", kh = "1*", skin = "1*", pr = "1*";
    // intention
    bool cfPos = false, khPos = false, khZero = false, r0Given = false, diamGiven = false;
    bool consistent = true;      // identity can be expected of the stored values
    bool boundary = false;       // r0 <= rw expected (clamp region)
    std::string text() const {
        auto ij = [&](int v) { return (v == 0 && ijStar) ? std::string("1*") : std::to_string(v); };
        return " '" + well + "' " + ij(I) + " " + ij(J) + " " + std::to_string(K1) + " " + std::to_string(K2) + " '" + state + "' 1* " +
               cf + " " + diam + " " + kh + " " + skin + " 1* '" + std::string(1, dir) + "' " + pr + " /\n";
    }
    std::string branch() const {
        if (cfPos && khPos) return "both";
        if (khPos) return "khGiven";
        if (cfPos) return khZero ? "cfGivenKhZero" : "cfGivenKhDefault";
        return "neither";
    }
};

// Peaceman radius in plain doubles: used ONLY to pick rw / skin / r0 so that the generated
// record is in the physical region (rw < r0, positive denominator); never used as an oracle.
double estR0(const Scenario& s, int i, int j, int k, char dir) {
    const int g = s.gi(i, j, k);
    auto d = s.dimsSI(i, j, k);
    d[2] *= s.hasNtg ? s.ntg[g] : 1.0;
    const double p[3] = { s.permx[g], s.permy[g], s.permz[g] };
    int a, b;
    if (dir == 'X') { a = 1; b = 2; } else if (dir == 'Y') { a = 2; b = 0; } else { a = 0; b = 1; }
    const double K01 = p[a] / p[b], K10 = p[b] / p[a];
    return 0.28 * std::sqrt(std::sqrt(K10) * d[a] * d[a] + std::sqrt(K01) * d[b] * d[b]) / (std::pow(K01, 0.25) + std::pow(K10, 0.25));
}

// Kh of the cell in SI (same caveat as estR0).
double estKh(const Scenario& s, int i, int j, int k, char dir) {
    const int g = s.gi(i, j, k);
    auto d = s.dimsSI(i, j, k);
    d[2] *= s.hasNtg ? s.ntg[g] : 1.0;
    const double p[3] = { s.permx[g], s.permy[g], s.permz[g] };
    int a, b, c;
    if (dir == 'X') { a = 1; b = 2; c = 0; } else if (dir == 'Y') { a = 2; b = 0; c = 1; } else { a = 0; b = 1; c = 2; }
    return std::sqrt(p[a] * p[b]) * d[c] * s.u.KH / s.u.L;
}

// Fill the numeric items of a record for cell (i,j,k) (0-based) with default/explicit mask
// `mask` (bit0 CF, bit1 Kh, bit2 diameter, bit3 r0).  `wild` allows unphysical values too.
void fillItems(vh::Rng& r, const Scenario& s, Rec& rec, int i, int j, int k, int mask, bool wild) {
    const bool mCF = mask & 1, mKh = mask & 2, mD = mask & 4, mR0 = mask & 8;
    const double r0cell = estR0(s, i, j, k, rec.dir);
    double rw = 0.1524;
    if (mD) {
        rw = std::min(r0cell * logU(r, 0.01, 0.6), 2.0);
        if (wild && r.coin(1, 12)) rw = r0cell * uni(r, 0.9, 3.0);     // clamp region
        const double dval = 2 * rw / s.u.L;
        rec.diam = num(dval);
        rw = dval * s.u.L / 2;
        rec.diamGiven = true;
    }
    const bool both = mCF && mKh;
    const int khVariant = (int) r.below(4);     // how a defaulted Kh is written: 1*, negative, -1, 0
    const bool willKhZero = !mKh && khVariant == 3;
    double r0 = r0cell;           // r0 the code will use in the computed branches
    double rho;                   // r0 / rw
    if (mR0) {
        rho = logU(r, 1.5, 2000);
        if (wild && r.coin(1, 12)) rho = uni(r, 0.3, 1.0);
        const double v = rho * rw / s.u.L;
        rec.pr = num(v);
        r0 = v * s.u.L; rho = r0 / rw;
        rec.r0Given = true;
        if (r.coin(1, 16)) { rec.pr = num(-uni(r, 0.1, 5)); rec.r0Given = false; r0 = r0cell; rho = r0 / rw; }   // negative = defaulted
    } else if (both) {
        rho = logU(r, 1.5, 2000);          // back-computed r0 = rho * rw
    } else {
        rho = r0 / rw;
    }
    if (rho <= 1.0) rec.boundary = true;
    // skin: keep log(rho) + S >= 0.3 unless wild
    const double lr = std::log(std::max(rho, 1.0));
    double S;
    switch (r.below(5)) {
        case 0: S = 0.0; rec.skin = r.coin() ? "1*" : "0"; break;
        case 1: S = -std::min(3.0, std::max(0.0, 0.8 * lr - 0.3)) * r.unit(); rec.skin = num(S); break;
        default: S = uni(r, 0.0, 20.0); rec.skin = num(S); break;
    }
    if (wild && r.coin(1, 20)) { S = -uni(r, 0.0, 6.0); rec.skin = num(S); }
    const double d = lr + S;
    if (d < 0.3) { if (!wild) { S = 0.3 - lr + uni(r, 0, 2); rec.skin = num(S); } else rec.consistent = false; }
    const double dd = std::log(std::max(rho, 1.0)) + S;
    if (mCF) {
        double cf = logU(r, 1e-3, 1e3) * 1.1574e-13 / s.u.CF;
        // Kh = 0 entered: r0 = rw exp(2 pi Kh_cell / CF - S) is back-computed, keep the exponent sane
        if (willKhZero && !(wild && r.coin(1, 8))) cf = 6.283185307179586 * estKh(s, i, j, k, rec.dir) / uni(r, 0.5, 25.0) / s.u.CF;
        rec.cf = num(cf); rec.cfPos = true;
        if (!both && r.coin(1, 10)) { rec.cf = r.coin() ? "0" : num(-cf); rec.cfPos = false; }   // 0 / negative = defaulted
        if (mKh) {
            // Kh consistent with CF and the denominator dd (else exp() of anything)
            double khSI = cf * s.u.CF * std::max(dd, 0.3) / 6.283185307179586;
            if (wild && !mR0 && r.coin(1, 6)) khSI *= logU(r, 0.2, 3.0);
            rec.kh = num(khSI / s.u.KH); rec.khPos = true;
            if (mR0 && rec.r0Given) {
                // all three explicit: consistent only if we make it so
                if (wild && r.coin(1, 3)) { rec.kh = num(khSI / s.u.KH * logU(r, 0.1, 10)); rec.consistent = false; }
            }
        }
    }
    if (mKh && !rec.khPos) {
        rec.kh = num(logU(r, 1e-1, 1e5));   // mD * length unit
        rec.khPos = true;
    }
    if (!mKh) {
        switch (khVariant) {
            case 0: rec.kh = "1*"; break;
            case 1: rec.kh = num(-uni(r, 0.5, 3)); break;
            case 2: rec.kh = "-1"; break;
            default: rec.kh = "0"; rec.khZero = true; break;   // Kh = 0: from the cell, r0 back-computed when CF is given
        }
    }
    if (rec.cfPos && !rec.khPos && rec.khZero) {
        // r0 is back-computed from CF and the cell's Kh: anything can come out (r0 < rw too)
        rec.consistent = rec.consistent;   // identity still holds by construction (exp/log), if finite
        rec.boundary = false;
    }
}

// ---------------------------------------------------------------------------------------
// reading the implementation

struct Loaded {
    Deck deck;
    std::unique_ptr<EclipseState> es;
    std::unique_ptr<Schedule> sched;
};

std::unique_ptr<Loaded> load(const std::string& text) {
    auto l = std::make_unique<Loaded>();
    Parser parser;
    l->deck = parser.parseString(text);
    l->es = std::make_unique<EclipseState>(l->deck);
    l->sched = std::make_unique<Schedule>(l->deck, *l->es, std::make_shared<Python>());
    return l;
}

std::vector<const DeckRecord*> recordsOf(const Deck& deck, const std::string& name) {
    std::vector<const DeckRecord*> out;
    for (const auto& kw : deck)
        if (kw.name() == name)
            for (const auto& rec : kw) out.push_back(&rec);
    return out;
}

std::string optSI(const DeckItem& it) { return it.hasValue(0) ? vh::hexF64(it.getSIDouble(0)) : std::string("-"); }

// <dir> <cf|-> <kh> <khDef> <diam|-> <r0|-> <skin>
std::string inputTokens(const DeckRecord& rec) {
    const auto& kh = rec.getItem("Kh");
    const bool khDef = kh.defaultApplied(0) || kh.get<double>(0) < 0.0;
    return rec.getItem("DIR").getTrimmedString(0) + " " + optSI(rec.getItem("CONNECTION_TRANSMISSIBILITY_FACTOR")) + " " +
           vh::hexF64(kh.getSIDouble(0)) + " " + (khDef ? "1" : "0") + " " + optSI(rec.getItem("DIAMETER")) + " " +
           optSI(rec.getItem("PR")) + " " + vh::hexF64(rec.getItem("SKIN").getSIDouble(0));
}

struct CellData { bool active; std::array<double,3> dims; double kx, ky, kz, ntg, depth; };

CellData cellData(const EclipseState& es, int i, int j, int k) {
    const auto& grid = es.getInputGrid();
    const auto& fp = es.fieldProps();
    CellData c{};
    c.dims = grid.getCellDimensions(i, j, k);
    c.depth = grid.getCellDepth(i, j, k);
    c.active = grid.cellActive(i, j, k);
    if (c.active) {
        const auto a = grid.activeIndex(i, j, k);
        c.kx = fp.get_double("PERMX").at(a);
        c.ky = fp.get_double("PERMY").at(a);
        c.kz = fp.get_double("PERMZ").at(a);
        c.ntg = fp.has_double("NTG") ? fp.get_double("NTG").at(a) : 1.0;
    }
    return c;
}

std::string cellTokens(const CellData& c) {
    return vh::hexF64(c.dims[0]) + " " + vh::hexF64(c.dims[1]) + " " + vh::hexF64(c.dims[2]) + " " +
           vh::hexF64(c.kx) + " " + vh::hexF64(c.ky) + " " + vh::hexF64(c.kz) + " " + vh::hexF64(c.ntg);
}

const char* stateName(Connection::State s) {
    switch (s) { case Connection::State::OPEN: return "OPEN"; case Connection::State::SHUT: return "SHUT"; default: return "AUTO"; }
}
const char* dirName(Connection::Direction d) {
    switch (d) { case Connection::Direction::X: return "X"; case Connection::Direction::Y: return "Y"; default: return "Z"; }
}

const Connection* findConn(const WellConnections& cs, int i, int j, int k) {
    for (const auto& c : cs) if (c.getI() == i && c.getJ() == j && c.getK() == k) return &c;
    return nullptr;
}

// ---------------------------------------------------------------------------------------
// single-connection decks: many wells, every record one cell

struct CtfCase { Rec rec; int i, j, k; int mask; };

struct CtfDeck { Scenario s; std::vector<CtfCase> cases; std::string text; };

CtfDeck makeCtfDeck(vh::Rng& r, bool wild, int& maskCounter) {
    CtfDeck d;
    d.s = makeScenario(r, 4);
    const Scenario& s = d.s;
    std::string sch = "WELSPECS\n";
    const int nw = r.range(3, 8);
    for (int w = 0; w < nw; ++w)
        sch += " 'W" + std::to_string(w) + "' 'G' " + std::to_string(r.range(1, s.nx)) + " " + std::to_string(r.range(1, s.ny)) + " 1* 'OIL' /\n";
    sch += "/\nCOMPDAT\n";
    for (int w = 0; w < nw; ++w) {
        std::set<int> used;
        const int nc = r.range(1, 8);
        for (int c = 0; c < nc; ++c) {
            int i = r.range(0, s.nx - 1), j = r.range(0, s.ny - 1), k = r.range(0, s.nz - 1);
            if (!s.actnum[s.gi(i, j, k)] || used.count(s.gi(i, j, k))) continue;
            used.insert(s.gi(i, j, k));
            CtfCase cc;
            cc.i = i; cc.j = j; cc.k = k;
            cc.mask = (maskCounter++) % 16;
            cc.rec.well = "W" + std::to_string(w);
            cc.rec.I = i + 1; cc.rec.J = j + 1; cc.rec.K1 = cc.rec.K2 = k + 1;
            cc.rec.dir = "XYZ"[(maskCounter / 16) % 3];
            if (r.coin(1, 4)) cc.rec.dir = "XYZ"[r.below(3)];
            cc.rec.state = r.pick(std::vector<std::string>{ "OPEN", "OPEN", "SHUT", "AUTO" });
            fillItems(r, s, cc.rec, i, j, k, cc.mask, wild);
            sch += cc.rec.text();
            d.cases.push_back(cc);
        }
    }
    sch += "/\nTSTEP\n 1 /\nEND\n";
    d.text = gridSection(s) + sch;
    return d;
}

// Fixed first deck (every seed): the witnesses recorded in DESIGN.md section 3 -- METRIC, 100 x 50 x 10 cell:
// CF 5 / Kh 2000 / skin 2 with r0 defaulted (finding F4: back-computed r0 must use the same 2 pi),
// CF 5 with Kh = 0, DIAMETER 60 with zero skin (rw > r0: clamp, CF = inf), and a fully defaulted record.
CtfDeck fixedCtfDeck() {
    CtfDeck d;
    Scenario& s = d.s;
    s.u = UNITS[0]; s.nx = s.ny = s.nz = 2;
    s.dxv = { 100, 100 }; s.dyv = { 50, 50 }; s.dzv = { 10, 10 }; s.tops = 2000; s.hasNtg = false;
    for (int g = 0; g < 8; ++g) { s.permx.push_back(100); s.permy.push_back(100); s.permz.push_back(10); s.ntg.push_back(1); s.poro.push_back(0.3); s.actnum.push_back(1); }
    auto mk = [&](int w, int mask) { CtfCase c; c.i = c.j = c.k = 0; c.mask = mask; c.rec.well = "W" + std::to_string(w); c.rec.I = c.rec.J = c.rec.K1 = c.rec.K2 = 1; c.rec.dir = 'Z'; return c; };
    CtfCase a = mk(0, 3);  a.rec.cf = "5"; a.rec.kh = "2000"; a.rec.skin = "2"; a.rec.cfPos = a.rec.khPos = true;
    CtfCase b = mk(1, 1);  b.rec.cf = "5"; b.rec.kh = "0"; b.rec.skin = "2"; b.rec.cfPos = true; b.rec.khZero = true;
    CtfCase c = mk(2, 4);  c.rec.diam = "60"; c.rec.diamGiven = true; c.rec.boundary = true; c.rec.consistent = false;
    CtfCase e = mk(3, 0);
    d.cases = { a, b, c, e };
    std::string sch = "WELSPECS\n";
    for (int w = 0; w < 4; ++w) sch += " 'W" + std::to_string(w) + "' 'G' 1 1 1* 'OIL' /\n";
    sch += "/\nCOMPDAT\n";
    for (const auto& cc : d.cases) sch += cc.rec.text();
    sch += "/\nTSTEP\n 1 /\nEND\n";
    d.text = gridSection(s) + sch;
    return d;
}

// ---------------------------------------------------------------------------------------
// histories: one observed well W1 (+ a bystander W2), COMPDAT / WPIMULT / WELOPEN over steps

struct SeqOp {
    char kind;               // 'C','W','O','L'
    bool onW1;               // applies to W1 (name W1 or pattern W*)
    std::string text;        // keyword + record
    Rec rec;                 // kind C
    double factor = 1;       // kind W
    std::string state;       // kind O
    std::array<std::optional<int>,5> sel;   // i j k c1 c2 (kind W/O); nullopt = 1*;  kind L: i j k1 k2 and sel[4] = N
};

struct SeqDeck { Scenario s; std::string ord; int headI, headJ; std::vector<std::vector<SeqOp>> steps; std::string text; };

std::string selText(const std::array<std::optional<int>,5>& sel) {
    std::string o;
    for (auto& v : sel) o += " " + (v ? std::to_string(*v) : std::string("1*"));
    return o;
}

SeqDeck makeSeqDeck(vh::Rng& r, const std::string& tier, bool allowNeg) {
    SeqDeck d;
    d.s = makeScenario(r, 3);
    const Scenario& s = d.s;
    d.ord = r.pick(std::vector<std::string>{ "INPUT", "INPUT", "TRACK", "TRACK", "DEPTH" });
    d.headI = r.range(1, s.nx); d.headJ = r.range(1, s.ny);
    std::string sch = "WELSPECS\n 'W1' 'G' " + std::to_string(d.headI) + " " + std::to_string(d.headJ) + " 1* 'OIL' /\n 'W2' 'G' 1 1 1* 'OIL' /\n/\n";
    if (d.ord != "TRACK" || r.coin()) sch += "COMPORD\n 'W1' " + d.ord + " /\n/\n";
    const int nsteps = r.range(2, tier == "thorough" ? 9 : 6);
    std::set<int> cellsUsed;
    for (int t = 0; t < nsteps; ++t) {
        std::vector<SeqOp> ops;
        const int nops = (t == 0) ? r.range(1, 3) : r.range(0, 3);
        for (int q = 0; q < nops; ++q) {
            SeqOp op;
            const int wsel = r.below(10);
            const std::string wname = wsel < 7 ? "W1" : (wsel < 9 ? "W*" : "W2");
            op.onW1 = wname != "W2";
            const int kindSel = (t == 0 && q == 0) ? 0 : r.below(10);
            if (kindSel < 4) {
                op.kind = 'C';
                Rec& rec = op.rec;
                rec.well = wname;
                int i = r.range(0, s.nx - 1), j = r.range(0, s.ny - 1);
                if (r.coin(1, 3)) { i = d.headI - 1; j = d.headJ - 1; }
                rec.I = i + 1; rec.J = j + 1;
                if (wname == "W1" && i == d.headI - 1 && r.coin()) { rec.I = 0; rec.ijStar = r.coin(); }
                if (wname == "W1" && j == d.headJ - 1 && r.coin()) { rec.J = 0; rec.ijStar = rec.ijStar || (rec.I != 0 && r.coin()); }
                if (rec.I == 0 && rec.J != 0 && rec.ijStar) { /* only zeros are starred */ }
                int k1 = r.range(1, s.nz), k2 = r.range(k1, s.nz);
                if (cellsUsed.size() + (k2 - k1 + 1) > 12) k2 = k1;
                rec.K1 = k1; rec.K2 = k2;
                for (int k = k1; k <= k2; ++k) cellsUsed.insert(s.gi(i, j, k - 1));
                rec.dir = "XYZ"[r.below(3)];
                rec.state = r.pick(std::vector<std::string>{ "OPEN", "OPEN", "SHUT", "AUTO" });
                fillItems(r, s, rec, i, j, k1 - 1, (int) r.below(16), false);
                op.text = "COMPDAT\n" + rec.text() + "/\n";
            } else {
                op.kind = kindSel < 7 ? 'W' : ((kindSel == 9 && r.coin()) ? 'L' : 'O');
                auto pickItem = [&](int hi, int) -> std::optional<int> {
                    switch (r.below(8)) {
                        case 0: case 1: case 2: return std::nullopt;
                        case 3: return 0;
                        case 4: return allowNeg ? -1 - (int) r.below(2) : r.range(1, hi);
                        default: return r.range(1, hi);
                    }
                };
                // selection styles: by cell, by completion range, mixed, everything defaulted
                const int style = r.below(6);
                op.sel = { std::nullopt, std::nullopt, std::nullopt, std::nullopt, std::nullopt };
                if (style == 0) { /* all defaulted */ }
                else if (style == 1) { op.sel[0] = r.range(1, s.nx); op.sel[1] = r.range(1, s.ny); op.sel[2] = r.range(1, s.nz); }
                else if (style == 2) { int a = r.range(1, 6); op.sel[3] = a; op.sel[4] = r.range(a, 8); }
                else { op.sel = { pickItem(s.nx, 0), pickItem(s.ny, 1), pickItem(s.nz, 2), pickItem(8, 3), pickItem(8, 4) }; }
                if (op.kind == 'L') {
                    // COMPLUMP: I J K1 K2 N (0 or 1* = any), lumps several connections into one completion
                    const int k1 = r.range(1, s.nz);
                    op.sel = { std::nullopt, std::nullopt, std::nullopt, std::nullopt, r.range(1, 6) };
                    switch (r.below(4)) {
                        case 0: break;
                        case 1: op.sel[2] = k1; op.sel[3] = r.range(k1, s.nz); break;
                        case 2: op.sel[0] = r.range(0, s.nx); op.sel[1] = r.range(0, s.ny); break;
                        default: op.sel[0] = d.headI; op.sel[1] = d.headJ; op.sel[2] = k1; op.sel[3] = r.coin() ? 0 : r.range(k1, s.nz); break;
                    }
                    op.text = "COMPLUMP\n '" + wname + "'" + selText(op.sel) + " /\n/\n";
                } else if (op.kind == 'W') {
                    op.factor = r.pick(std::vector<double>{ 0.5, 2.0, 1.3, 0.1, 3.75, 1.0 });
                    op.text = "WPIMULT\n '" + wname + "' " + num(op.factor) + selText(op.sel) + " /\n/\n";
                } else {
                    op.state = r.pick(std::vector<std::string>{ "OPEN", "SHUT", "SHUT", "AUTO", "STOP" });
                    op.text = "WELOPEN\n '" + wname + "' '" + op.state + "'" + selText(op.sel) + " /\n/\n";
                }
            }
            sch += op.text;
            ops.push_back(op);
            if (op.kind == 'W' && !op.sel[0] && !op.sel[1] && !op.sel[2] && !op.sel[3] && !op.sel[4] && r.coin()) {
                // a second all-defaulted WPIMULT in the same report step: only the last one counts
                SeqOp op2 = op;
                op2.factor = r.pick(std::vector<double>{ 0.25, 4.0, 1.7 });
                op2.text = "WPIMULT\n '" + wname + "' " + num(op2.factor) + selText(op2.sel) + " /\n/\n";
                sch += op2.text;
                ops.push_back(op2);
            }
        }
        sch += "TSTEP\n 1 /\n";
        d.steps.push_back(ops);
    }
    sch += "END\n";
    d.text = gridSection(s) + sch;
    return d;
}

std::string itemTok(const DeckItem& it) { return it.defaultApplied(0) ? std::string("*") : std::to_string(it.get<int>(0)); }

// tokens of all records that apply to W1, step by step, read back from the parsed deck
struct SeqTokens { std::vector<std::vector<std::string>> steps; };

SeqTokens seqTokens(const SeqDeck& d, const Deck& deck) {
    auto cs = recordsOf(deck, "COMPDAT"), ws = recordsOf(deck, "WPIMULT"), os = recordsOf(deck, "WELOPEN"), ls = recordsOf(deck, "COMPLUMP");
    size_t ci = 0, wi = 0, oi = 0, li = 0;
    SeqTokens out;
    for (const auto& ops : d.steps) {
        std::vector<std::string> toks;
        for (const auto& op : ops) {
            if (op.kind == 'C') {
                const auto& rec = *cs.at(ci++);
                if (!op.onW1) continue;
                const auto& I = rec.getItem("I"); const auto& J = rec.getItem("J");
                std::string st = rec.getItem("STATE").getTrimmedString(0);
                toks.push_back("C " + std::to_string(I.defaultApplied(0) ? 0 : I.get<int>(0)) + " " + std::to_string(J.defaultApplied(0) ? 0 : J.get<int>(0)) + " " +
                               std::to_string(rec.getItem("K1").get<int>(0)) + " " + std::to_string(rec.getItem("K2").get<int>(0)) + " " + st + " " + inputTokens(rec));
            } else if (op.kind == 'W') {
                const auto& rec = *ws.at(wi++);
                if (!op.onW1) continue;
                toks.push_back("W " + vh::hexF64(rec.getItem("WELLPI").get<double>(0)) + " " + itemTok(rec.getItem("I")) + " " + itemTok(rec.getItem("J")) + " " +
                               itemTok(rec.getItem("K")) + " " + itemTok(rec.getItem("FIRST")) + " " + itemTok(rec.getItem("LAST")));
            } else if (op.kind == 'L') {
                const auto& rec = *ls.at(li++);
                if (!op.onW1) continue;
                toks.push_back("L " + std::to_string(rec.getItem("N").get<int>(0)) + " " + itemTok(rec.getItem("I")) + " " + itemTok(rec.getItem("J")) + " " +
                               itemTok(rec.getItem("K1")) + " " + itemTok(rec.getItem("K2")));
            } else {
                const auto& rec = *os.at(oi++);
                if (!op.onW1) continue;
                std::string st = rec.getItem("STATUS").getTrimmedString(0);
                if (st == "STOP") st = "SHUT";      // documented synonym for connections
                toks.push_back("O " + st + " " + itemTok(rec.getItem("I")) + " " + itemTok(rec.getItem("J")) + " " +
                               itemTok(rec.getItem("K")) + " " + itemTok(rec.getItem("C1")) + " " + itemTok(rec.getItem("C2")));
            }
        }
        toks.push_back("E");
        out.steps.push_back(toks);
    }
    return out;
}

std::string connTokens(const Connection& c, int perturb = -1) {
    double cf = c.CF(), kh = c.Kh(), wp = c.wpimult();
    int cn = c.complnum();
    auto st = c.state();
    if (perturb == 0) cf *= 1.0 + 1e-9;
    if (perturb == 1) cn += 1;
    if (perturb == 2) st = (st == Connection::State::OPEN) ? Connection::State::SHUT : Connection::State::OPEN;
    if (perturb == 3) wp *= 1.0 + 1e-9;
    return std::to_string(c.getI()) + " " + std::to_string(c.getJ()) + " " + std::to_string(c.getK()) + " " + std::to_string(cn) + " " +
           stateName(st) + " " + dirName(c.dir()) + " " + (c.ctfAssignedFromInput() ? "1" : "0") + " " +
           vh::hexF64(cf) + " " + vh::hexF64(kh) + " " + vh::hexF64(c.r0()) + " " + vh::hexF64(c.rw()) + " " +
           vh::hexF64(c.skinFactor()) + " " + vh::hexF64(wp) + " " + std::to_string(c.sort_value());
}

const char* PERT_FIELD[4] = { "CF", "complnum", "state", "wpimult" };

// ---------------------------------------------------------------------------------------
// property-mode helpers (real code only)

const long double TWO_PI = 6.283185307179586476925286766559L;

bool relClose(long double a, long double b, long double tol) {
    long double m = std::max(fabsl(a), fabsl(b));
    return fabsl(a - b) <= tol * m || (a == b) || (std::isnan((double) a) && std::isnan((double) b));
}

// independent text-book values for a defaulted Kh and r0
struct Textbook { long double kh, r0; };
Textbook textbook(const CellData& c, char dir) {
    long double dx = c.dims[0], dy = c.dims[1], hz = (long double) c.dims[2] * c.ntg;
    long double ka, kb, da, db, h;
    if (dir == 'X')      { ka = c.ky; kb = c.kz; da = dy; db = hz; h = dx; }
    else if (dir == 'Y') { ka = c.kx; kb = c.kz; da = dx; db = hz; h = dy; }
    else                 { ka = c.kx; kb = c.ky; da = dx; db = dy; h = hz; }
    Textbook t;
    t.kh = sqrtl(ka * kb) * h;
    t.r0 = 0.28L * sqrtl(sqrtl(kb / ka) * da * da + sqrtl(ka / kb) * db * db) / (powl(ka / kb, 0.25L) + powl(kb / ka, 0.25L));
    return t;
}

struct Snap {   // everything observable about one connection
    int i, j, k, complnum; Connection::State state; Connection::Direction dir;
    double CF, Kh, r0, rw, skin, wpimult, depth, Ke, connLen; std::size_t sort; bool fromDeck;
    static bool eq(double a, double b) { return a == b || (std::isnan(a) && std::isnan(b)); }
};
std::vector<Snap> snapshot(const WellConnections& cs) {
    std::vector<Snap> v;
    for (const auto& c : cs)
        v.push_back({ c.getI(), c.getJ(), c.getK(), c.complnum(), c.state(), c.dir(), c.CF(), c.Kh(), c.r0(), c.rw(), c.skinFactor(),
                      c.wpimult(), c.depth(), c.Ke(), c.connectionLength(), c.sort_value(), c.ctfAssignedFromInput() });
    return v;
}

// documented selection rule of WPIMULT / WELOPEN: an item that is defaulted or zero matches
// everything; I, J, K name a cell (1-based), C1..C2 a completion range
bool selected(const std::array<std::optional<int>,5>& sel, const Snap& c) {
    auto any = [](const std::optional<int>& v) { return !v || *v == 0; };
    if (!any(sel[0]) && *sel[0] != c.i + 1) return false;
    if (!any(sel[1]) && *sel[1] != c.j + 1) return false;
    if (!any(sel[2]) && *sel[2] != c.k + 1) return false;
    if (!any(sel[3]) && c.complnum < *sel[3]) return false;
    if (!any(sel[4]) && c.complnum > *sel[4]) return false;
    return true;
}

std::string snapKey(const Snap& s) { return std::to_string(s.i) + "," + std::to_string(s.j) + "," + std::to_string(s.k); }


// ---------------------------------------------------------------------------------------
// records over several layers (K1 < K2) on columns whose cells differ from layer to layer

// Scenario with 2..maxz layers; half of the decks are corner-point grids with fanning, sheared and jittered
// pillars (DX, DY change with depth) and horizontal layer interfaces (so that every definition of a cell's
// DX / DY - with or without the vertical component - agrees), the others DXV/DYV/DZV grids.
Scenario makeLayeredScenario(vh::Rng& r, int maxz) {
    Scenario s;
    s.u = r.pick(UNITS);
    s.nx = r.range(2, 3); s.ny = r.range(2, 3); s.nz = r.range(2, maxz);
    for (int i = 0; i < s.nx; ++i) s.dxv.push_back(logU(r, 5, 300) / s.u.L);
    for (int j = 0; j < s.ny; ++j) s.dyv.push_back(logU(r, 5, 300) / s.u.L);
    for (int k = 0; k < s.nz; ++k) s.dzv.push_back(logU(r, 1, 50) / s.u.L);
    s.tops = logU(r, 10, 3000) / s.u.L;
    const int n = s.nx * s.ny * s.nz;
    s.hasNtg = r.coin(4, 5);
    const int permMode = (int) r.below(8);   // 0: isotropic, 1: layer cake (one triple per layer), else: per cell
    std::vector<std::array<double,3>> layerPerm;
    for (int k = 0; k < s.nz; ++k) layerPerm.push_back({ logU(r, 1e-3, 1e3), logU(r, 1e-3, 1e3), logU(r, 1e-3, 1e3) });
    for (int g = 0; g < n; ++g) {
        const int k = g / (s.nx * s.ny);
        double kx = logU(r, 1e-3, 1e3), ky = logU(r, 1e-3, 1e3), kz = logU(r, 1e-3, 1e3);
        if (permMode == 0) ky = kz = kx;
        if (permMode == 1) { kx = layerPerm[k][0]; ky = layerPerm[k][1]; kz = layerPerm[k][2]; }
        s.permx.push_back(kx); s.permy.push_back(ky); s.permz.push_back(kz);
        s.ntg.push_back(r.coin(1, 5) ? 1.0 : uni(r, 0.1, 1.0));
        s.poro.push_back(uni(r, 0.05, 0.4));
        s.actnum.push_back(r.coin(1, 10) ? 0 : 1);
    }
    s.actnum[0] = 1;
    s.cpg = r.coin();
    if (s.cpg) {
        std::vector<double> xs{ 0.0 }, ys{ 0.0 }, zs{ s.tops };
        for (double v : s.dxv) xs.push_back(xs.back() + v);
        for (double v : s.dyv) ys.push_back(ys.back() + v);
        for (double v : s.dzv) zs.push_back(zs.back() + v);
        const double fx = logU(r, 0.5, 2.0), fy = logU(r, 0.5, 2.0);                       // fan: the column widens / narrows with depth
        const double shx = uni(r, -0.5, 0.5) * xs.back(), shy = uni(r, -0.5, 0.5) * ys.back();   // shear
        const double jx = 0.15 * *std::min_element(s.dxv.begin(), s.dxv.end()), jy = 0.15 * *std::min_element(s.dyv.begin(), s.dyv.end());
        const bool vertical = r.coin(1, 6);      // sometimes plain vertical pillars
        for (int j = 0; j <= s.ny; ++j) for (int i = 0; i <= s.nx; ++i) {
            const double xt = xs[i], yt = ys[j];
            double xb = xs.back() / 2 + (xt - xs.back() / 2) * fx + shx + uni(r, -1, 1) * jx;
            double yb = ys.back() / 2 + (yt - ys.back() / 2) * fy + shy + uni(r, -1, 1) * jy;
            if (vertical) { xb = xt; yb = yt; }
            for (double v : { xt, yt, zs.front(), xb, yb, zs.back() }) s.coord.push_back(v);
        }
        for (int k = 0; k < s.nz; ++k) for (int c = 0; c < 2; ++c)
            for (int q = 0; q < 4 * s.nx * s.ny; ++q) s.zcorn.push_back(zs[k + c]);
    }
    return s;
}

// One K1..K2 record on well `wA`, the same layers as one-layer records on the twin well `wB` (same head, same
// COMPORD); `pre`: earlier one-layer records (both wells) so that some layers are re-entered, others new.
struct LayerCase {
    Rec rec; int i, j, k1, k2;           // 0-based column and layer range
    int mask; std::string wA, wB, ord;
    std::vector<Rec> pre;
    std::vector<size_t> recIdxA;         // indices of this well's records (pre..., main) among all COMPDAT records of the deck
};
struct LayerDeck { Scenario s; std::vector<LayerCase> cases; std::string text; };

// Items of a record that covers the active layers `ks` of column (i,j): conditioned on all of them
// (rw below the smallest Peaceman radius, ln(r0/rw) + S >= 0.3 in every layer, sane exponent on the Kh = 0 path)
void fillItemsLayers(vh::Rng& r, const Scenario& s, Rec& rec, int i, int j, const std::vector<int>& ks, int mask) {
    const bool mCF = mask & 1, mKh = mask & 2, mD = mask & 4, mR0 = mask & 8;
    double r0min = 1e300, khmax = 0;
    for (int k : ks) { r0min = std::min(r0min, estR0(s, i, j, k, rec.dir)); khmax = std::max(khmax, estKh(s, i, j, k, rec.dir)); }
    double rw = 0.1524;
    if (mD) {
        rw = std::min(r0min * logU(r, 0.01, 0.6), 2.0);
        const double dval = 2 * rw / s.u.L;
        rec.diam = num(dval); rw = dval * s.u.L / 2; rec.diamGiven = true;
    }
    const bool both = mCF && mKh;
    const int khVariant = (int) r.below(4);
    const bool willKhZero = !mKh && khVariant == 3;
    double rho;     // smallest r0 / rw over the layers
    if (mR0) {
        rho = logU(r, 1.5, 2000);
        const double v = rho * rw / s.u.L;
        rec.pr = num(v); rho = v * s.u.L / rw; rec.r0Given = true;
        if (r.coin(1, 16)) { rec.pr = num(-uni(r, 0.1, 5)); rec.r0Given = false; rho = r0min / rw; }
    } else if (both) rho = logU(r, 1.5, 2000);
    else rho = r0min / rw;
    if (rho <= 1.0) rec.boundary = true;
    const double lr = std::log(std::max(rho, 1.0));
    double S;
    switch (r.below(5)) {
        case 0: S = 0.0; rec.skin = r.coin() ? "1*" : "0"; break;
        case 1: S = -std::min(3.0, std::max(0.0, 0.8 * lr - 0.3)) * r.unit(); rec.skin = num(S); break;
        default: S = uni(r, 0.0, 20.0); rec.skin = num(S); break;
    }
    if (lr + S < 0.3) { S = 0.3 - lr + uni(r, 0, 2); rec.skin = num(S); }
    const double dd = lr + S;
    if (mCF) {
        double cf = logU(r, 1e-3, 1e3) * 1.1574e-13 / s.u.CF;
        if (willKhZero) cf = 6.283185307179586 * khmax / uni(r, 0.5, 25.0) / s.u.CF;
        rec.cf = num(cf); rec.cfPos = true;
        if (!both && r.coin(1, 10)) { rec.cf = r.coin() ? "0" : num(-cf); rec.cfPos = false; }
        if (mKh) { rec.kh = num(cf * s.u.CF * std::max(dd, 0.3) / 6.283185307179586 / s.u.KH); rec.khPos = true; }
    }
    if (mKh && !rec.khPos) { rec.kh = num(logU(r, 1e-1, 1e5)); rec.khPos = true; }
    if (!mKh) {
        switch (khVariant) {
            case 0: rec.kh = "1*"; break;
            case 1: rec.kh = num(-uni(r, 0.5, 3)); break;
            case 2: rec.kh = "-1"; break;
            default: rec.kh = "0"; rec.khZero = true; break;
        }
    }
}

std::string layerDeckText(const LayerDeck& d) {
    std::string sch = "WELSPECS\n";
    for (const auto& c : d.cases)
        for (const auto& w : { c.wA, c.wB })
            sch += " '" + w + "' 'G' " + std::to_string(c.i + 1) + " " + std::to_string(c.j + 1) + " 1* 'OIL' /\n";
    sch += "/\nCOMPORD\n";
    for (const auto& c : d.cases) for (const auto& w : { c.wA, c.wB }) sch += " '" + w + "' " + c.ord + " /\n";
    sch += "/\n";
    for (const auto& c : d.cases) {
        sch += "COMPDAT\n";
        for (const auto& p : c.pre) sch += p.text();
        sch += c.rec.text();
        // the twin: the same layers one record each, in order
        for (auto p : c.pre) { p.well = c.wB; sch += p.text(); }
        for (int k = c.k1; k <= c.k2; ++k) { Rec q = c.rec; q.well = c.wB; q.K1 = q.K2 = k + 1; sch += q.text(); }
        sch += "/\n";
    }
    sch += "TSTEP\n 1 /\nEND\n";
    return gridSection(d.s) + sch;
}

LayerDeck makeLayerDeck(vh::Rng& r, int maxz, int& counter) {
    LayerDeck d;
    d.s = makeLayeredScenario(r, maxz);
    const Scenario& s = d.s;
    const int ncases = r.range(2, 5);
    size_t recCount = 0;
    for (int n = 0; n < ncases; ++n) {
        LayerCase c;
        c.i = r.range(0, s.nx - 1); c.j = r.range(0, s.ny - 1);
        c.k1 = r.range(0, s.nz - 2); c.k2 = r.range(c.k1 + 1, s.nz - 1);
        std::vector<int> ks;
        for (int k = c.k1; k <= c.k2; ++k) if (s.actnum[s.gi(c.i, c.j, k)]) ks.push_back(k);
        if (ks.size() < 2) continue;
        c.mask = counter % 16;
        c.rec.dir = "XYZ"[(counter / 16) % 3];
        ++counter;
        if (r.coin(1, 5)) c.rec.dir = "XYZ"[r.below(3)];
        c.wA = "L" + std::to_string(n) + "A"; c.wB = "L" + std::to_string(n) + "B";
        c.ord = r.pick(std::vector<std::string>{ "INPUT", "TRACK", "DEPTH" });
        c.rec.well = c.wA;
        c.rec.I = c.i + 1; c.rec.J = c.j + 1; c.rec.K1 = c.k1 + 1; c.rec.K2 = c.k2 + 1;
        if (r.coin(1, 4)) { c.rec.I = 0; c.rec.ijStar = r.coin(); }      // I defaulted: the well head
        if (r.coin(1, 4) && !(c.rec.I == 0 && c.rec.ijStar)) c.rec.J = 0;
        c.rec.state = r.pick(std::vector<std::string>{ "OPEN", "OPEN", "SHUT", "AUTO" });
        fillItemsLayers(r, s, c.rec, c.i, c.j, ks, c.mask);
        if (r.coin(1, 3)) {
            const int npre = r.range(1, 2);
            for (int q = 0; q < npre; ++q) {
                const int k = r.range(0, s.nz - 1);
                if (!s.actnum[s.gi(c.i, c.j, k)]) continue;
                Rec p; p.well = c.wA; p.I = c.i + 1; p.J = c.j + 1; p.K1 = p.K2 = k + 1;
                p.dir = "XYZ"[r.below(3)]; p.state = r.pick(std::vector<std::string>{ "OPEN", "SHUT" });
                fillItems(r, s, p, c.i, c.j, k, (int) r.below(16), false);
                c.pre.push_back(p);
            }
        }
        for (size_t q = 0; q <= c.pre.size(); ++q) c.recIdxA.push_back(recCount + q);
        recCount += 2 * c.pre.size() + 1 + (size_t) (c.k2 - c.k1 + 1);
        d.cases.push_back(c);
    }
    d.text = layerDeckText(d);
    return d;
}

// Fixed first layered deck (every seed): a 2 x 2 x 3 METRIC grid with DZ 10 / 20 / 40 and PERMY 100 / 25 / 400 by
// layer (PERMX 100, PERMZ 10): one fully defaulted record K = 1..3 along Z (the Kx/Ky ratio changes with depth) and
// one along X (DZ and Ky/Kz change with depth).
LayerDeck fixedLayerDeck() {
    LayerDeck d;
    Scenario& s = d.s;
    s.u = UNITS[0]; s.nx = s.ny = 2; s.nz = 3;
    s.dxv = { 100, 100 }; s.dyv = { 150, 150 }; s.dzv = { 10, 20, 40 }; s.tops = 2000; s.hasNtg = false;
    const double py[3] = { 100, 25, 400 };
    for (int g = 0; g < 12; ++g) { s.permx.push_back(100); s.permy.push_back(py[g / 4]); s.permz.push_back(10); s.ntg.push_back(1); s.poro.push_back(0.25); s.actnum.push_back(1); }
    int n = 0;
    for (char dir : { 'Z', 'X' }) {
        LayerCase c;
        c.i = n; c.j = n; c.k1 = 0; c.k2 = 2; c.mask = 4; c.ord = "TRACK";
        c.wA = "L" + std::to_string(n) + "A"; c.wB = "L" + std::to_string(n) + "B";
        c.rec.well = c.wA; c.rec.I = c.i + 1; c.rec.J = c.j + 1; c.rec.K1 = 1; c.rec.K2 = 3; c.rec.dir = dir;
        c.rec.diam = "0.2"; c.rec.diamGiven = true; c.rec.skin = "-0.5";
        c.recIdxA.push_back((size_t) n * 4);
        d.cases.push_back(c);
        ++n;
    }
    d.text = layerDeckText(d);
    return d;
}

// --- the oracle: text-book values of one layer, sharing nothing with the library (nor with the Lean model) ---

// SI factors from the definitions of the units (not from Opm::UnitSystem)
struct OracleUnits { long double L, mD, KH, CF; };
OracleUnits oracleUnits(const std::string& name) {
    const long double atm = 101325.0L, bar = 1e5L, day = 86400.0L, hour = 3600.0L, inch = 0.0254L, ft = 12 * inch;
    const long double psi = 0.45359237L * 9.80665L / (inch * inch);        // pound-force per square inch
    const long double stb = 42.0L * 231.0L * inch * inch * inch;           // 42 US gallons of 231 cubic inches
    const long double cP = 1e-3L;
    const long double darcy = cP * 1e-4L / atm;                             // 1 cP cm^2 / (atm s)
    OracleUnits o{};
    o.mD = 1e-3L * darcy;
    if (name == "METRIC")     { o.L = 1;     o.CF = cP / (day * bar); }           // cP rm3 / (day bar)
    else if (name == "FIELD") { o.L = ft;    o.CF = cP * stb / (day * psi); }     // cP rb / (day psi)
    else if (name == "LAB")   { o.L = 1e-2L; o.CF = cP * 1e-6L / (hour * atm); }  // cP rcc / (hr atm)
    else                      { o.L = 1;     o.CF = cP / (day * atm); }           // PVT-M: cP rm3 / (day atm)
    o.KH = o.mD * o.L;
    return o;
}

struct OracleLayer {
    long double CF, Kh, r0, rw, denom;    // expected stored values (SI)
    bool cfKnown, khKnown;                 // false for the quantity derived through ln(r0/rw) in the clamp region r0 <= rw (outside the property's quantifier)
    long double tol;                       // relative tolerance: 1e-12 + conditioning of the geometry (see below)
    long double r0cell, khcell;
};

// Peaceman's values for the cell (i,j,k) of the scenario as the generator wrote it (deck arrays, own unit factors)
OracleLayer oracleLayer(const Scenario& s, const OracleUnits& ou, const Rec& rec, int i, int j, int k) {
    const int g = s.gi(i, j, k);
    const auto dd = s.dimsDeck(i, j, k);
    const long double dx = dd[0] * ou.L, dy = dd[1] * ou.L, hz = dd[2] * ou.L * (s.hasNtg ? (long double) s.ntg[g] : 1.0L);
    const long double kx = s.permx[g] * ou.mD, ky = s.permy[g] * ou.mD, kz = s.permz[g] * ou.mD;
    long double ka, kb, da, db, h;
    if (rec.dir == 'X')      { ka = ky; kb = kz; da = dy; db = hz; h = dx; }
    else if (rec.dir == 'Y') { ka = kx; kb = kz; da = dx; db = hz; h = dy; }
    else                     { ka = kx; kb = ky; da = dx; db = dy; h = hz; }
    OracleLayer o{};
    o.khcell = sqrtl(ka * kb) * h;
    o.r0cell = 0.28L * sqrtl(sqrtl(kb / ka) * da * da + sqrtl(ka / kb) * db * db) / (powl(ka / kb, 0.25L) + powl(kb / ka, 0.25L));
    auto item = [](const std::string& t) { return (long double) std::strtod(t.c_str(), nullptr); };
    const long double S = rec.skin == "1*" ? 0.0L : item(rec.skin);
    o.rw = rec.diamGiven ? item(rec.diam) * ou.L / 2 : 0.1524L;
    const long double cfIn = rec.cfPos ? item(rec.cf) * ou.CF : 0, khIn = rec.khPos ? item(rec.kh) * ou.KH : 0;
    const long double r0In = rec.r0Given ? item(rec.pr) * ou.L : o.r0cell;    // item 14 or Peaceman's radius of THIS cell
    o.cfKnown = o.khKnown = true;
    long double amp = 1;      // amplification of a relative input error
    if (rec.cfPos && rec.khPos) {
        o.CF = cfIn; o.Kh = khIn;
        o.r0 = rec.r0Given ? r0In : o.rw * expl(TWO_PI * khIn / cfIn - S);
        amp += fabsl(TWO_PI * khIn / cfIn);
    } else if (rec.khPos) {
        o.Kh = khIn; o.r0 = r0In; o.denom = logl(r0In / o.rw) + S; o.CF = TWO_PI * khIn / o.denom;
        o.cfKnown = r0In > o.rw; amp += (fabsl(logl(r0In / o.rw)) + fabsl(S) + 1) / fabsl(o.denom);
    } else if (rec.cfPos && rec.khZero) {
        o.CF = cfIn; o.Kh = o.khcell; o.r0 = o.rw * expl(TWO_PI * o.khcell / cfIn - S);
        amp += fabsl(TWO_PI * o.khcell / cfIn) + fabsl(S);
    } else if (rec.cfPos) {
        o.CF = cfIn; o.r0 = r0In; o.denom = logl(r0In / o.rw) + S; o.Kh = cfIn * o.denom / TWO_PI;
        o.khKnown = r0In > o.rw; amp += (fabsl(logl(r0In / o.rw)) + fabsl(S) + 1) / fabsl(o.denom);
    } else {
        o.Kh = o.khcell; o.r0 = r0In; o.denom = logl(r0In / o.rw) + S; o.CF = TWO_PI * o.khcell / o.denom;
        o.cfKnown = r0In > o.rw; amp += (fabsl(logl(r0In / o.rw)) + fabsl(S) + 1) / fabsl(o.denom);
    }
    // The library holds the grid as corner coordinates in double: a cell extent is a difference of coordinates, known
    // to a few ulp of the *coordinate*.  Relative to the extent: eps * |coordinate| / extent.
    long double cmax[3] = { 0, 0, 0 };
    if (s.cpg) { for (size_t q = 0; q < s.coord.size(); ++q) cmax[q % 3] = std::max(cmax[q % 3], fabsl((long double) s.coord[q])); }
    else {
        for (double v : s.dxv) cmax[0] += v;
        for (double v : s.dyv) cmax[1] += v;
        cmax[2] = s.tops; for (double v : s.dzv) cmax[2] += v;
    }
    const long double eps = 2.220446049250313e-16L;
    const long double geom = 8 * eps * (cmax[0] / dd[0] + cmax[1] / dd[1] + (cmax[0] + cmax[1]) / std::min(dd[0], dd[1]) * (s.cpg ? 1 : 0) + cmax[2] / dd[2]);
    o.tol = (1e-12L + geom) * amp;
    return o;
}

} // namespace

int main(int argc, char** argv) {
    if (argc < 5) { std::cerr << "usage: compdat corr|prop <seed> <tier> <outdir>\n"; return 2; }
    const std::string mode = argv[1];
    const uint64_t seed = std::strtoull(argv[2], nullptr, 10);
    const std::string tier = argv[3];
    const std::string outdir = argv[4];
    fs::create_directories(outdir);
    omp_set_num_threads(1);     // tiny decks: OpenMP teams only cost time (and the machine is shared)
    // vh::Rng(seed) and vh::Rng(seed + d) are the same stream d draws apart; hash the seed so that
    // different seeds really explore different cases
    uint64_t hs = seed + 0xC06C06C06ull;
    hs = (hs ^ (hs >> 30)) * 0xBF58476D1CE4E5B9ull; hs = (hs ^ (hs >> 27)) * 0x94D049BB133111EBull; hs ^= hs >> 31;
    vh::Rng rng(hs);
    const bool thorough = tier == "thorough";

    if (mode == "corr") {
        vh::Sink sink(outdir);
        int maskCounter = (int) rng.below(48);
        // (1) one connection per record
        const int ndecks = thorough ? 8000 : 600;
        for (int n = 0; n < ndecks; ++n) {
            const bool wild = n % 3 == 2;
            CtfDeck d = (n == 0) ? fixedCtfDeck() : makeCtfDeck(rng, wild, maskCounter);
            std::unique_ptr<Loaded> l;
            try { l = load(d.text); }
            catch (const std::exception& e) { std::cerr << "generated deck rejected: " << e.what() << "\n" << d.text; return 3; }
            auto recs = recordsOf(l->deck, "COMPDAT");
            if (recs.size() != d.cases.size()) { std::cerr << "record count mismatch\n"; return 3; }
            for (size_t q = 0; q < d.cases.size(); ++q) {
                const auto& cc = d.cases[q];
                const auto& rec = *recs[q];
                // the parser must have seen what the generator meant
                if (rec.getItem("CONNECTION_TRANSMISSIBILITY_FACTOR").hasValue(0) != (cc.rec.cf != "1*") ||
                    rec.getItem("DIAMETER").hasValue(0) != cc.rec.diamGiven || rec.getItem("PR").hasValue(0) != (cc.rec.pr != "1*")) {
                    std::cerr << "parser/generator disagree on defaulted items: " << cc.rec.text(); return 3;
                }
                const auto& conns = l->sched->getWell(cc.rec.well, 0).getConnections();
                const Connection* c = findConn(conns, cc.i, cc.j, cc.k);
                if (!c) { sink.emit("peaceman.missing " + cc.rec.text(), "connection-missing"); continue; }
                const auto cd = cellData(*l->es, cc.i, cc.j, cc.k);
                const auto& p = c->ctfProperties();
                double v[9] = { p.CF, p.Kh, p.Ke, p.rw, p.r0, p.re, p.connection_length, p.skin_factor, p.peaceman_denom };
                const char* names[9] = { "CF", "Kh", "Ke", "rw", "r0", "re", "connLen", "skin", "denom" };
                std::string expect = "ok " + cc.rec.branch();
                bool allFinite = true;
                for (int f = 0; f < 9; ++f) allFinite = allFinite && std::isfinite(v[f]) && (f == 7 || v[f] != 0.0);
                if (allFinite && rng.coin(1, 40)) {       // negative control: the comparator must notice
                    int f = rng.range(0, 8);
                    if (v[f] == 0.0) f = 0;
                    v[f] *= 1.0 + 1e-9;
                    expect = std::string("differs ") + names[f];
                    sink.count("ctf.negative_control");
                }
                std::string line = "peaceman.ctf " + inputTokens(rec) + " " + cellTokens(cd);
                for (double x : v) line += " " + vh::hexF64(x);
                line += c->ctfAssignedFromInput() ? " 1" : " 0";
                sink.emit(line, expect);
                sink.count("ctf.branch." + cc.rec.branch());
                sink.count(std::string("ctf.dir.") + cc.rec.dir);
                sink.count(std::string("ctf.unit.") + d.s.u.name);
                sink.count("ctf.mask." + std::to_string(cc.mask));
                if (cc.rec.boundary) sink.count("ctf.boundary_r0_le_rw");
                if (p.skin_factor < 0) sink.count("ctf.negative_skin");
                if (!allFinite) sink.count("ctf.nonfinite_or_zero");
                // CSKIN on a copy of the real connection (Connection::setSkinFactor)
                if (allFinite && rng.coin(1, 3)) {
                    Connection c2 = *c;
                    const double s2 = p.skin_factor + uni(rng, -0.5, 6.0);
                    c2.setSkinFactor(s2);
                    const auto& q2 = c2.ctfProperties();
                    std::string l2 = "peaceman.cskin";
                    for (double x : { p.CF, p.Kh, p.Ke, p.rw, p.r0, p.re, p.connection_length, p.skin_factor, p.peaceman_denom }) l2 += " " + vh::hexF64(x);
                    l2 += " " + vh::hexF64(s2) + " " + vh::hexF64(q2.CF) + " " + vh::hexF64(q2.skin_factor) + " " + vh::hexF64(q2.peaceman_denom);
                    sink.emit(l2, "ok");
                    sink.count("cskin");
                }
                // unit conversions of the explicit items
                // (DeckItem::get<double> returns the SI value once getSIDouble has run on the item, so the
                // deck value is taken from the text the generator wrote)
                auto unit = [&](const char* item, const char* dim, const std::string& text) {
                    const auto& it = rec.getItem(item);
                    if (text == "1*" || !it.hasValue(0) || it.defaultApplied(0)) return;
                    sink.emit(std::string("peaceman.unit ") + d.s.u.name + " " + dim + " " + vh::hexF64(std::strtod(text.c_str(), nullptr)) + " " + vh::hexF64(it.getSIDouble(0)), "ok");
                    sink.count("unit");
                };
                unit("CONNECTION_TRANSMISSIBILITY_FACTOR", "CF", cc.rec.cf); unit("Kh", "KH", cc.rec.kh); unit("DIAMETER", "L", cc.rec.diam); unit("PR", "L", cc.rec.pr);
            }
        }
        // (2) histories
        const int nseq = thorough ? 8000 : 600;
        for (int n = 0; n < nseq; ++n) {
            SeqDeck d = makeSeqDeck(rng, tier, true);
            std::unique_ptr<Loaded> l;
            try { l = load(d.text); }
            catch (const std::exception& e) { std::cerr << "generated deck rejected: " << e.what() << "\n" << d.text; return 3; }
            const auto toks = seqTokens(d, l->deck);
            std::string head = "conns.seq " + d.ord + " " + std::to_string(d.headI - 1) + " " + std::to_string(d.headJ - 1) + " " +
                               std::to_string(d.s.nx) + " " + std::to_string(d.s.ny) + " " + std::to_string(d.s.nz);
            for (int k = 0; k < d.s.nz; ++k) for (int j = 0; j < d.s.ny; ++j) for (int i = 0; i < d.s.nx; ++i) {
                auto cd = cellData(*l->es, i, j, k);
                if (!cd.active) { cd.kx = cd.ky = cd.kz = cd.ntg = 0; }
                head += std::string(" ") + (cd.active ? "1" : "0") + " " + cellTokens(cd) + " " + vh::hexF64(cd.depth);
            }
            std::string hist; int nops = 0;
            for (size_t t = 0; t < d.steps.size(); ++t) {
                for (const auto& tk : toks.steps[t]) { hist += " " + tk; ++nops; }
                const auto& conns = l->sched->getWell("W1", t).getConnections();
                int pert = -1; std::string expect = "ok";
                size_t which = 0;
                if (conns.size() > 0 && rng.coin(1, 30)) {
                    pert = rng.range(0, 3); which = rng.below(conns.size());
                    const double cfw = conns.get(which).CF();
                    if (!std::isfinite(cfw) || cfw == 0.0) pert = -1;     // a perturbation would not be visible there
                    else {
                        expect = "differs " + std::to_string(which) + " " + PERT_FIELD[pert];
                        sink.count("seq.negative_control");
                    }
                }
                std::string line = head + " " + std::to_string(nops) + hist + " " + std::to_string(conns.size());
                size_t idx = 0;
                for (const auto& c : conns) { line += " " + connTokens(c, idx == which ? pert : -1); ++idx; }
                sink.emit(line, expect);
                sink.count("seq.lines");
                sink.count("seq.order." + d.ord);
                sink.count("seq.conns", (long) conns.size());
            }
            for (const auto& ops : d.steps) for (const auto& op : ops) sink.count(std::string("seq.op.") + op.kind);
        }
        // (3) records over several layers: all 16 masks x 3 directions on layered / corner-point columns
        {
            int counter = (int) rng.below(48);
            const int nlay = thorough ? 2500 : 200;
            for (int n = 0; n < nlay; ++n) {
                LayerDeck d = (n == 0) ? fixedLayerDeck() : makeLayerDeck(rng, thorough ? 8 : 6, counter);
                if (d.cases.empty()) continue;
                std::unique_ptr<Loaded> l;
                try { l = load(d.text); }
                catch (const std::exception& e) { std::cerr << "generated deck rejected: " << e.what() << "\n" << d.text; return 3; }
                const auto recs = recordsOf(l->deck, "COMPDAT");
                std::string cells;
                for (int k = 0; k < d.s.nz; ++k) for (int j = 0; j < d.s.ny; ++j) for (int i = 0; i < d.s.nx; ++i) {
                    auto cd = cellData(*l->es, i, j, k);
                    if (!cd.active) { cd.kx = cd.ky = cd.kz = cd.ntg = 0; }
                    cells += std::string(" ") + (cd.active ? "1" : "0") + " " + cellTokens(cd) + " " + vh::hexF64(cd.depth);
                }
                for (const auto& c : d.cases) {
                    std::string line = "conns.seq " + c.ord + " " + std::to_string(c.i) + " " + std::to_string(c.j) + " " +
                                       std::to_string(d.s.nx) + " " + std::to_string(d.s.ny) + " " + std::to_string(d.s.nz) + cells;
                    line += " " + std::to_string(c.recIdxA.size() + 1);
                    for (size_t q : c.recIdxA) {
                        const auto& rec = *recs.at(q);
                        const auto& I = rec.getItem("I"); const auto& J = rec.getItem("J");
                        line += " C " + std::to_string(I.defaultApplied(0) ? 0 : I.get<int>(0)) + " " + std::to_string(J.defaultApplied(0) ? 0 : J.get<int>(0)) + " " +
                                std::to_string(rec.getItem("K1").get<int>(0)) + " " + std::to_string(rec.getItem("K2").get<int>(0)) + " " +
                                rec.getItem("STATE").getTrimmedString(0) + " " + inputTokens(rec);
                    }
                    line += " E";
                    const auto& conns = l->sched->getWell(c.wA, 0).getConnections();
                    int pert = -1; std::string expect = "ok"; size_t which = 0;
                    if (conns.size() > 0 && rng.coin(1, 30)) {
                        pert = 0; which = rng.below(conns.size());
                        const double cfw = conns.get(which).CF();
                        if (!std::isfinite(cfw) || cfw == 0.0) pert = -1;
                        else { expect = "differs " + std::to_string(which) + " CF"; sink.count("layers.negative_control"); }
                    }
                    line += " " + std::to_string(conns.size());
                    size_t idx = 0;
                    for (const auto& cn : conns) { line += " " + connTokens(cn, idx == which ? pert : -1); ++idx; }
                    sink.emit(line, expect);
                    sink.count("layers.lines");
                    sink.count("layers.mask." + std::to_string(c.mask));
                    sink.count(std::string("layers.dir.") + c.rec.dir);
                    sink.count(std::string("layers.grid.") + (d.s.cpg ? "cornerpoint" : "dxv"));
                    sink.count("layers.branch." + c.rec.branch());
                    sink.count("layers.conns", (long) conns.size());
                }
            }
        }
        sink.writeStats(outdir + "/stats.json");
        return 0;
    }

    if (mode == "prop") {
        vh::PropLog log(outdir + "/prop.txt");
        std::map<std::string, long> stats;
        int maskCounter = (int) rng.below(48);
        // (P1) identity, (P2) defaults are the text-book values, (P3) idempotence
        const int ndecks = thorough ? 6000 : 500;
        for (int n = 0; n < ndecks; ++n) {
            CtfDeck d = (n == 0) ? fixedCtfDeck() : makeCtfDeck(rng, false, maskCounter);
            std::unique_ptr<Loaded> l;
            try { l = load(d.text); }
            catch (const std::exception& e) { std::cerr << "generated deck rejected: " << e.what() << "\n" << d.text; return 3; }
            const auto& us = l->es->getUnits();
            // second deck: every connection re-entered with the stored CF, Kh, r0 made explicit
            std::string sch2 = "WELSPECS\n";
            std::set<std::string> wells;
            for (const auto& cc : d.cases) wells.insert(cc.rec.well);
            for (const auto& w : wells) sch2 += " '" + w + "' 'G' 1 1 1* 'OIL' /\n";
            sch2 += "/\nCOMPDAT\n";
            struct Fed { size_t q; int what; };
            std::vector<Fed> fed;
            std::vector<Snap> first(d.cases.size());
            std::vector<bool> have(d.cases.size(), false);
            for (size_t q = 0; q < d.cases.size(); ++q) {
                const auto& cc = d.cases[q];
                const Connection* c = findConn(l->sched->getWell(cc.rec.well, 0).getConnections(), cc.i, cc.j, cc.k);
                std::string where = cc.rec.text(); where.pop_back();
                if (!c) { log.fail("connection-missing", where); continue; }
                const auto cd = cellData(*l->es, cc.i, cc.j, cc.k);
                const long double CF = c->CF(), Kh = c->Kh(), r0 = c->r0(), rw = c->rw(), S = c->skinFactor();
                ++stats["identity.mask." + std::to_string(cc.mask)];
                const bool finite = std::isfinite((double) CF) && std::isfinite((double) Kh) && std::isfinite((double) r0) && rw > 0;
                if (!finite && cc.rec.consistent) { log.fail("identity.nonfinite", where); continue; }
                if (!finite) ++stats["identity.nonfinite_expected"];
                if (!finite) { /* rw >= r0 with zero skin: CF = inf by the clamp; only the defaults below are checked */ }
                else if (r0 > rw && cc.rec.consistent) {
                    const long double lhs = CF * (logl(r0 / rw) + S), rhs = TWO_PI * Kh;
                    if (!relClose(lhs, rhs, 1e-12L))
                        log.fail("identity", "unit=" + std::string(d.s.u.name) + " branch=" + cc.rec.branch() + " rel=" + num((double) ((lhs - rhs) / rhs)) + " rec=" + where);
                    log.ok(); ++stats["identity.checked"]; ++stats["identity.branch." + cc.rec.branch()];
                } else if (cc.rec.consistent) {
                    // r0 <= rw: outside the property's physical quantifier; the clamped relation is what holds
                    const long double lhs = CF * S, rhs = TWO_PI * Kh;
                    if (cc.rec.branch() != "both" && cc.rec.branch() != "cfGivenKhZero" && !relClose(lhs, rhs, 1e-12L))
                        log.fail("identity.clamped", where);
                    ++stats["identity.boundary_r0_le_rw"];
                }
                // CSKIN (Connection::setSkinFactor) keeps the relation
                if (finite && r0 > rw && cc.rec.consistent && rng.coin(1, 3)) {
                    Connection c2 = *c;
                    const long double pd = logl(r0 / rw) + S;
                    const double s2 = (double) S + (pd > 0 ? uni(rng, -0.5 * (double) std::min(pd, 4.0L), 6.0) : uni(rng, 0.0, 6.0));
                    c2.setSkinFactor(s2);
                    const long double lhs = (long double) c2.CF() * (logl((long double) c2.r0() / c2.rw()) + c2.skinFactor()), rhs = TWO_PI * c2.Kh();
                    const long double scale = fabsl((long double) c2.CF()) * (fabsl(logl(r0 / rw)) + fabsl((long double) s2)) + fabsl(rhs);
                    if (fabsl(lhs - rhs) > 1e-12L * scale || c2.skinFactor() != s2)
                        log.fail("cskin.identity", "new skin " + num(s2) + " rel=" + num((double) ((lhs - rhs) / rhs)) + " rec=" + where);
                    log.ok(); ++stats["cskin.identity.checked"];
                }
                // defaults
                const Textbook tb = textbook(cd, cc.rec.dir);
                if (!cc.rec.khPos && (!cc.rec.cfPos || cc.rec.khZero)) {
                    if (!relClose(Kh, tb.kh, 1e-12L)) log.fail("default.Kh", "got=" + num((double) Kh) + " textbook=" + num((double) tb.kh) + " rec=" + where);
                    log.ok(); ++stats["default.Kh.checked"];
                }
                if (!cc.rec.r0Given && !(cc.rec.cfPos && (cc.rec.khPos || cc.rec.khZero))) {
                    if (!relClose(r0, tb.r0, 1e-12L)) log.fail("default.r0", "got=" + num((double) r0) + " textbook=" + num((double) tb.r0) + " rec=" + where);
                    log.ok(); ++stats["default.r0.checked"];
                }
                if (!cc.rec.diamGiven) { if (!relClose(rw, 0.1524L, 1e-15L)) log.fail("default.rw", where); log.ok(); }
                if (!relClose(c->skinFactor(), cc.rec.skin == "1*" ? 0.0 : std::strtod(cc.rec.skin.c_str(), nullptr), 1e-15L)) log.fail("skin.stored", where);
                if (dirName(c->dir())[0] != cc.rec.dir) log.fail("dir.stored", where);
                if (std::string(stateName(c->state())) != cc.rec.state) log.fail("state.stored", where);
                // feed back
                if (finite && CF > 0 && Kh > 0 && r0 > 0 && cc.rec.consistent) {
                    Rec r2 = cc.rec;
                    const int what = (int) rng.below(4);     // 0: all three, 1: CF only, 2: Kh only, 3: r0 only
                    // re-entering computed values reproduces them unless the clamp min(rw, r0) was active
                    const bool usable = ((r0 > rw) || what == 0 || what == 3) &&
                                        !(what == 2 && cc.rec.khZero && cc.rec.r0Given);   // Kh = 0 makes the code ignore an explicit r0
                    if (what == 0 || what == 1) { r2.cf = num(us.from_si(UnitSystem::measure::transmissibility, (double) CF)); }
                    if (what == 0 || what == 2) { r2.kh = num(us.from_si(UnitSystem::measure::effective_Kh, (double) Kh)); }
                    if (what == 0 || what == 3) { r2.pr = num(us.from_si(UnitSystem::measure::length, (double) r0)); }
                    if (usable) {
                        sch2 += r2.text(); fed.push_back({ q, what });
                        for (const auto& s0 : snapshot(l->sched->getWell(cc.rec.well, 0).getConnections()))
                            if (s0.i == cc.i && s0.j == cc.j && s0.k == cc.k) first[q] = s0;
                        have[q] = true;
                    }
                }
            }
            sch2 += "/\nTSTEP\n 1 /\nEND\n";
            if (!fed.empty()) {
                std::unique_ptr<Loaded> l2;
                try { l2 = load(gridSection(d.s) + sch2); }
                catch (const std::exception& e) { log.fail("idempotence.rejected", "explicit re-entry of computed values rejected by the parser"); continue; }
                for (const auto& f : fed) {
                    const auto& cc = d.cases[f.q];
                    const Connection* c = findConn(l2->sched->getWell(cc.rec.well, 0).getConnections(), cc.i, cc.j, cc.k);
                    if (!c) { log.fail("idempotence.missing", cc.rec.text()); continue; }
                    const Snap& a = first[f.q];
                    const long double tol = 1e-12L;   // decimal + unit round trip of the inputs, through exp/log
                    bool same = relClose(a.CF, c->CF(), tol) && relClose(a.Kh, c->Kh(), tol) && relClose(a.r0, c->r0(), tol) &&
                                a.rw == c->rw() && a.skin == c->skinFactor() && relClose(a.connLen, c->connectionLength(), tol) && a.Ke == c->Ke();
                    if (!same)
                        log.fail("idempotence", "what=" + std::to_string(f.what) + " branch=" + cc.rec.branch() + " CF " + num(a.CF) + "->" + num(c->CF()) + " Kh " + num(a.Kh) + "->" + num(c->Kh()) +
                                 " r0 " + num(a.r0) + "->" + num(c->r0()) + " rec=" + cc.rec.text().substr(0, cc.rec.text().size() - 1));
                    log.ok(); ++stats["idempotence.checked"]; ++stats["idempotence.what." + std::to_string(f.what)];
                }
            }
        }
        // (P4) frame properties over histories
        const int nseq = thorough ? 8000 : 700;
        for (int n = 0; n < nseq; ++n) {
            SeqDeck d = makeSeqDeck(rng, tier, false);
            std::unique_ptr<Loaded> l;
            try { l = load(d.text); }
            catch (const std::exception& e) { std::cerr << "generated deck rejected: " << e.what() << "\n" << d.text; return 3; }
            std::vector<Snap> prev;
            const long failedBefore = log.failed;
            for (size_t t = 0; t < d.steps.size(); ++t) {
                const auto cur = snapshot(l->sched->getWell("W1", t).getConnections());
                const std::string where = "deck=" + std::to_string(n) + " step=" + std::to_string(t) + " ord=" + d.ord;
                // the relation along the history: CF (ln(r0/rw) + S) = wpimult * 2 pi Kh for every connection at
                // every report step (tolerance relative to the magnitude of the terms: records covering several
                // layers are conditioned on their first cell only)
                for (const auto& c : cur) {
                    if (!(c.r0 > c.rw) || !(c.rw > 0) || !std::isfinite(c.CF) || !std::isfinite(c.r0)) { ++stats["history.identity.skipped_r0_le_rw"]; continue; }
                    const long double lg = logl((long double) c.r0 / c.rw);
                    const long double lhs = (long double) c.CF * (lg + c.skin), rhs = (long double) c.wpimult * TWO_PI * c.Kh;
                    const long double scale = fabsl((long double) c.CF) * (fabsl(lg) + fabsl((long double) c.skin)) + fabsl(rhs);
                    // + the rounding of the stored r0, rw themselves: |d ln(r0/rw)| <= 2 ulp whatever its size
                    // (a Kh = 0 record over several layers can back-compute r0 = rw (1 + 4e-5))
                    if (fabsl(lhs - rhs) > 1e-12L * scale + 8 * 2.220446049250313e-16L * fabsl((long double) c.CF))
                        log.fail("history.identity", where + " cell=" + snapKey(c) + " lhs=" + num((double) lhs) + " rhs=" + num((double) rhs) + " wpimult=" + num(c.wpimult));
                    log.ok(); ++stats["history.identity.checked"];
                }
                // which old connections may change in this step, and how
                std::map<std::string, const Snap*> curBy;
                for (const auto& c : cur) curBy[snapKey(c)] = &c;
                if (curBy.size() != cur.size()) log.fail("frame.duplicate-cell", where);
                if (cur.size() < prev.size()) log.fail("frame.length", where);
                std::set<int> complnums;
                for (const auto& c : cur) complnums.insert(c.complnum);
                bool lumped = false;
                for (size_t tt = 0; tt <= t; ++tt) for (const auto& op : d.steps[tt]) if (op.kind == 'L' && op.onW1) lumped = true;
                if (!lumped && complnums.size() != cur.size()) log.fail("frame.complnum-unique", where);
                // no connection added in this step: the order must be what it was, whatever COMPORD says
                if (cur.size() == prev.size())
                    for (size_t p = 0; p < cur.size(); ++p)
                        if (!(cur[p].i == prev[p].i && cur[p].j == prev[p].j && cur[p].k == prev[p].k)) { log.fail("frame.order-stable", where + " pos=" + std::to_string(p)); break; }
                for (size_t p = 0; p < prev.size(); ++p) {
                    const Snap& o = prev[p];
                    auto it = curBy.find(snapKey(o));
                    if (it == curBy.end()) { log.fail("frame.vanished", where + " cell=" + snapKey(o)); continue; }
                    const Snap& c = *it->second;
                    if (c.sort != o.sort) log.fail("frame.sort-value", where + " cell=" + snapKey(o));
                    if (d.ord == "INPUT" && !(cur[p].i == o.i && cur[p].j == o.j && cur[p].k == o.k)) log.fail("frame.order", where + " pos=" + std::to_string(p));
                    // replay the step's records on this one connection according to the documented semantics
                    bool compdat = false, anyW = false, anyO = false;
                    long double mult = 1; std::optional<double> global;
                    Snap e = o;      // expected state, evolving record by record
                    for (const auto& op : d.steps[t]) {
                        if (!op.onW1) continue;
                        if (op.kind == 'C') {
                            const int I = op.rec.I == 0 ? d.headI : op.rec.I, J = op.rec.J == 0 ? d.headJ : op.rec.J;
                            if (I == o.i + 1 && J == o.j + 1 && op.rec.K1 <= o.k + 1 && o.k + 1 <= op.rec.K2) compdat = true;
                        } else if (op.kind == 'W') {
                            bool allDef = true;
                            for (auto& v : op.sel) if (v && *v >= 0) allDef = false;
                            if (allDef) global = op.factor;                // applies to the whole well at the end of the step, last one wins
                            else if (selected(op.sel, e)) { mult *= op.factor; anyW = true; }
                        } else if (op.kind == 'O') {
                            bool allStar = true;
                            for (auto& v : op.sel) if (v) allStar = false;
                            if (!allStar && selected(op.sel, e)) {
                                anyO = true;
                                e.state = op.state == "OPEN" ? Connection::State::OPEN : op.state == "AUTO" ? Connection::State::AUTO : Connection::State::SHUT;
                            }
                        } else {   // COMPLUMP I J K1 K2 N
                            auto any = [](const std::optional<int>& v) { return !v || *v == 0; };
                            if ((any(op.sel[0]) || *op.sel[0] == e.i + 1) && (any(op.sel[1]) || *op.sel[1] == e.j + 1) &&
                                (any(op.sel[2]) || e.k + 1 >= *op.sel[2]) && (any(op.sel[3]) || e.k + 1 <= *op.sel[3]))
                                e.complnum = *op.sel[4];
                        }
                    }
                    if (c.complnum != e.complnum) log.fail("frame.complnum", where + " cell=" + snapKey(o));    // re-entry keeps it, COMPLUMP sets it
                    if (compdat) { ++stats["frame.retargeted"]; log.ok(); continue; }   // re-entered: beyond that only the relation (checked above) is promised
                    if (global) mult *= *global;
                    const bool scaled = anyW || global;
                    // (NaN == NaN here: r0 <= rw with zero skin gives CF = inf and NaN companions)
                    bool ok = c.i == e.i && c.j == e.j && c.k == e.k && c.state == e.state && c.dir == e.dir && Snap::eq(c.Kh, e.Kh) && Snap::eq(c.r0, e.r0) && Snap::eq(c.rw, e.rw) &&
                              Snap::eq(c.skin, e.skin) && Snap::eq(c.depth, e.depth) && Snap::eq(c.Ke, e.Ke) && Snap::eq(c.connLen, e.connLen) && c.fromDeck == e.fromDeck;
                    // (a WPIMULT that changes no field Connection::operator== compares - CF = inf or 0 - is dropped by
                    //  Well::updateConnections, multiplier included: wpimult() is only checked for regular CF)
                    const bool regularCF = std::isfinite(o.CF) && o.CF != 0.0;
                    if (scaled) ok = ok && relClose(c.CF, (long double) o.CF * mult, 1e-14L) && (!regularCF || relClose(c.wpimult, (long double) o.wpimult * mult, 1e-14L));
                    else ok = ok && Snap::eq(c.CF, o.CF) && Snap::eq(c.wpimult, o.wpimult);
                    if (!ok) log.fail(scaled ? "frame.wpimult" : (anyO ? "frame.welopen" : "frame.untouched"),
                                      where + " cell=" + snapKey(o) + " CF " + num(o.CF) + "->" + num(c.CF) + " wpimult " + num(o.wpimult) + "->" + num(c.wpimult) + " expected factor " + num((double) mult) +
                                      " Kh " + num(o.Kh) + "->" + num(c.Kh) + " r0 " + num(o.r0) + "->" + num(c.r0) + " connLen " + num(o.connLen) + "->" + num(c.connLen) +
                                      " state " + stateName(o.state) + "->" + stateName(c.state) + " (expected " + stateName(e.state) + ")");
                    log.ok(); ++stats[scaled ? "frame.scaled" : (anyO ? "frame.state-set" : "frame.untouched")];
                }
                prev = cur;
            }
            if (log.failed != failedBefore) vh::spit(outdir + "/failing_history_" + std::to_string(n) + ".DATA", d.text);   // the concrete input
        }
        // (P5) records over several layers (K1 < K2): every layer's stored CF / Kh / r0 against the text-book value
        // of ITS OWN cell, computed from the arrays the generator wrote (own unit factors, own cell extents - also
        // from COORD/ZCORN -, long double); and the record K1..K2 against the same layers entered one record each
        {
            int counter = (int) rng.below(48);
            long maxRelE16 = 0, maxOverTolPct = 0;
            const int nlay = thorough ? 4000 : 300;
            for (int n = 0; n < nlay; ++n) {
                LayerDeck d = (n == 0) ? fixedLayerDeck() : makeLayerDeck(rng, thorough ? 8 : 6, counter);
                if (d.cases.empty()) continue;
                std::unique_ptr<Loaded> l;
                try { l = load(d.text); }
                catch (const std::exception& e) { std::cerr << "generated deck rejected: " << e.what() << "\n" << d.text; return 3; }
                const OracleUnits ou = oracleUnits(d.s.u.name);
                const long failedBefore = log.failed;
                const std::string file = "failing_layers_" + std::to_string(n) + ".DATA";
                for (const auto& c : d.cases) {
                    const auto& A = l->sched->getWell(c.wA, 0).getConnections();
                    const auto& B = l->sched->getWell(c.wB, 0).getConnections();
                    std::string rtxt = c.rec.text(); rtxt.pop_back();
                    const std::string where = "deck=" + outdir + "/" + file + " unit=" + d.s.u.name + " grid=" + (d.s.cpg ? "cornerpoint" : "dxv") + " branch=" + c.rec.branch() + " rec=" + rtxt;
                    ++stats["layers.records"]; ++stats["layers.mask." + std::to_string(c.mask)]; ++stats[std::string("layers.dir.") + c.rec.dir];
                    ++stats[std::string("layers.grid.") + (d.s.cpg ? "cornerpoint" : "dxv")];
                    long double r0lo = 1e300L, r0hi = 0;
                    for (int k = c.k1; k <= c.k2; ++k) {
                        const Connection* cn = findConn(A, c.i, c.j, k);
                        const std::string lay = " layer=" + std::to_string(k + 1) + " ";
                        if (!d.s.actnum[d.s.gi(c.i, c.j, k)]) {
                            bool preHere = false;
                            for (const auto& p : c.pre) if (p.K1 == k + 1) preHere = true;
                            if (cn && !preHere) log.fail("layers.inactive-connected", where + lay);
                            log.ok(); ++stats["layers.inactive"];
                            continue;
                        }
                        if (!cn) { log.fail("layers.missing", where + lay); continue; }
                        const OracleLayer o = oracleLayer(d.s, ou, c.rec, c.i, c.j, k);
                        r0lo = std::min(r0lo, o.r0cell); r0hi = std::max(r0hi, o.r0cell);
                        const int g = d.s.gi(c.i, c.j, k);
                        const auto dd = d.s.dimsDeck(c.i, c.j, k);
                        const std::string cell = "cell(deck units) DX=" + num((double) dd[0]) + " DY=" + num((double) dd[1]) + " DZ=" + num((double) dd[2]) + " PERMX=" + num(d.s.permx[g]) +
                                                 " PERMY=" + num(d.s.permy[g]) + " PERMZ=" + num(d.s.permz[g]) + " NTG=" + num(d.s.hasNtg ? d.s.ntg[g] : 1.0) + " ";
                        auto cmp = [&](const char* key, long double got, long double want) {
                            if (!relClose(got, want, o.tol))
                                log.fail(std::string("layers.") + key, where + lay + std::string(key) + " stored=" + num((double) got) + " textbook(own cell)=" + num((double) want) +
                                         " rel=" + num((double) ((got - want) / want)) + " " + cell);
                            log.ok(); ++stats[std::string("layers.checked.") + key];
                            if (want != 0 && std::isfinite((double) got)) {      // observed slack, for the record
                                const long double rel = fabsl((got - want) / want);
                                maxRelE16 = std::max(maxRelE16, (long) std::min(rel / 1e-16L, 1e15L));
                                maxOverTolPct = std::max(maxOverTolPct, (long) std::min(100 * rel / o.tol, 1e15L));
                            }
                        };
                        cmp("r0", cn->r0(), o.r0);
                        if (o.khKnown) cmp("Kh", cn->Kh(), o.Kh); else ++stats["layers.Kh_skipped_r0_le_rw"];
                        if (o.cfKnown) cmp("CF", cn->CF(), o.CF); else ++stats["layers.CF_skipped_r0_le_rw"];
                        if (!relClose(cn->rw(), o.rw, 1e-15L)) log.fail("layers.rw", where + lay);
                        if (dirName(cn->dir())[0] != c.rec.dir || std::string(stateName(cn->state())) != c.rec.state) log.fail("layers.dir-state", where + lay);
                        // the defaulted quantities by themselves (the clause "every defaulted quantity equals its Peaceman value")
                        if (!c.rec.khPos && (!c.rec.cfPos || c.rec.khZero)) ++stats["layers.default.Kh"];
                        if (!c.rec.r0Given && !(c.rec.cfPos && (c.rec.khPos || c.rec.khZero))) ++stats["layers.default.r0"];
                        // the Peaceman relation on the stored values of this layer
                        const long double CF = cn->CF(), Kh = cn->Kh(), r0 = cn->r0(), rw = cn->rw(), S = cn->skinFactor();
                        if (r0 > rw && std::isfinite((double) CF) && std::isfinite((double) r0)) {
                            const long double lg = logl(r0 / rw), lhs = CF * (lg + S), rhs = TWO_PI * Kh;
                            const long double scale = fabsl(CF) * (fabsl(lg) + fabsl(S)) + fabsl(rhs);
                            if (fabsl(lhs - rhs) > 1e-12L * scale + 8 * 2.220446049250313e-16L * fabsl(CF))
                                log.fail("layers.identity", where + lay + "lhs=" + num((double) lhs) + " rhs=" + num((double) rhs));
                            log.ok(); ++stats["layers.identity.checked"];
                        }
                    }
                    if (r0hi > 1.01L * r0lo) ++stats["layers.records_with_r0_varying_by_layer"];
                    // one record K1..K2 == the layers entered one record each, in order: same connections, bit for bit
                    const auto a = snapshot(A), b = snapshot(B);
                    bool same = a.size() == b.size();
                    std::string diff = same ? "" : "number of connections " + std::to_string(a.size()) + " vs " + std::to_string(b.size());
                    for (size_t p = 0; same && p < a.size(); ++p) {
                        const Snap &x = a[p], &y = b[p];
                        auto fld = [&](const char* name, bool eq) { if (!eq && same) { same = false; diff = "pos=" + std::to_string(p) + " cell=" + snapKey(x) + " field=" + name; } };
                        fld("cell", x.i == y.i && x.j == y.j && x.k == y.k); fld("complnum", x.complnum == y.complnum); fld("sort", x.sort == y.sort);
                        fld("state", x.state == y.state); fld("dir", x.dir == y.dir); fld("kind", x.fromDeck == y.fromDeck);
                        if (same && !Snap::eq(x.CF, y.CF)) { same = false; diff = "pos=" + std::to_string(p) + " cell=" + snapKey(x) + " CF " + num(x.CF) + " (K1..K2) vs " + num(y.CF) + " (per layer)"; }
                        if (same && !Snap::eq(x.r0, y.r0)) { same = false; diff = "pos=" + std::to_string(p) + " cell=" + snapKey(x) + " r0 " + num(x.r0) + " (K1..K2) vs " + num(y.r0) + " (per layer)"; }
                        if (same && !Snap::eq(x.Kh, y.Kh)) { same = false; diff = "pos=" + std::to_string(p) + " cell=" + snapKey(x) + " Kh " + num(x.Kh) + " (K1..K2) vs " + num(y.Kh) + " (per layer)"; }
                        fld("rw", Snap::eq(x.rw, y.rw)); fld("skin", Snap::eq(x.skin, y.skin)); fld("wpimult", Snap::eq(x.wpimult, y.wpimult));
                        fld("depth", Snap::eq(x.depth, y.depth)); fld("Ke", Snap::eq(x.Ke, y.Ke)); fld("connLen", Snap::eq(x.connLen, y.connLen));
                    }
                    if (!same) log.fail("layers.split", where + " " + diff);
                    log.ok(); ++stats["layers.split.checked"];
                }
                if (log.failed != failedBefore) vh::spit(outdir + "/" + file, d.text);   // the concrete input
            }
            stats["layers.max_rel_deviation_in_1e-16"] = maxRelE16;
            stats["layers.max_deviation_percent_of_tolerance"] = maxOverTolPct;
        }
        std::ofstream st(outdir + "/prop_stats.json");
        st << "{\n  \"checked\": " << log.checked << ",\n  \"failed\": " << log.failed;
        for (auto& kv : stats) st << ",\n  \"" << kv.first << "\": " << kv.second;
        st << "\n}\n";
        return 0;
    }
    std::cerr << "unknown mode\n";
    return 2;
}
