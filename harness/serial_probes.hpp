// C11 harness, property mode: probes for the two members on `knownUnserialized` (Props/C11.lean) that
// have a reproduction through the public API (design.d/C11.slave-mode.repro.cpp, C11.netpress.repro.cpp):
//   ScheduleStatic::slave_mode               Schedule built in reservoir-coupling slave mode, GRUPSLAV at a later
//                                            report step; applyAction() re-applies the later keywords and throws on
//                                            the pack/unpack copy ("GRUPSLAV is only allowed in slave mode")
//   EclipseState::m_restart_network_pressures  loadRestartNetworkPressures(RstNetwork) from a restart step, then
//                                            getRestartNetworkPressures() on the copy
// While a member is still listed as knownUnserialized the probe only COUNTS the loss (stats
// `candidate.<member>.lost`, documented defect of the unchanged tree); lib/props/C11.py arms it (FAIL lines) as
// soon as the entry leaves that list — `exceptions_tight` forces the removal when the member gets serialized.
#pragma once
#include "common/vh.hpp"
#include "serial_objects.hpp"

#include <opm/io/eclipse/EclOutput.hpp>
#include <opm/io/eclipse/ERst.hpp>
#include <opm/io/eclipse/RestartFileView.hpp>
#include <opm/io/eclipse/rst/network.hpp>
#include <opm/input/eclipse/Schedule/ResCoup/ReservoirCouplingInfo.hpp>
#include <opm/input/eclipse/Schedule/ResCoup/GrupSlav.hpp>
#include <opm/input/eclipse/Schedule/Action/ActionResult.hpp>
#include <opm/input/eclipse/Schedule/Action/SimulatorUpdate.hpp>

#include <cstdio>
#include <cstdlib>

namespace sp {

inline bool armed(const char* var) { const char* v = std::getenv(var); return v && std::string(v) == "1"; }

inline std::string applyOutcome(Opm::Schedule& s, const std::string& action, std::size_t nsteps) {
    try {
        const auto& act = s[0].actions.get()[action];
        s.applyAction(0, act, Opm::Action::Result{true}.matches(), std::unordered_map<std::string, double>{});
        std::string r = "ok";
        for (std::size_t i = 0; i < nsteps; ++i) {
            std::vector<std::string> names;
            for (const auto& kv : s[i].rescoup().grupSlavs()) names.push_back(kv.first + ">" + kv.second.masterGroupName());
            std::sort(names.begin(), names.end());
            r += " step" + std::to_string(i) + "=";
            for (const auto& n : names) r += n + ",";
        }
        return r;
    } catch (const std::exception&) { return "err"; }
}

inline void probeSlaveMode(vh::Rng& r, vh::PropLog& plog, std::map<std::string, long>& stats, int reps) {
    const bool arm = armed("C11_ARM_SLAVE_MODE");
    for (int rep = 0; rep < reps; ++rep) {
        const int ng = r.range(1, 4);
        const int slavStep = r.range(1, 3);          // GRUPSLAV comes at this report step (> 0)
        const int nsteps = slavStep + r.range(1, 2);
        std::string d = "START\n 1 JAN 2020 /\nSCHEDULE\nGRUPTREE\n 'PLAT' 'FIELD' /\n";
        for (int g = 1; g <= ng; ++g) d += " 'MANI" + std::to_string(g) + "' 'PLAT' /\n";
        d += "/\nWELSPECS\n 'P1' 'MANI1' 1 1 1* OIL /\n/\nACTIONX\n 'ACT' 1 /\n WOPR 'P1' > 1 /\n/\nWELOPEN\n 'P1' SHUT /\n/\nENDACTIO\n";
        static const char* flags[] = { "MAST", "SLAV", "BOTH" };
        for (int step = 1; step <= nsteps; ++step) {
            d += "TSTEP\n " + std::to_string(r.range(1, 30)) + " /\n";
            if (step == slavStep) {
                d += "GRUPSLAV\n";
                for (int g = 1; g <= ng; ++g)
                    if (g == 1 || r.coin())
                        d += " 'MANI" + std::to_string(g) + "' " + (r.coin() ? "'M" + std::to_string(g) + "'" : std::string("1*")) + " " + flags[r.below(3)] + " " + flags[r.below(3)] + " /\n";
                d += "/\n";
            }
        }
        try {
            Opm::Parser parser;
            auto python = std::make_shared<Opm::Python>();
            const Opm::Deck deck = parser.parseString(d);
            Opm::EclipseGrid grid(10, 10, 10);
            Opm::TableManager table(deck);
            Opm::FieldPropsManager fp(deck, Opm::Phases{true, true, true}, grid, table);
            Opm::Runspec runspec(deck);
            Opm::Schedule orig(deck, grid, fp, runspec, python, false, /*slave_mode=*/true);
            sc::Packer packer; sc::Ser ser(packer);
            ser.pack(orig);
            const std::size_t size = ser.buffer().size();
            Opm::Schedule copy(python);
            ser.unpack(copy);
            const std::string key = "schedule.slave_mode";
            if (ser.position() != size) { plog.fail(key, "UNPACK consumed " + std::to_string(ser.position()) + " of " + std::to_string(size)); continue; }
            if (!(orig == copy)) { plog.fail("schedule.eq", "slave-mode Schedule != copy"); continue; }
            const std::string a = applyOutcome(orig, "ACT", orig.size());
            const std::string b = applyOutcome(copy, "ACT", copy.size());
            stats["probe.slave_mode"]++;
            if (a != b) {
                stats["candidate.slave_mode.lost"]++;
                if (arm) plog.fail(key, "applyAction(0, ACT) original: " + a + " copy: " + b + " (ScheduleStatic::slave_mode not transferred)");
                else plog.ok();
            } else plog.ok();
        } catch (const std::exception&) { stats["probe.slave_mode.deck_rejected"]++; }
    }
}

inline std::string showPressures(const Opm::EclipseState& es) {
    const auto& p = es.getRestartNetworkPressures();
    if (!p) return "nullopt";
    std::string s = "{";
    for (const auto& kv : *p) s += kv.first + ":" + vh::hexF64(kv.second) + ",";
    return s + "}";
}

inline void probeRestartNetworkPressures(vh::Rng& r, vh::PropLog& plog, std::map<std::string, long>& stats, int reps, const std::string& outdir) {
    const bool arm = armed("C11_ARM_NETPRESS");
    for (int rep = 0; rep < reps; ++rep) {
        const std::string text = so::genDeck(r, stats);
        const std::string rstFile = outdir + "/C11_NETPRESS.UNRST";
        try {
            const int nn = r.range(2, 5);
            {
                Opm::EclIO::EclOutput out(rstFile, false);
                std::vector<int> intehead(411, 0);
                intehead[129] = nn; intehead[130] = nn - 1; intehead[133] = 14; intehead[135] = 10; intehead[136] = 17; intehead[137] = 2;
                std::vector<int> ibran(14 * (nn - 1), 0), inode(10 * nn, 0);
                std::vector<double> rnode(17 * nn, 0.0);
                std::vector<std::string> znode;
                for (int i = 0; i < nn; ++i) {
                    znode.push_back("N" + std::to_string(i + 1)); znode.push_back("");
                    rnode[17 * i] = r.unit() * 300.0;
                    if (i == 0) { inode[3] = 1; rnode[2] = rnode[0]; }
                    if (i > 0) { ibran[14 * (i - 1)] = i + 1; ibran[14 * (i - 1) + 1] = static_cast<int>(r.below(i)) + 1; ibran[14 * (i - 1) + 2] = 9999; }
                }
                out.write("SEQNUM", std::vector<int>{ 1 });
                out.write("INTEHEAD", intehead);
                out.write("LOGIHEAD", std::vector<bool>(121, false));
                out.write("DOUBHEAD", std::vector<double>(229, 0.0));
                out.write("IBRAN", ibran); out.write("INODE", inode); out.write("RNODE", rnode); out.write("ZNODE", znode);
            }
            auto rst = std::make_shared<Opm::EclIO::ERst>(rstFile);
            auto view = std::make_shared<Opm::EclIO::RestartFileView>(rst, 1);
            const Opm::RestartIO::RstNetwork net(view, Opm::UnitSystem::newMETRIC());
            Opm::Parser parser;
            const Opm::Deck deck = parser.parseString(text);
            Opm::EclipseState orig(deck);
            orig.loadRestartNetworkPressures(net);
            sc::Packer packer; sc::Ser ser(packer);
            ser.pack(orig);
            const std::size_t size = ser.buffer().size();
            Opm::EclipseState copy;
            ser.unpack(copy);
            const std::string key = "eclipsestate.query.restart_network_pressures";
            if (ser.position() != size) { plog.fail(key, "UNPACK consumed " + std::to_string(ser.position()) + " of " + std::to_string(size)); continue; }
            const std::string a = showPressures(orig), b = showPressures(copy);
            stats["probe.netpress"]++;
            if (a != b) {
                stats["candidate.restart_network_pressures.lost"]++;
                if (arm) plog.fail(key, "getRestartNetworkPressures() original: " + a + " copy: " + b);
                else plog.ok();
            } else plog.ok();
        } catch (const std::exception&) { stats["probe.netpress.rejected"]++; }
        std::remove(rstFile.c_str());
    }
}

} // namespace sp
