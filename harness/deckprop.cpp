// Property-mode harness for C01 (deck content invariant under lexical
// re-layout) and C19 (deck print -> parse round trip) on the REAL parser only.
//
//   deckprop prop01 <seed> <tier> <outdir>
//   deckprop prop19 <seed> <tier> <outdir>
//   deckprop canon <file>      debugging aid: canonical dump of parseString(file)
//   deckprop print <file>      debugging aid: operator<<(Deck) of parseString(file)
//
// Writes <outdir>/prop.txt (FAIL <key> <detail>) and <outdir>/prop_stats.json.
#include "common/vh.hpp"

#include <opm/input/eclipse/Parser/Parser.hpp>
#include <opm/input/eclipse/Parser/ParseContext.hpp>
#include <opm/input/eclipse/Parser/ErrorGuard.hpp>
#include <opm/input/eclipse/Parser/ParserKeyword.hpp>
#include <opm/input/eclipse/Parser/ParserRecord.hpp>
#include <opm/input/eclipse/Parser/ParserItem.hpp>
#include <opm/input/eclipse/Parser/ParserEnums.hpp>
#include <opm/input/eclipse/Deck/Deck.hpp>
#include <opm/input/eclipse/Deck/DeckKeyword.hpp>
#include <opm/input/eclipse/Deck/DeckRecord.hpp>
#include <opm/input/eclipse/Deck/DeckItem.hpp>
#include <opm/input/eclipse/Deck/UDAValue.hpp>
#include <opm/input/eclipse/Utility/Typetools.hpp>
#include <opm/json/JsonObject.hpp>

#include <sys/resource.h>
#include <sys/wait.h>
#include <unistd.h>

#include <algorithm>
#include <cctype>
#include <chrono>
#include <cmath>
#include <cstdlib>
#include <filesystem>
#include <functional>
#include <iostream>
#include <memory>
#include <optional>
#include <set>
#include <sstream>

namespace fs = std::filesystem;
using namespace Opm;

namespace {

const Parser* gParser = nullptr;
const Parser& P() { return *gParser; }

double nowSec() {
    return std::chrono::duration<double>(std::chrono::steady_clock::now().time_since_epoch()).count();
}

// ---------------------------------------------------------------------------
// lexical facts of the real lexer (RawConsts::is_separator: SOH \t \n \v \f \r
// space comma, on the low 7 bits)
// ---------------------------------------------------------------------------
inline bool isSep(char c) {
    switch (c & 0x7f) { case 1: case 9: case 10: case 11: case 12: case 13: case 32: case 44: return true; default: return false; }
}
std::string upper(std::string s) { for (auto& c : s) c = (char) std::toupper((unsigned char) c); return s; }
std::string lower(std::string s) { for (auto& c : s) c = (char) std::tolower((unsigned char) c); return s; }

// uppercased token up to its first separator is a valid deck name
bool keywordLike(const std::string& tok) {
    size_t e = 0; while (e < tok.size() && !isSep(tok[e])) ++e;
    if (e == 0) return false;
    std::string u = upper(tok.substr(0, e));
    if ((unsigned char) u[0] >= 128) return false;
    return ParserKeyword::validDeckName(u);
}
// a line may be broken before this token
bool breakableBefore(const std::string& tok) {
    if (tok.empty()) return false;
    char c = tok[0];
    bool okStart = std::isdigit((unsigned char) c) || c == '+' || c == '-' || c == '.' || c == '\'' || c == '*';
    if (!okStart) return false;
    if (tok.size() >= 2 && tok[0] == '-' && tok[1] == '-') return false;
    return !keywordLike(tok);
}
// token of the form <digits>*<rest>
bool starSplit(const std::string& t, long& count, std::string& val) {
    size_t p = 0; while (p < t.size() && std::isdigit((unsigned char) t[p])) ++p;
    if (p == 0 || p >= t.size() || t[p] != '*' || p > 7) return false;
    count = std::strtol(t.substr(0, p).c_str(), nullptr, 10);
    val = t.substr(p + 1);
    return true;
}
bool hasQuoteChar(const std::string& s) { return s.find('\'') != std::string::npos || s.find('"') != std::string::npos; }

// ---------------------------------------------------------------------------
// Canonical deck content
// ---------------------------------------------------------------------------
struct ItemC {
    std::string name; int type = 0;
    std::vector<unsigned char> st;        // value::status per value
    std::vector<int> iv;
    std::vector<std::string> sv;          // string / raw string / uda string
    std::vector<double> dv;               // raw deck doubles / uda numeric
    std::vector<unsigned char> num;       // uda: 1 = numeric
    std::vector<double> si;               // SI data
    std::vector<unsigned char> siE;       // uda: SI access threw
    bool rawErr = false, siErr = false;
};
struct RecC { std::vector<ItemC> items; };
struct KwC { std::string name; std::vector<RecC> recs; };
struct DeckC { std::vector<KwC> kws; };

void canonItem(const DeckItem& src, ItemC& c) {
    DeckItem it = src;      // SI access converts in place: work on a copy
    c.name = it.name(); c.type = (int) it.getType();
    try { for (auto s : it.getValueStatus()) c.st.push_back((unsigned char) s); } catch (...) { c.rawErr = true; return; }
    try {
        switch (it.getType()) {
        case type_tag::integer: c.iv = it.getData<int>(); break;
        case type_tag::string: c.sv = it.getData<std::string>(); break;
        case type_tag::raw_string: { const auto& v = it.getData<RawString>(); c.sv.assign(v.begin(), v.end()); } break;
        case type_tag::fdouble: c.dv = it.getData<double>(); break;
        case type_tag::uda: {
            const auto& v = it.getData<UDAValue>();
            for (const auto& u : v) {
                if (u.is<double>()) { c.num.push_back(1); c.dv.push_back(u.get<double>()); c.sv.emplace_back(); }
                else { c.num.push_back(0); c.dv.push_back(0.0); c.sv.push_back(u.is<std::string>() ? u.get<std::string>() : std::string()); }
            }
        } break;
        default: c.rawErr = true;
        }
    } catch (...) { c.rawErr = true; }
    if (it.getType() == type_tag::fdouble) {
        try { c.si = it.getSIDoubleData(); } catch (...) { c.siErr = true; }
    } else if (it.getType() == type_tag::uda) {
        for (size_t i = 0; i < c.st.size(); ++i) {
            double v = 0; unsigned char e = 0;
            try { auto u = it.get<UDAValue>(i); if (u.is<double>()) v = u.getSI(); } catch (...) { e = 1; }
            c.si.push_back(v); c.siE.push_back(e);
        }
    }
}

DeckC canonDeck(const Deck& d) {
    DeckC out;
    out.kws.reserve(d.size());
    for (const auto& kw : d) {
        KwC k; k.name = kw.name();
        for (const auto& rec : kw) {
            RecC r;
            for (const auto& it : rec) { r.items.emplace_back(); canonItem(it, r.items.back()); }
            k.recs.push_back(std::move(r));
        }
        out.kws.push_back(std::move(k));
    }
    return out;
}

bool hasValue(unsigned char s) { return s == 1 || s == 3; }
bool defaulted(unsigned char s) { return s == 2 || s == 3; }

// equal to the printed precision (10 significant digits)
bool approxEq(double a, double b) {
    if (std::memcmp(&a, &b, 8) == 0) return true;
    if (std::isnan(a) || std::isnan(b)) return std::isnan(a) && std::isnan(b);
    if (a == b) return true;
    if (std::isinf(a) || std::isinf(b)) return false;
    char ba[64], bb[64];
    std::snprintf(ba, sizeof ba, "%.10g", a); std::snprintf(bb, sizeof bb, "%.10g", b);
    if (std::strcmp(ba, bb) == 0) return true;
    return std::fabs(a - b) <= 1e-9 * std::max(std::fabs(a), std::fabs(b));
}

struct Diff {
    bool differ = false;
    std::string what, where;
    size_t kwIndex = 0; std::string kwName;
};

Diff diffDeck(const DeckC& a, const DeckC& b, bool approx) {
    Diff d;
    auto set = [&](const std::string& what, size_t ki, const std::string& kn, const std::string& where) {
        d.differ = true; d.what = what; d.kwIndex = ki; d.kwName = kn; d.where = where;
    };
    size_t nk = std::min(a.kws.size(), b.kws.size());
    for (size_t k = 0; k < nk; ++k)
        if (a.kws[k].name != b.kws[k].name) { set("kwseq", k, a.kws[k].name, "kw#" + std::to_string(k) + " a=" + a.kws[k].name + " b=" + b.kws[k].name); return d; }
    if (a.kws.size() != b.kws.size()) {
        std::string nm = nk < a.kws.size() ? a.kws[nk].name : b.kws[nk].name;
        set("kwseq", nk, nm, "kwcount a=" + std::to_string(a.kws.size()) + " b=" + std::to_string(b.kws.size()) + " first_extra=" + nm);
        return d;
    }
    for (size_t k = 0; k < nk; ++k) {
        const auto& ka = a.kws[k]; const auto& kb = b.kws[k];
        std::string pk = "kw#" + std::to_string(k) + ":" + ka.name;
        if (ka.recs.size() != kb.recs.size()) { set("nrecords", k, ka.name, pk + " a=" + std::to_string(ka.recs.size()) + " b=" + std::to_string(kb.recs.size())); return d; }
        for (size_t r = 0; r < ka.recs.size(); ++r) {
            const auto& ra = ka.recs[r]; const auto& rb = kb.recs[r];
            std::string pr = pk + " rec#" + std::to_string(r);
            if (ra.items.size() != rb.items.size()) { set("nitems", k, ka.name, pr + " a=" + std::to_string(ra.items.size()) + " b=" + std::to_string(rb.items.size())); return d; }
            for (size_t i = 0; i < ra.items.size(); ++i) {
                const auto& ia = ra.items[i]; const auto& ib = rb.items[i];
                std::string pi = pr + " item#" + std::to_string(i) + ":" + ia.name;
                if (ia.name != ib.name) { set("itemname", k, ka.name, pi + " b=" + ib.name); return d; }
                if (ia.type != ib.type) { set("itemtype", k, ka.name, pi + " a=" + std::to_string(ia.type) + " b=" + std::to_string(ib.type)); return d; }
                if (ia.rawErr != ib.rawErr) { set("item_err", k, ka.name, pi); return d; }
                if (ia.st.size() != ib.st.size()) { set("datasize", k, ka.name, pi + " a=" + std::to_string(ia.st.size()) + " b=" + std::to_string(ib.st.size())); return d; }
                if (ia.iv.size() != ib.iv.size() || ia.sv.size() != ib.sv.size() || ia.dv.size() != ib.dv.size()) { set("datasize", k, ka.name, pi + " (storage)"); return d; }
                for (size_t v = 0; v < ia.st.size(); ++v) {
                    std::string pv = pi + " val#" + std::to_string(v);
                    if (defaulted(ia.st[v]) != defaulted(ib.st[v])) { set("defaulted", k, ka.name, pv + " a=" + std::to_string(ia.st[v]) + " b=" + std::to_string(ib.st[v])); return d; }
                    if (ia.st[v] != ib.st[v]) { set("status", k, ka.name, pv + " a=" + std::to_string(ia.st[v]) + " b=" + std::to_string(ib.st[v])); return d; }
                    if (!hasValue(ia.st[v])) continue;
                    switch ((type_tag) ia.type) {
                    case type_tag::integer:
                        if (v < ia.iv.size() && ia.iv[v] != ib.iv[v]) { set("int", k, ka.name, pv + " a=" + std::to_string(ia.iv[v]) + " b=" + std::to_string(ib.iv[v])); return d; }
                        break;
                    case type_tag::string: case type_tag::raw_string:
                        if (v < ia.sv.size() && ia.sv[v] != ib.sv[v]) { set(ia.type == (int) type_tag::string ? "string" : "rawstring", k, ka.name, pv + " a=" + vh::hex(ia.sv[v]) + " b=" + vh::hex(ib.sv[v])); return d; }
                        break;
                    case type_tag::fdouble:
                        if (v < ia.dv.size()) {
                            bool eq = approx ? approxEq(ia.dv[v], ib.dv[v]) : std::memcmp(&ia.dv[v], &ib.dv[v], 8) == 0;
                            if (!eq) { set(approx && std::isinf(ib.dv[v]) && !std::isinf(ia.dv[v]) ? "double_overflow" : "double", k, ka.name, pv + " a=" + vh::hexF64(ia.dv[v]) + " b=" + vh::hexF64(ib.dv[v])); return d; }
                        }
                        break;
                    case type_tag::uda:
                        if (v < ia.num.size()) {
                            if (ia.num[v] != ib.num[v]) { set("uda", k, ka.name, pv + " numeric a=" + std::to_string(ia.num[v]) + " b=" + std::to_string(ib.num[v])); return d; }
                            if (ia.num[v]) {
                                bool eq = approx ? approxEq(ia.dv[v], ib.dv[v]) : std::memcmp(&ia.dv[v], &ib.dv[v], 8) == 0;
                                if (!eq) { set(approx && std::isinf(ib.dv[v]) && !std::isinf(ia.dv[v]) ? "double_overflow" : "uda", k, ka.name, pv + " a=" + vh::hexF64(ia.dv[v]) + " b=" + vh::hexF64(ib.dv[v])); return d; }
                            } else if (ia.sv[v] != ib.sv[v]) { set("uda", k, ka.name, pv + " a=" + vh::hex(ia.sv[v]) + " b=" + vh::hex(ib.sv[v])); return d; }
                        }
                        break;
                    default: break;
                    }
                }
                if (ia.siErr != ib.siErr) { set("si_err", k, ka.name, pi); return d; }
                if (ia.si.size() != ib.si.size()) { set("si", k, ka.name, pi + " (size)"); return d; }
                for (size_t v = 0; v < ia.si.size() && v < ia.st.size(); ++v) {
                    if (!hasValue(ia.st[v])) continue;
                    if (!ia.siE.empty() && ia.siE[v] != ib.siE[v]) { set("si_err", k, ka.name, pi + " val#" + std::to_string(v)); return d; }
                    bool eq;
                    if (approx) eq = approxEq(ia.si[v], ib.si[v]) || std::fabs(ia.si[v] - ib.si[v]) <= 1e-8 * std::max(std::fabs(ia.si[v]), std::fabs(ib.si[v]));
                    else eq = std::memcmp(&ia.si[v], &ib.si[v], 8) == 0;
                    if (!eq) { set("si", k, ka.name, pi + " val#" + std::to_string(v) + " a=" + vh::hexF64(ia.si[v]) + " b=" + vh::hexF64(ib.si[v])); return d; }
                }
            }
        }
    }
    return d;
}

std::string dumpDeckC(const DeckC& c) {
    std::ostringstream o;
    for (size_t k = 0; k < c.kws.size(); ++k) {
        o << "kw#" << k << " " << c.kws[k].name << " nrec=" << c.kws[k].recs.size() << "\n";
        for (size_t r = 0; r < c.kws[k].recs.size(); ++r) {
            o << "  rec#" << r << "\n";
            for (const auto& it : c.kws[k].recs[r].items) {
                o << "    " << it.name << " type=" << it.type << " n=" << it.st.size() << (it.rawErr ? " rawErr" : "") << (it.siErr ? " siErr" : "") << " :";
                for (size_t v = 0; v < it.st.size() && v < 40; ++v) {
                    o << " [" << (int) it.st[v] << "]";
                    if (!hasValue(it.st[v])) continue;
                    if (v < it.iv.size()) o << it.iv[v];
                    else if ((type_tag) it.type == type_tag::uda) { if (it.num[v]) o << it.dv[v]; else o << "'" << it.sv[v] << "'"; }
                    else if (v < it.sv.size()) o << "'" << it.sv[v] << "'";
                    else if (v < it.dv.size()) { o << it.dv[v]; if (v < it.si.size()) o << "(si " << it.si[v] << ")"; }
                }
                o << "\n";
            }
        }
    }
    return o.str();
}

// ---------------------------------------------------------------------------
// Running the real parser / printer
// ---------------------------------------------------------------------------
struct Outcome {
    bool ok = false;          // no exception
    bool guard = false;       // ErrorGuard had pending errors
    std::unique_ptr<Deck> deck;
};

Outcome parseText(const std::string& text) {
    Outcome o;
    ParseContext ctx; ErrorGuard eg;
    try { o.deck = std::make_unique<Deck>(P().parseString(text, ctx, eg)); o.ok = true; }
    catch (const std::exception&) { o.ok = false; }
    catch (...) { o.ok = false; }
    o.guard = static_cast<bool>(eg);
    eg.clear();
    return o;
}
Outcome parsePath(const std::string& path) {
    Outcome o;
    ParseContext ctx; ErrorGuard eg;
    try { o.deck = std::make_unique<Deck>(P().parseFile(path, ctx, eg)); o.ok = true; }
    catch (const std::exception&) { o.ok = false; }
    catch (...) { o.ok = false; }
    o.guard = static_cast<bool>(eg);
    eg.clear();
    return o;
}
bool printDeck(const Deck& d, std::string& out) {
    try { std::ostringstream os; os << d; out = os.str(); return true; }
    catch (const std::exception&) { return false; }
    catch (...) { return false; }
}

std::string hexTrunc(const std::string& s, size_t maxBytes = 1500) {
    if (s.size() <= maxBytes) return vh::hex(s);
    return vh::hex(s.substr(0, maxBytes)) + "...(" + std::to_string(s.size()) + "bytes)";
}

struct Reporter {
    vh::PropLog log;
    std::map<std::string, long> perKey, stats;
    explicit Reporter(const std::string& p) : log(p) {}
    void ok() { log.ok(); }
    void fail(const std::string& key, const std::string& detail) {
        log.ok();
        stats["fail." + key]++;
        if (perKey[key]++ < 6) log.fail(key, detail.size() > 12000 ? detail.substr(0, 12000) + "...(truncated)" : detail);
        else { ++log.failed; stats["fail_lines_suppressed"]++; }
    }
    void count(const std::string& k, long n = 1) { stats[k] += n; }
    void write(const std::string& path) {
        std::ofstream st(path);
        st << "{\n  \"checked\": " << log.checked << ",\n  \"failed\": " << log.failed;
        for (auto& kv : stats) st << ",\n  \"" << kv.first << "\": " << kv.second;
        st << "\n}\n";
    }
};

std::string classOf(const ParserKeyword& pk, const std::string& deckName) {
    if (deckName == "TITLE") return "TITLE";
    if (pk.isCodeKeyword()) return "CODE";
    if (pk.rawStringKeyword()) return "RAWSTRING";
    if (pk.isDataKeyword()) return "DATAARRAY";
    switch (pk.getSizeType()) {
    case UNKNOWN: return "UNKNOWNSIZE";
    case DOUBLE_SLASH_TERMINATED: return "DOUBLESLASH";
    case OTHER_KEYWORD_IN_DECK:
        if (pk.isTableCollection()) return "TABLECOLL";
        if (pk.isAlternatingKeyword()) return "ALTERNATING";
        return "SIZEDBY";
    case SPECIAL_CASE_ROCK: return "ROCK";
    case SLASH_TERMINATED: return "SLASHLIST";
    default: break;
    }
    size_t n = 0;
    try { n = pk.getFixedSize(); } catch (...) { return "FIXEDN"; }
    if (n == 0) return "NODATA";
    if (pk.min_size() && *pk.min_size() < n) return "MINSIZE";
    if (n == 1) return "FIXED1";
    return "FIXEDN";
}
std::string classOfName(const std::string& deckName) {
    try { return classOf(P().getParserKeywordFromDeckName(deckName), deckName); } catch (...) { return "UNKNOWNKW"; }
}

// ---------------------------------------------------------------------------
// Token level structure of a deck text
// ---------------------------------------------------------------------------
struct Tok {
    std::string sep;     // separator text before the token on its line
    std::string text;
    char kind = 'V';     // 'V' value, 'R' record slash, 'K' lone (keyword / table) slash
};
struct Line {
    char kind = 'x';     // 'k' keyword line, 'd' data tokens, 't' title text tokens, 'c' comment, 'b' blank, 'x' verbatim
    std::string lead;    // k,d,t: leading white space
    std::string name;    // k: keyword as written; c,b,x: verbatim text
    std::string rest;    // k: verbatim remainder of the keyword line
    std::vector<Tok> toks;
    std::string tail;    // d,t,k: after the last token (white space, text after slash, comment)
    std::string eol = "\n";
    int rec = -1;                         // d: ordinal of the record inside the block
    const ParserRecord* prec = nullptr;   // d: schema of that record when known
    bool frozen = false;                  // no token level edits
    bool glue = false;                    // nothing may be inserted before this line
};
struct Block {
    std::string name;                     // deck keyword (upper case); "" for opaque regions
    const ParserKeyword* pk = nullptr;
    bool raw = false, title = false, code = false, opaque = false;
    bool canComplete = false;             // continuation lines are checked against keyword names
    std::string cls;
    std::vector<Line> lines;
    std::vector<Block> children;          // include block: content of the included file
    bool isInclude = false;
    bool ordinary() const { return pk && !raw && !title && !code && !opaque; }
};

const char* kIncPlaceholder = "'@INC@'";

struct RenderCtx {
    std::string dir;     // directory for include files ("<TMP>" for path free rendering)
    std::string prefix;
    bool write = false;
    int counter = 0;
    std::vector<std::pair<std::string, std::string>> files;   // name -> content
};

void renderBlocks(const std::vector<Block>& bs, std::string& out, RenderCtx& rc);

void renderLine(const Line& l, std::string& out, const std::string& incPath) {
    switch (l.kind) {
    case 'k': out += l.lead; out += l.name; out += l.rest; out += l.tail; break;
    case 'd': case 't':
        out += l.lead;
        for (const auto& t : l.toks) { out += t.sep; if (!incPath.empty() && t.text == kIncPlaceholder) out += "'" + incPath + "'"; else out += t.text; }
        out += l.tail; break;
    default: out += l.name; break;
    }
    out += l.eol;
}
void renderBlocks(const std::vector<Block>& bs, std::string& out, RenderCtx& rc) {
    for (const auto& b : bs) {
        std::string incPath;
        if (b.isInclude) {
            std::string nm = rc.prefix + std::to_string(rc.counter++) + ".inc";
            incPath = rc.dir + "/" + nm;
            std::string sub;
            renderBlocks(b.children, sub, rc);
            if (rc.write) vh::spit(incPath, sub);
            rc.files.emplace_back(nm, sub);
        }
        for (const auto& l : b.lines) renderLine(l, out, incPath);
    }
}

// ---------------------------------------------------------------------------
// Generator: decks drawn from the REAL keyword schema
// ---------------------------------------------------------------------------
struct Gen {
    vh::Rng& rng;
    Reporter& rep;
    std::map<std::string, int> dims;                    // "KW.ITEM" -> value put into the deck
    std::set<std::string> present;                      // keywords emitted so far
    bool spillAll = false;                              // a pending run of defaults may run over into an item of size ALL
    const std::map<std::string, std::set<std::string>>& sizing;   // keyword -> items that size other keywords
    static const std::map<std::string, std::set<std::string>>& sizingTable() {
        static std::map<std::string, std::set<std::string>> t;
        if (t.empty()) {
            for (const auto& n : P().getAllDeckNames()) {
                try {
                    const auto& k = P().getKeyword(n);
                    if (k.getSizeType() == OTHER_KEYWORD_IN_DECK) t[k.getKeywordSize().keyword()].insert(k.getKeywordSize().item());
                } catch (...) {}
            }
            t["TABDIMS"].insert("NTPVT");
        }
        return t;
    }
    Gen(vh::Rng& r, Reporter& rp) : rng(r), rep(rp), sizing(sizingTable()) {}

    std::string genInt() {
        switch (rng.below(12)) {
        case 0: return "0";
        case 1: return "-" + std::to_string(rng.range(1, 99));
        case 2: return rng.pick(std::vector<std::string>{ "2147483647", "-2147483648", "1000000", "+5", "007", "-0" });
        default: return std::to_string(rng.range(1, 40));
        }
    }
    std::string genDouble() {
        static const std::vector<std::string> fixed = { "1", "1.0", ".5", "1e3", "1.5E-3", "1.0D+2", "-0.0", "1e300", "5.", "+3.5", "1d-5", "0", "123456789.123456789",
            "1e-300", "0.1", "-2.5e+10", "3.14159265358979", "1E0", "2.5D0", "-.25", "1e-5", "0.30000000000000004", "1.5e308", "100", "-7" };
        static const std::vector<std::string> rare = { "4.9e-324", "1.7976931348623157e308", "2.2250738585072014e-308", "-1.7976931348623157E+308", "1e-320" };
        if (rng.coin(1, 500)) return rng.pick(rare);
        if (rng.coin(1, 2)) return rng.pick(fixed);
        std::string s;
        if (rng.coin(1, 5)) s += "-";
        int nd = rng.range(1, 6);
        for (int i = 0; i < nd; ++i) s += (char) ('0' + (i == 0 ? rng.range(1, 9) : rng.range(0, 9)));
        if (rng.coin(2, 3)) { s += "."; int nf = rng.range(0, 8); for (int i = 0; i < nf; ++i) s += (char) ('0' + rng.range(0, 9)); }
        if (rng.coin(1, 4)) { s += rng.pick(std::vector<std::string>{ "e", "E", "d", "D" }); if (rng.coin()) s += rng.coin() ? "-" : "+"; s += std::to_string(rng.range(0, 30)); }
        return s;
    }
    std::string genString(bool mustQuote) {
        static const std::vector<std::string> bare = { "W1", "PROD1", "OPEN", "SHUT", "G1", "FIELD", "ORAT", "X-1", "A_B", "OIL", "WATER", "GAS", "INJ", "NO", "YES", "P*", "W_2", "JAN", "RATE", "opm", "Well7" };
        static const std::vector<std::string> quoted = { "W1", "A B", "P*", "*", "a/b", "x -- y", " lead", "trail ", "", "1*", "3*X", "/", "OIL", "PROD 1 /", "two  blanks", "-- c", "G1", "FIELD", "1.5", "a,b", "\tT" };
        // the other quote character inside a quoted string: find_terminator (comments, terminating slash) pairs a
        // quote with the next EQUAL quote character only.  Odd and even counts of " inside '...'; even counts of '
        // inside a bare "..." word (an odd count is rejected by even_quotes in every layout).
        static const std::vector<std::string> dq = { "P-3.5\"", "MANI-6\" pipe", "\"", "say \"hi\"", "3\" -- 4\"", "a\"/b", "\"\"\" x" };
        static const std::vector<std::string> bareDq = { "\"Q1\"", "\"a--b\"", "\"x/y\"", "\"it''s\"" };
        if (rng.coin(1, 12)) { rep.count("gen.string.other_quote"); if (!mustQuote && rng.coin(1, 4)) return rng.pick(bareDq); return "'" + rng.pick(dq) + "'"; }
        if (!mustQuote && rng.coin(1, 2)) return rng.pick(bare);
        return "'" + rng.pick(quoted) + "'";
    }
    std::string genUda() {
        if (rng.coin(3, 5)) return genDouble();
        static const std::vector<std::string> names = { "WUOPR", "FU_X", "GUX1", "WU_1", "FUOPRX" };
        std::string n = rng.pick(names);
        return rng.coin() ? n : "'" + n + "'";
    }
    std::string genValue(const ParserItem& it, bool mustQuote) {
        switch (it.dataType()) {
        case type_tag::integer: rep.count("gen.item.int"); return genInt();
        case type_tag::fdouble: rep.count("gen.item.double"); return genDouble();
        case type_tag::string: rep.count("gen.item.string"); return genString(mustQuote);
        case type_tag::uda: rep.count("gen.item.uda"); return genUda();
        case type_tag::raw_string: rep.count("gen.item.rawstring"); return rng.pick(std::vector<std::string>{ "WOPR", "'P1'", ">", "0.5", "AND", "*", "(", ")" });
        default: return "1";
        }
    }

    // value tokens of one record conforming to pr
    std::vector<std::string> genRecordTokens(const ParserRecord& pr, const std::string& kw, bool quoteFirst, bool bigData) {
        std::vector<std::string> toks;
        const size_t n = pr.size();
        const auto sz = sizing.find(kw);
        size_t lastForced = 0;
        if (sz != sizing.end())
            for (size_t i = 0; i < n; ++i) if (sz->second.count(pr.get(i).name())) lastForced = i + 1;
        size_t cut = n;
        if (n > 1 && rng.coin(2, 5)) cut = (size_t) rng.range((int) std::max<size_t>(1, lastForced), (int) n);
        if (cut < lastForced) cut = lastForced;
        int pending = 0, prevType = -1;
        auto flush = [&]() { if (pending > 0) { toks.push_back(std::to_string(pending) + "*"); pending = 0; prevType = -1; } };
        for (size_t i = 0; i < cut; ++i) {
            const ParserItem& it = pr.get(i);
            const bool first = toks.empty() && pending == 0;
            if (it.sizeType() == ParserItem::item_size::ALL) {
                int m = bigData ? rng.range(0, 40) : rng.range(0, 9);
                // a run of defaults that begins in the scalar items and runs over into the ALL item as ONE token
                // (scan_item pushes the remainder `1*` x (n-1) back; the ALL item takes what is left of it)
                if (spillAll && pending > 0 && it.dataType() != type_tag::raw_string && rng.coin(1, 2)) {
                    pending += rng.range(1, 4); rep.count("gen.tok.default_run_into_all");
                    if (rng.coin(1, 2)) { m = 0; rep.count("gen.tok.default_run_into_all_ends_record"); }
                }
                flush();
                while (m > 0) {
                    int c = (int) rng.below(20);
                    if (c < 12) {
                        if (!toks.empty() && prevType == (int) it.dataType() && rng.coin(1, 4)) { toks.push_back(toks.back()); rep.count("gen.tok.repeated"); }
                        else toks.push_back(genValue(it, quoteFirst && toks.empty()));
                        prevType = (int) it.dataType(); m -= 1;
                    }
                    else if (c < 17) { int k = rng.range(1, 5); std::string v = genValue(it, false); for (char ch : v) if (isSep(ch)) { v = "'X'"; break; } toks.push_back(std::to_string(k) + "*" + v); m -= k; prevType = -1; rep.count("gen.tok.nstarv"); }
                    else { int k = rng.range(1, 3); toks.push_back(std::to_string(k) + "*"); m -= k; prevType = -1; rep.count("gen.tok.nstar"); }
                }
                continue;
            }
            const bool forced = sz != sizing.end() && sz->second.count(it.name());
            if (forced) {
                flush();
                int dflt = -1;
                if (it.hasDefault()) { try { dflt = it.getDefault<int>(); } catch (...) {} }
                if (dflt >= 1 && dflt <= 3 && rng.coin(1, 3)) { toks.push_back("1*"); dims[kw + "." + it.name()] = dflt; }
                else { int v = rng.range(1, 3); toks.push_back(std::to_string(v)); dims[kw + "." + it.name()] = v; }
                prevType = -1;
                continue;
            }
            if (rng.coin(1, 4)) {
                if (pending > 0 && rng.coin(1, 3)) flush();
                ++pending; rep.count("gen.item.defaulted");
                continue;
            }
            flush();
            if (!toks.empty() && prevType == (int) it.dataType() && rng.coin(1, 6)) { toks.push_back(toks.back()); rep.count("gen.tok.repeated"); }
            else toks.push_back(genValue(it, quoteFirst && first));
            prevType = (int) it.dataType();
        }
        flush();
        // sizing items that were cut off take their default
        if (sz != sizing.end())
            for (size_t i = cut; i < n; ++i) if (sz->second.count(pr.get(i).name())) { try { dims[kw + "." + pr.get(i).name()] = pr.get(i).getDefault<int>(); } catch (...) {} }
        if (cut < n) rep.count("gen.record.ended_early");
        return toks;
    }

    static Line kwLine(const std::string& name) { Line l; l.kind = 'k'; l.name = name; return l; }
    static Line slashLine() { Line l; l.kind = 'd'; l.lead = ""; Tok t; t.text = "/"; t.kind = 'K'; l.toks.push_back(t); return l; }
    Line recordLine(const std::vector<std::string>& toks, int rec, const ParserRecord* prec) {
        Line l; l.kind = 'd'; l.lead = " "; l.rec = rec; l.prec = prec;
        for (size_t i = 0; i < toks.size(); ++i) { Tok t; t.sep = i ? " " : ""; t.text = toks[i]; l.toks.push_back(t); }
        Tok s; s.sep = toks.empty() ? "" : " "; s.text = "/"; s.kind = 'R'; l.toks.push_back(s);
        return l;
    }

    int dimOf(const ParserKeyword& pk) {
        const auto& ks = pk.getKeywordSize();
        auto it = dims.find(ks.keyword() + "." + ks.item());
        int v = 1;
        if (it != dims.end()) v = it->second;
        else { try { v = P().getKeyword(ks.keyword()).getRecord(0).get(ks.item()).getDefault<int>(); } catch (...) { v = 1; } }
        return v + ks.size_shift();
    }

    bool admissible(const ParserKeyword& pk) {
        for (const auto& k : pk.prohibitedKeywords()) if (present.count(k)) return false;
        for (const auto& k : pk.requiredKeywords()) if (!present.count(k)) return false;
        return true;
    }

    // generic keyword from its schema; returns false if it cannot be generated here
    bool genKeyword(const std::string& name, std::vector<Block>& out) {
        if (!P().hasKeyword(name) && !P().isRecognizedKeyword(name)) return false;
        const ParserKeyword* pkp;
        try { pkp = &P().getParserKeywordFromDeckName(name); } catch (...) { return false; }
        const ParserKeyword& pk = *pkp;
        if (!admissible(pk)) return false;
        Block b; b.name = name; b.pk = pkp; b.cls = classOf(pk, name);
        b.raw = pk.rawStringKeyword(); b.code = pk.isCodeKeyword(); b.title = name == "TITLE";
        if (b.title) return genTitle(out);
        if (b.code) return genCode(name, pk, out);
        if (name == "UDQ") return genUdq(pk, out);
        if (name == "ACTIONX") return genActionx(pk, out);
        if (b.raw) return false;
        b.lines.push_back(kwLine(name));
        const size_t nschema = (size_t) std::distance(pk.begin(), pk.end());
        const bool bigData = pk.isDataKeyword();
        int rec = 0;
        auto addRec = [&](size_t schemaIdx) {
            const ParserRecord& pr = pk.getRecord(schemaIdx);
            auto toks = genRecordTokens(pr, name, b.canComplete, bigData);
            if (toks.empty() && !(bigData && rng.coin(1, 2))) toks.push_back(pr.get(0).sizeType() == ParserItem::item_size::ALL && !pr.get(0).hasDefault() && pr.get(0).dataType() == type_tag::string ? "'S'" : "1*");
            b.lines.push_back(recordLine(toks, rec++, &pr));
        };
        const auto st = pk.getSizeType();
        if (st == SLASH_TERMINATED) {
            if (nschema == 0) return false;
            int k = rng.range(0, 4);
            for (int i = 0; i < k; ++i) addRec((size_t) i);
            b.lines.push_back(slashLine());
        } else if (st == UNKNOWN) {
            b.canComplete = true;
            int extra = rng.range(1, 3);
            for (size_t i = 0; i < nschema + (size_t) extra - 1; ++i) addRec(i);
        } else if (st == DOUBLE_SLASH_TERMINATED) {
            int groups = rng.range(0, 2);
            for (int g = 0; g < groups; ++g) {
                int k = rng.range(1, 4);
                for (int i = 0; i < k; ++i) addRec((size_t) i);
                b.lines.push_back(slashLine()); rec++;
            }
            b.lines.push_back(slashLine());
            if (groups == 0) b.lines.push_back(slashLine());
        } else if (st == OTHER_KEYWORD_IN_DECK) {
            if (!present.count(pk.getKeywordSize().keyword())) return false;
            int N = dimOf(pk);
            if (N < 1 || N > 6) return false;
            if (pk.isTableCollection()) {
                for (int t = 0; t < N; ++t) {
                    int k = rng.range(1, 3);
                    for (int i = 0; i < k; ++i) {
                        addRec(0);
                        // a record without an explicit value is what the Deck also holds for the table separator: keep RS explicit
                        Line& rl = b.lines.back();
                        long cc; std::string vv;
                        if (!rl.toks.empty() && rl.toks[0].kind == 'V' && (starSplit(rl.toks[0].text, cc, vv) && vv.empty())) rl.toks[0].text = genDouble();
                    }
                    b.lines.push_back(slashLine()); rec++;
                }
            } else {
                if (pk.isAlternatingKeyword()) N *= (int) nschema;
                for (int i = 0; i < N; ++i) addRec(pk.isAlternatingKeyword() ? (size_t) i % nschema : (size_t) i);
            }
        } else if (st == SPECIAL_CASE_ROCK) {
            if (!present.count("TABDIMS") || present.count("ROCKOPTS")) return false;
            auto it = dims.find("TABDIMS.NTPVT");
            int N = it == dims.end() ? 1 : it->second;
            for (int i = 0; i < N; ++i) addRec((size_t) i);
        } else {   // FIXED
            size_t n = 0;
            try { n = pk.getFixedSize(); } catch (...) { return false; }
            if (n > 6) return false;
            if (pk.min_size() && *pk.min_size() < n) {
                b.canComplete = true;
                size_t m = (size_t) rng.range((int) *pk.min_size(), (int) n);
                for (size_t i = 0; i < m; ++i) addRec(i);
            } else {
                if (n > 0 && nschema == 0) return false;
                for (size_t i = 0; i < n; ++i) addRec(i);
            }
        }
        rep.count("gen.class." + b.cls);
        present.insert(name);
        out.push_back(std::move(b));
        return true;
    }

    bool genTitle(std::vector<Block>& out) {
        Block b; b.name = "TITLE"; b.pk = &P().getParserKeywordFromDeckName("TITLE"); b.title = true; b.cls = "TITLE";
        b.lines.push_back(kwLine("TITLE"));
        Line t; t.kind = 't'; t.glue = true; t.lead = rng.coin() ? "  " : "";
        static const std::vector<std::string> words = { "Simple", "test", "CASE", "12", "run-3", "of", "SPE1", "model", "x.y", "A+B", "PORO", "2020" };
        int n = rng.coin(1, 8) ? 0 : rng.range(1, 5);
        for (int i = 0; i < n; ++i) { Tok k; k.sep = i ? " " : ""; k.text = rng.pick(words); t.toks.push_back(k); }
        b.lines.push_back(t);
        rep.count("gen.class.TITLE");
        present.insert("TITLE");
        out.push_back(std::move(b));
        return true;
    }
    bool genCode(const std::string& name, const ParserKeyword& pk, std::vector<Block>& out) {
        if (name != "DYNAMICR") return false;     // PYINPUT would execute python
        Block b; b.name = name; b.pk = &pk; b.code = true; b.cls = "CODE";
        Line k = kwLine(name); k.frozen = true; b.lines.push_back(k);
        static const std::vector<std::string> code = { " x = 1 -- not a comment", "  IF 'a / b' THEN", "\tvalue 3*2.5 /", "", " y = \"q\"" };
        int n = rng.range(1, 4);
        for (int i = 0; i < n; ++i) { Line l; l.kind = 'x'; l.glue = true; l.name = rng.pick(code); b.lines.push_back(l); }
        Line e; e.kind = 'x'; e.glue = true; e.name = pk.codeEnd(); b.lines.push_back(e);
        rep.count("gen.class.CODE");
        present.insert(name);
        out.push_back(b);
        // now and then a second code keyword directly behind the first one
        if (rng.coin(1, 3)) {
            Block c2 = b;
            for (size_t i = 1; i + 1 < c2.lines.size(); ++i) c2.lines[i].name = rng.pick(code);
            rep.count("gen.class.CODE"); rep.count("gen.code_keyword_pairs");
            out.push_back(std::move(c2));
        }
        return true;
    }
    Line rawLine(const std::vector<std::string>& toks, int rec) {
        Line l = recordLine(toks, rec, nullptr);
        return l;
    }
    bool genUdq(const ParserKeyword& pk, std::vector<Block>& out) {
        Block b; b.name = "UDQ"; b.pk = &pk; b.raw = true; b.cls = "RAWSTRING";
        b.lines.push_back(kwLine("UDQ"));
        int k = rng.range(1, 4);
        static const std::vector<std::string> q = { "WUOPR", "FU_X", "'GUX'", "WU_1", "'FU Y'" };
        static const std::vector<std::string> ex = { "WOPR", "'P*'", "*", "2.0", "+", "(", ")", "/", "FOPR", "1.5", "'OP_1'", "MAX(", "-1", "3*2", "'A B'", "SM3/DAY", "1*", "<=" };
        for (int i = 0; i < k; ++i) {
            std::vector<std::string> t;
            switch (rng.below(4)) {
            case 0: {
                t = { "DEFINE", rng.pick(q) };
                // now and then a long expression (8-20 tokens) with divisions at random places: the writer must keep a
                // raw-string record on one line ('/' is the division operator; the reader ends the record at the LAST
                // slash of each line)
                const bool longExpr = rng.coin(1, 3);
                int m = longExpr ? rng.range(8, 20) : rng.range(1, 7);
                for (int j = 0; j < m; ++j) t.push_back(longExpr && rng.coin(1, 5) ? std::string(rng.coin() ? "/" : "WOPR/2") : rng.pick(ex));
                if (longExpr) rep.count("gen.udq.long_define");
            } break;
            case 1: t = { "ASSIGN", rng.pick(q), genDouble() };
                if (rng.coin(1, 4)) { int m = rng.range(6, 18); for (int j = 0; j < m; ++j) t.insert(t.end() - 1, rng.coin(1, 4) ? std::string("'A/B'") : rng.pick(std::vector<std::string>{ "'P*'", "W1", "'OP_1'", "1", "2" })); rep.count("gen.udq.long_assign"); }
                break;
            case 2: t = { "UNITS", rng.pick(q), rng.coin() ? "SM3/DAY" : "'SM3/DAY'" }; break;
            default: t = { "UPDATE", rng.pick(q), rng.pick(std::vector<std::string>{ "ON", "OFF", "NEXT" }) }; break;
            }
            b.lines.push_back(rawLine(t, i));
        }
        b.lines.push_back(slashLine());
        rep.count("gen.class.RAWSTRING");
        present.insert("UDQ");
        out.push_back(std::move(b));
        return true;
    }
    bool genActionx(const ParserKeyword& pk, std::vector<Block>& out) {
        Block b; b.name = "ACTIONX"; b.pk = &pk; b.raw = true; b.cls = "RAWSTRING";
        b.lines.push_back(kwLine("ACTIONX"));
        std::vector<std::string> h = { rng.coin() ? "ACT1" : "'ACT 2'" };
        if (rng.coin()) { h.push_back(rng.coin(1, 4) ? "1*" : genInt()); if (rng.coin()) h.push_back(genDouble()); }
        b.lines.push_back(rawLine(h, 0));
        int k = rng.range(1, 3);
        static const std::vector<std::vector<std::string>> conds = { { "WWCT", "'OPX'", ">", "0.75" }, { "FPR", "<", "100" }, { "GOPR", "'G*'", ">=", "1e3" }, { "DAY", ">", "3*" }, { "(", "FWCT", "<", "0.5", ")" } };
        for (int i = 0; i < k; ++i) {
            auto c = rng.pick(conds);
            // long conditions with a division, more than `columns` tokens
            if (rng.coin(1, 4)) { for (const char* x : { "/", "(", "WOPR", "'P1'", "+", "WOPR/2", ")", "*", "2" }) c.insert(c.begin() + 1, x); rep.count("gen.actionx.long_condition"); }
            if (i + 1 < k) c.push_back(rng.coin() ? "AND" : "OR");
            b.lines.push_back(rawLine(c, i + 1));
        }
        b.lines.push_back(slashLine());
        rep.count("gen.class.RAWSTRING");
        present.insert("ACTIONX");
        out.push_back(std::move(b));
        int inner = rng.range(0, 2);
        for (int i = 0; i < inner; ++i) genKeyword(rng.pick(std::vector<std::string>{ "WELOPEN", "WELTARG", "WCONPROD" }), out);
        genKeyword("ENDACTIO", out);
        return true;
    }
};

const std::vector<std::string>& pool() {
    static const std::vector<std::string> p = {
        // no data
        "OIL", "WATER", "GAS", "DISGAS", "VAPOIL", "GRID", "PROPS", "SOLUTION", "SCHEDULE", "SUMMARY", "FOPR", "ENDBOX", "REGIONS",
        // fixed single record
        "DIMENS", "WELLDIMS", "REGDIMS", "START", "GRIDOPTS", "ENDSCALE", "NSTACK", "BOX", "TSTEP", "RPTSCHED", "WOPR", "WBHP", "GOPR",
        // slash terminated lists
        "WELSPECS", "COMPDAT", "WCONPROD", "WCONINJE", "GRUPTREE", "COMPORD", "WCONHIST", "DATES", "GCONPROD", "WELTARG", "WELOPEN", "WLIST",
        "MULTREGT", "EQUALS", "COPY", "MULTIPLY", "ADD", "OPERATE",
        // sized by another keyword
        "EQUIL", "PVTW", "DENSITY", "PVDO", "PVDG", "SWOF", "SGOF", "ROCK", "PVTWSALT", "STOG",
        // table collections
        "PVTO", "PVTG",
        // data arrays
        "PORO", "PERMX", "SATNUM", "ACTNUM", "DX", "TOPS", "NTG", "MULTZ", "FIPNUM", "SWATINIT", "STRESSEQUILNUM", "ZCORN",
        // unknown size, double slash, min size, raw string, code
        "VFPINJ", "GECONT", "UDT", "GCUTBACT", "SAVE", "BRINE", "UDQ", "ACTIONX", "DYNAMICR", "TITLE",
    };
    return p;
}

// a random deck: header (sizing keywords) followed by a random selection
std::vector<Block> genDeck(vh::Rng& rng, Reporter& rep, int nKw, bool allowFault, std::string& fault, bool spillAll = false) {
    Gen g(rng, rep);
    g.spillAll = spillAll;
    std::vector<Block> out;
    g.genKeyword("RUNSPEC", out);
    if (rng.coin(2, 3)) g.genKeyword(rng.pick(std::vector<std::string>{ "METRIC", "FIELD", "LAB" }), out);
    if (rng.coin(1, 3)) g.genKeyword("TITLE", out);
    std::vector<std::string> hdr = { "TABDIMS", "EQLDIMS" };
    if (rng.coin()) std::swap(hdr[0], hdr[1]);
    for (const auto& h : hdr) g.genKeyword(h, out);
    for (int i = 0; i < nKw; ++i) {
        const std::string& name = rng.pick(pool());
        if (g.present.count(name) && rng.coin(2, 3)) continue;
        g.genKeyword(name, out);
    }
    fault.clear();
    if (allowFault && rng.coin(1, 25) && out.size() > 3) {
        // a deliberately ill formed deck: both layouts must fail alike
        switch (rng.below(3)) {
        case 0: {
            Block b; b.name = "FOOBAR7"; b.opaque = true; b.cls = "FAULT"; Line l; l.kind = 'x'; l.name = "FOOBAR7"; b.lines.push_back(l);
            out.insert(out.begin() + (long) rng.range(1, (int) out.size() - 1), b); fault = "unknown_keyword";
        } break;
        case 1: {
            Block b; b.name = "DIMENS"; b.opaque = true; b.cls = "FAULT";
            Line l; l.kind = 'x'; l.name = "DIMENS"; b.lines.push_back(l); l.name = " 1 2 3 4 /"; b.lines.push_back(l);
            out.push_back(b); fault = "extra_item";
        } break;
        default: {
            Block b; b.name = "NSTACK"; b.opaque = true; b.cls = "FAULT";
            Line l; l.kind = 'x'; l.name = "NSTACK"; b.lines.push_back(l); l.name = " 12x /"; b.lines.push_back(l);
            out.push_back(b); fault = "malformed_int";
        } break;
        }
    }
    return out;
}

// ---------------------------------------------------------------------------
// Rewrites: structure -> structure, meaning preserving layout changes only
// ---------------------------------------------------------------------------
enum RwKind {
    RW_COMMENT_LINE, RW_COMMENT_APPEND, RW_BLANK, RW_WS_EDGE, RW_CRLF, RW_SEP_WS, RW_SEP_COMMA, RW_KWCASE,
    RW_SPLIT, RW_JOIN, RW_AFTER_SLASH, RW_STAR_EXPAND, RW_STAR_CONTRACT, RW_STAR_CONTRACT_QBLANK,
    RW_DEFAULTS_DROP, RW_DEFAULTS_APPEND, RW_INCLUDE, RW_NKINDS
};
const char* rwName(int k) {
    static const char* n[] = { "comment_line", "comment_append", "blank_line", "ws_edge", "crlf", "sep_ws", "sep_comma", "kwcase",
        "line_split", "line_join", "after_slash", "star_expand", "star_contract", "star_contract_qblank",
        "defaults_drop", "defaults_append", "include_split" };
    return n[k];
}

struct Site { Block* b; size_t li; };

void collectSites(std::vector<Block>& bs, std::vector<Site>& out) {
    for (auto& b : bs) {
        for (size_t i = 0; i < b.lines.size(); ++i) out.push_back({ &b, i });
        if (b.isInclude) collectSites(b.children, out);
    }
}
void collectLists(std::vector<Block>& bs, std::vector<std::pair<std::vector<Block>*, int>>& out, int depth) {
    out.emplace_back(&bs, depth);
    for (auto& b : bs) if (b.isInclude) collectLists(b.children, out, depth + 1);
}

std::string randomComment(vh::Rng& rng) {
    static const std::vector<std::string> c = { "-- comment", "-- it's", "-- \"q", "-- PORO /", "--", "-- 'a' / 3*", "--- x", "-- END", "--\tTITLE", "-- / /", "-- a -- b", "-- 'bal' \"anced\"" };
    return rng.pick(c);
}
std::string randomWs(vh::Rng& rng, bool allowEmpty) {
    static const std::vector<std::string> w = { " ", "  ", "\t", " \t ", "    ", "\t\t" };
    if (allowEmpty && rng.coin(1, 4)) return "";
    return rng.pick(w);
}

// how many sites of n candidates to touch
size_t howMany(vh::Rng& rng, size_t n) {
    if (n == 0) return 0;
    if (rng.coin(1, 5)) return n;
    return std::min<size_t>(n, (size_t) rng.range(1, 5));
}
template <class T> void shuffle(vh::Rng& rng, std::vector<T>& v) {
    for (size_t i = v.size(); i > 1; --i) std::swap(v[i - 1], v[rng.below(i)]);
}

bool lineEndsRecord(const Line& l) { return l.kind == 'd' && !l.toks.empty() && l.toks.back().kind != 'V'; }
bool tokenEditable(const Block& b, const Line& l) { return l.kind == 'd' && b.ordinary() && !l.frozen; }

// number of schema items consumed by the value tokens; -1 if not determinable
long itemCount(const std::vector<const Tok*>& toks) {
    long n = 0;
    for (auto* t : toks) {
        long c; std::string v;
        if (t->text.empty()) return -1;
        if (t->text[0] == '\'') { n += 1; continue; }
        if (t->text.find('\'') != std::string::npos) return -1;
        if (starSplit(t->text, c, v)) { if (c < 1) return -1; n += c; }
        else if (t->text == "*") n += 1;
        else if (t->text[0] == '*') return -1;
        else n += 1;
    }
    return n;
}

// returns the number of modifications
int applyRewrite(int kind, std::vector<Block>& deck, vh::Rng& rng) {
    std::vector<Site> sites;
    collectSites(deck, sites);
    int done = 0;
    switch (kind) {
    case RW_COMMENT_LINE: case RW_BLANK: {
        // insertion positions: before line li of block (not glued, not inside code blocks)
        std::vector<Site> pos;
        for (auto& s : sites) { const Line& l = s.b->lines[s.li]; if (!l.glue && !(s.b->code && s.li > 0)) pos.push_back(s); }
        size_t n = howMany(rng, pos.size());
        shuffle(rng, pos);
        pos.resize(n);
        // one rebuild per block (insertion positions refer to the old indices)
        std::map<Block*, std::vector<size_t>> byBlock;
        for (auto& s : pos) byBlock[s.b].push_back(s.li);
        for (auto& kv : byBlock) {
            auto& at = kv.second;
            std::sort(at.begin(), at.end());
            std::vector<Line> nl;
            nl.reserve(kv.first->lines.size() + at.size());
            size_t ai = 0;
            for (size_t i = 0; i < kv.first->lines.size(); ++i) {
                while (ai < at.size() && at[ai] == i) {
                    Line l;
                    if (kind == RW_COMMENT_LINE) { l.kind = 'c'; l.name = randomWs(rng, true) + randomComment(rng); }
                    else { l.kind = 'b'; l.name = randomWs(rng, true); }
                    nl.push_back(std::move(l)); ++ai; ++done;
                }
                nl.push_back(std::move(kv.first->lines[i]));
            }
            kv.first->lines = std::move(nl);
        }
    } break;
    case RW_COMMENT_APPEND: {
        std::vector<Site> pos;
        for (auto& s : sites) {
            const Line& l = s.b->lines[s.li];
            if (s.b->code) continue;
            if (l.kind == 'k') { if (!hasQuoteChar(l.rest) && !hasQuoteChar(l.tail)) pos.push_back(s); }
            else if (l.kind == 'd' || l.kind == 't') { if (!l.frozen && !hasQuoteChar(l.tail)) pos.push_back(s); }
            else if (l.kind == 'x') { if (!l.glue && !hasQuoteChar(l.name) && l.name.find('\r') == std::string::npos) pos.push_back(s); }
        }
        size_t n = howMany(rng, pos.size());
        shuffle(rng, pos);
        for (size_t i = 0; i < n; ++i) {
            Line& l = pos[i].b->lines[pos[i].li];
            std::string c = " " + randomComment(rng);
            if (l.kind == 'x') l.name += c;
            else {
                // keep a trailing \r (CRLF source) at the very end
                if (!l.tail.empty() && l.tail.back() == '\r') l.tail.insert(l.tail.size() - 1, c); else l.tail += c;
            }
            ++done;
        }
    } break;
    case RW_WS_EDGE: {
        std::vector<Site> pos;
        for (auto& s : sites) { const Line& l = s.b->lines[s.li]; if ((l.kind == 'k' || l.kind == 'd' || l.kind == 't') && !l.frozen && !s.b->code) pos.push_back(s); }
        size_t n = howMany(rng, pos.size());
        shuffle(rng, pos);
        for (size_t i = 0; i < n; ++i) {
            Line& l = pos[i].b->lines[pos[i].li];
            if (rng.coin()) l.lead = randomWs(rng, true);
            else {
                // trailing blanks: in front of whatever already follows the last token
                if (l.tail.find("--") == std::string::npos && !hasQuoteChar(l.tail)) l.tail += randomWs(rng, false);
                else l.tail = randomWs(rng, false) + l.tail;
            }
            ++done;
        }
    } break;
    case RW_CRLF: {
        bool all = rng.coin();
        for (auto& s : sites) {
            Line& l = s.b->lines[s.li];
            if (s.b->code) continue;
            if (l.eol != "\n") continue;
            if (l.kind == 'x' && !l.name.empty() && l.name.back() == '\r') continue;
            if ((l.kind == 'd' || l.kind == 't' || l.kind == 'k') && !l.tail.empty() && l.tail.back() == '\r') continue;
            if (all || rng.coin(1, 3)) { l.eol = "\r\n"; ++done; }
        }
    } break;
    case RW_SEP_WS: case RW_SEP_COMMA: {
        std::vector<Site> pos;
        for (auto& s : sites) {
            const Line& l = s.b->lines[s.li];
            if ((l.kind == 'd' || l.kind == 't') && !l.frozen && !s.b->code && !s.b->opaque && l.toks.size() >= 2) pos.push_back(s);
        }
        size_t n = howMany(rng, pos.size());
        shuffle(rng, pos);
        static const std::vector<std::string> commas = { ",", ", ", " ,", " , ", ",\t" };
        for (size_t i = 0; i < n; ++i) {
            Line& l = pos[i].b->lines[pos[i].li];
            for (size_t t = 1; t < l.toks.size(); ++t) {
                if (!rng.coin(2, 3)) continue;
                // keep the slash of a raw string record away from a comma-only rewrite? commas are separators everywhere
                l.toks[t].sep = kind == RW_SEP_WS ? randomWs(rng, false) : rng.pick(commas);
                ++done;
            }
        }
    } break;
    case RW_KWCASE: {
        std::vector<Site> pos;
        for (auto& s : sites) { const Line& l = s.b->lines[s.li]; if (l.kind == 'k' && !l.frozen && !s.b->code) pos.push_back(s); }
        size_t n = howMany(rng, pos.size());
        shuffle(rng, pos);
        for (size_t i = 0; i < n; ++i) {
            Line& l = pos[i].b->lines[pos[i].li];
            std::string nn = l.name;
            if (rng.coin()) nn = lower(nn);
            else for (auto& c : nn) c = rng.coin() ? (char) std::tolower((unsigned char) c) : (char) std::toupper((unsigned char) c);
            if (nn != l.name) { l.name = nn; ++done; }
        }
    } break;
    case RW_SPLIT: {
        std::vector<Site> pos;
        for (auto& s : sites) { const Line& l = s.b->lines[s.li]; if (tokenEditable(*s.b, l) && l.toks.size() >= 2) pos.push_back(s); }
        size_t n = howMany(rng, pos.size());
        shuffle(rng, pos);
        pos.resize(n);
        std::map<Block*, std::set<size_t>> byBlock;
        for (auto& s : pos) byBlock[s.b].insert(s.li);
        for (auto& kv : byBlock) {
            std::vector<Line> out;
            out.reserve(kv.first->lines.size() + kv.second.size());
            for (size_t i = 0; i < kv.first->lines.size(); ++i) {
                Line& l = kv.first->lines[i];
                if (!kv.second.count(i)) { out.push_back(std::move(l)); continue; }
                std::vector<size_t> at;
                for (size_t t = 1; t < l.toks.size(); ++t)
                    if (l.toks[t].kind == 'R' || (l.toks[t].kind == 'V' && breakableBefore(l.toks[t].text))) at.push_back(t);
                if (at.empty()) { out.push_back(std::move(l)); continue; }
                size_t t = rng.pick(at);
                Line nl = l;
                nl.toks.assign(l.toks.begin() + (long) t, l.toks.end());
                nl.toks[0].sep = "";
                nl.lead = randomWs(rng, true);
                nl.glue = false;
                l.toks.resize(t);
                l.tail = rng.coin(1, 4) ? " " : "";
                if (l.eol.empty()) l.eol = "\n";      // last line of a file without a final newline
                out.push_back(std::move(l));
                out.push_back(std::move(nl));
                ++done;
            }
            kv.first->lines = std::move(out);
        }
    } break;
    case RW_JOIN: {
        // pairs (A, B): consecutive data lines of one record (only comment / blank lines between)
        std::vector<std::pair<Site, size_t>> pairs;
        for (auto& s : sites) {
            const Line& a = s.b->lines[s.li];
            if (!tokenEditable(*s.b, a) || lineEndsRecord(a) || a.toks.empty()) continue;
            size_t j = s.li + 1;
            while (j < s.b->lines.size() && (s.b->lines[j].kind == 'c' || s.b->lines[j].kind == 'b')) ++j;
            if (j >= s.b->lines.size()) continue;
            const Line& b = s.b->lines[j];
            if (!tokenEditable(*s.b, b) || b.rec != a.rec || b.toks.empty() || b.toks[0].kind == 'K') continue;
            pairs.emplace_back(s, j);
        }
        size_t n = howMany(rng, pairs.size());
        shuffle(rng, pairs);
        pairs.resize(n);
        std::map<Block*, std::map<size_t, size_t>> byBlock;     // A -> B
        for (auto& p : pairs) byBlock[p.first.b][p.first.li] = p.second;
        for (auto& kv : byBlock) {
            auto& lines = kv.first->lines;
            std::vector<char> dead(lines.size(), 0);
            std::vector<char> used(lines.size(), 0);   // a line takes part in at most one join
            for (auto& ab : kv.second) {
                size_t ai = ab.first, bi = ab.second;
                if (used[ai] || used[bi]) continue;
                used[ai] = used[bi] = 1;
                Line& a = lines[ai]; Line& b = lines[bi];
                b.toks[0].sep = randomWs(rng, false);
                a.toks.insert(a.toks.end(), b.toks.begin(), b.toks.end());
                a.tail = b.tail;
                dead[bi] = 1;
                ++done;
            }
            std::vector<Line> out;
            out.reserve(lines.size());
            for (size_t i = 0; i < lines.size(); ++i) if (!dead[i]) out.push_back(std::move(lines[i]));
            lines = std::move(out);
        }
    } break;
    case RW_AFTER_SLASH: {
        std::vector<Site> pos;
        for (auto& s : sites) { const Line& l = s.b->lines[s.li]; if (lineEndsRecord(l) && !l.frozen && !s.b->code) pos.push_back(s); }
        size_t n = howMany(rng, pos.size());
        shuffle(rng, pos);
        static const std::vector<std::string> plain = { " end", " PORO", " record 1 done", " 3* 1e3", "text", " TITLE", "\tEND", " 42", " ENDACTIO" };
        static const std::vector<std::string> withSlash = { " / / x", " a/b", "/" };
        for (size_t i = 0; i < n; ++i) {
            Line& l = pos[i].b->lines[pos[i].li];
            std::string t = (!pos[i].b->raw && !pos[i].b->opaque && rng.coin(1, 4)) ? rng.pick(withSlash) : rng.pick(plain);
            l.tail = t + l.tail;
            ++done;
        }
    } break;
    case RW_STAR_EXPAND: {
        std::vector<Site> pos;
        for (auto& s : sites) {
            const Line& l = s.b->lines[s.li];
            if (!tokenEditable(*s.b, l)) continue;
            for (const auto& t : l.toks) { long c; std::string v; if (t.kind == 'V' && starSplit(t.text, c, v) && c >= 1 && c <= 64) { pos.push_back(s); break; } }
        }
        size_t n = howMany(rng, pos.size());
        shuffle(rng, pos);
        for (size_t i = 0; i < n; ++i) {
            Line& l = pos[i].b->lines[pos[i].li];
            std::vector<Tok> nt;
            for (size_t t = 0; t < l.toks.size(); ++t) {
                long c; std::string v;
                const Tok& tk = l.toks[t];
                bool can = tk.kind == 'V' && starSplit(tk.text, c, v) && c >= 1 && c <= 64 && rng.coin(3, 4);
                if (can && !v.empty() && v.find('\'') != std::string::npos && !(v.size() >= 2 && v.front() == '\'' && v.back() == '\'' && v.find('\'', 1) == v.size() - 1)) can = false;
                if (can && !v.empty() && (v[0] == '*' || std::isdigit((unsigned char) v[0])) ) { long c2; std::string v2; if (v[0] == '*' || starSplit(v, c2, v2)) can = false; }
                if (can && t == 0 && !v.empty() && keywordLike(v)) can = false;    // a line must not start with a bare word afterwards
                if (!can) { nt.push_back(tk); continue; }
                for (long k = 0; k < c; ++k) { Tok x; x.sep = k == 0 ? tk.sep : " "; x.text = v.empty() ? "1*" : v; nt.push_back(x); }
                ++done;
            }
            l.toks = nt;
        }
    } break;
    case RW_STAR_CONTRACT: case RW_STAR_CONTRACT_QBLANK: {
        std::vector<Site> pos;
        for (auto& s : sites) { const Line& l = s.b->lines[s.li]; if (tokenEditable(*s.b, l) && l.toks.size() >= 2) pos.push_back(s); }
        shuffle(rng, pos);
        size_t budget = howMany(rng, pos.size());
        for (auto& s : pos) {
            if (budget == 0) break;
            Line& l = s.b->lines[s.li];
            std::vector<Tok> nt;
            bool changed = false;
            for (size_t t = 0; t < l.toks.size();) {
                const Tok& tk = l.toks[t];
                size_t u = t + 1;
                if (tk.kind == 'V') {
                    long c; std::string v;
                    const bool isStar = starSplit(tk.text, c, v) || (!tk.text.empty() && tk.text[0] == '*');
                    const bool quoted = !tk.text.empty() && tk.text[0] == '\'';
                    const bool blank = quoted && (tk.text.find(' ') != std::string::npos || tk.text.find('\t') != std::string::npos || tk.text.find(',') != std::string::npos);
                    const bool innerQuote = !quoted && tk.text.find('\'') != std::string::npos;
                    if (!isStar && !innerQuote && (kind == RW_STAR_CONTRACT ? !blank : blank)) {
                        while (u < l.toks.size() && l.toks[u].kind == 'V' && l.toks[u].text == tk.text) ++u;
                        if (u - t >= 2) { Tok x; x.sep = tk.sep; x.text = std::to_string(u - t) + "*" + tk.text; nt.push_back(x); changed = true; ++done; t = u; continue; }
                    } else if (isStar && kind == RW_STAR_CONTRACT && starSplit(tk.text, c, v) && v.empty() && c >= 1) {
                        long sum = c;
                        while (u < l.toks.size() && l.toks[u].kind == 'V') { long c2; std::string v2; if (starSplit(l.toks[u].text, c2, v2) && v2.empty() && c2 >= 1) { sum += c2; ++u; } else break; }
                        if (u - t >= 2 && sum < 100000) { Tok x; x.sep = tk.sep; x.text = std::to_string(sum) + "*"; nt.push_back(x); changed = true; ++done; t = u; continue; }
                    }
                    u = t + 1;
                }
                nt.push_back(tk); t = u;
            }
            if (changed) { l.toks = nt; --budget; }
        }
    } break;
    case RW_DEFAULTS_DROP: case RW_DEFAULTS_APPEND: {
        std::vector<Site> pos;
        for (auto& s : sites) {
            const Line& l = s.b->lines[s.li];
            if (!tokenEditable(*s.b, l) || !l.prec || l.toks.empty() || l.toks.back().kind != 'R') continue;
            bool allSingle = true;
            for (const auto& it : *l.prec) if (it.sizeType() != ParserItem::item_size::SINGLE) allSingle = false;
            if (allSingle) pos.push_back(s);
        }
        shuffle(rng, pos);
        size_t budget = howMany(rng, pos.size());
        for (auto& s : pos) {
            if (budget == 0) break;
            Line& l = s.b->lines[s.li];
            // all value tokens of the record (earlier lines of the same record included)
            std::vector<const Tok*> vt;
            bool bad = false;
            for (size_t j = 0; j <= s.li; ++j) {
                const Line& o = s.b->lines[j];
                if (o.kind != 'd' || o.rec != l.rec) continue;
                if (o.frozen) bad = true;
                for (const auto& t : o.toks) if (t.kind == 'V') vt.push_back(&t);
            }
            if (bad) continue;
            long T = itemCount(vt);
            long N = (long) l.prec->size();
            if (T < 0 || T > N) continue;
            if (kind == RW_DEFAULTS_APPEND) {
                if (T >= N) continue;
                long k = rng.range(1, (int) std::min<long>(N - T, 6));
                Tok x; x.sep = l.toks.size() > 1 || !vt.empty() ? " " : ""; x.text = std::to_string(rng.coin() ? 1 : k) + "*";
                if (l.toks.size() == 1) { x.sep = ""; l.toks.back().sep = " "; }
                l.toks.insert(l.toks.end() - 1, x);
                ++done; --budget;
            } else {
                // the last value token on THIS line is a pure default and not the only token of the record
                if (l.toks.size() < 2 || vt.size() < 2) continue;
                Tok& last = l.toks[l.toks.size() - 2];
                long c; std::string v;
                if (last.kind != 'V' || !starSplit(last.text, c, v) || !v.empty() || c < 1) continue;
                l.toks.erase(l.toks.end() - 2);
                if (l.toks.size() == 1 && l.toks[0].sep.empty() && l.lead.empty()) l.lead = " ";
                ++done; --budget;
            }
        }
    } break;
    case RW_INCLUDE: {
        std::vector<std::pair<std::vector<Block>*, int>> lists;
        collectLists(deck, lists, 0);
        std::vector<std::pair<std::vector<Block>*, int>> ok;
        for (auto& p : lists) if (p.second < 2 && p.first->size() >= 2) ok.push_back(p);
        if (ok.empty()) break;
        auto& lst = *rng.pick(ok).first;
        size_t i = rng.below(lst.size());
        size_t j = i + 1 + rng.below(std::min<size_t>(lst.size() - i, 6));
        if (j > lst.size()) j = lst.size();
        // The run must begin and end at a keyword boundary.  The injected unknown-keyword line is not
        // a keyword: behind a keyword that can complete (unknown size) it is read as record text and
        // silently dropped when the next keyword line arrives - but a file that ends inside such text
        // is "Input file ended inside a record." since d37f2f297, and as the first line of a file it is
        // an unknown keyword (Props/C01 include_inline: INCLUDE and the content in place agree exactly
        // when the content ends at a keyword boundary).
        while (j > i && lst[j - 1].cls == "FAULT") --j;
        while (i < j && lst[i].cls == "FAULT") ++i;
        if (j <= i) break;
        // a glued first line (nothing else can happen for whole blocks) keeps its block together anyway
        Block inc; inc.name = "INCLUDE"; inc.opaque = true; inc.isInclude = true; inc.cls = "INCLUDE";
        inc.children.assign(lst.begin() + (long) i, lst.begin() + (long) j);
        Line k; k.kind = 'k'; k.name = "INCLUDE"; inc.lines.push_back(k);
        Line d; d.kind = 'd'; d.lead = " "; d.frozen = true;
        Tok p; p.text = kIncPlaceholder; d.toks.push_back(p);
        Tok sl; sl.sep = " "; sl.text = "/"; sl.kind = 'R'; d.toks.push_back(sl);
        inc.lines.push_back(d);
        lst.erase(lst.begin() + (long) i, lst.begin() + (long) j);
        lst.insert(lst.begin() + (long) i, inc);
        ++done;
    } break;
    default: break;
    }
    return done;
}

struct Step { int kind; uint64_t seed; };

void applySteps(std::vector<Block>& deck, const std::vector<Step>& steps, std::vector<int>* counts = nullptr) {
    for (const auto& s : steps) {
        vh::Rng r(s.seed);
        int n = applyRewrite(s.kind, deck, r);
        if (counts) counts->push_back(n);
    }
}

std::vector<Step> randomSteps(vh::Rng& rng, const std::vector<int>& allowed, int maxN) {
    int n = rng.range(1, maxN);
    std::vector<Step> st;
    for (int i = 0; i < n; ++i) st.push_back({ rng.pick(allowed), rng.next() });
    // include splitting last, so that the moved keywords carry the other rewrites
    std::stable_sort(st.begin(), st.end(), [](const Step& a, const Step& b) { return (a.kind == RW_INCLUDE) < (b.kind == RW_INCLUDE); });
    return st;
}
std::string stepsText(const std::vector<Step>& st) {
    std::string s;
    for (size_t i = 0; i < st.size(); ++i) { if (i) s += ","; s += rwName(st[i].kind); s += ":" + std::to_string(st[i].seed); }
    return s;
}

// ---------------------------------------------------------------------------
// Structure of a shipped deck file (no grammar: keyword lines come from the
// parsed deck, the record schema from the Parser)
// ---------------------------------------------------------------------------
// mirror of str::find_terminator: first terminator position outside quotes (' or ")
size_t findTerminator(const std::string& s, size_t begin, size_t end, const std::function<size_t(size_t, size_t)>& term) {
    size_t pos = term(begin, end);
    if (pos == begin || pos == end) return pos;
    size_t q = begin; while (q < end && s[q] != '\'' && s[q] != '"') ++q;
    if (q == end || q > pos) return pos;
    size_t qe = q + 1; while (qe < end && s[qe] != s[q]) ++qe;
    if (qe == end) return end;
    return findTerminator(s, qe + 1, end, term);
}
size_t commentStart(const std::string& s) {
    auto term = [&s](size_t b, size_t e) { for (size_t i = b; i + 1 < e; ++i) if (s[i] == '-' && s[i + 1] == '-') return i; return e; };
    return findTerminator(s, 0, s.size(), term);
}
size_t firstSlash(const std::string& s, size_t b, size_t e) {
    auto term = [&s](size_t bb, size_t ee) { for (size_t i = bb; i < ee; ++i) if (s[i] == '/') return i; return ee; };
    return findTerminator(s, b, e, term);
}

struct ShipCtx {
    const Deck* deck = nullptr;
    std::string rootDir;
    std::map<std::string, std::string> alias;
    std::set<std::string> codeNames;
    std::string why;
    int files = 0;
};

// tokens of s[b,e) as splitSingleRecordString does; false when a quote is unbalanced / odd
bool splitTokens(const std::string& s, size_t b, size_t e, std::vector<std::pair<size_t, size_t>>& out) {
    size_t c = b;
    while (true) {
        while (c < e && isSep(s[c])) ++c;
        if (c >= e) break;
        if (s[c] == '\'') {
            size_t q = c + 1; while (q < e && s[q] != '\'') ++q;
            if (q >= e) return false;
            out.emplace_back(c, q + 1); c = q + 1;
        } else {
            size_t q = c; while (q < e && !isSep(s[q])) ++q;
            for (size_t i = c; i < q; ++i) if (s[i] == '\'') return false;
            out.emplace_back(c, q); c = q;
        }
    }
    return true;
}

bool buildFile(const std::string& path, ShipCtx& cx, int depth, std::vector<Block>& out);

bool buildFile(const std::string& path, ShipCtx& cx, int depth, std::vector<Block>& out) {
    if (depth > 4) { cx.why = "include_depth"; return false; }
    std::string canon;
    try { canon = fs::canonical(path).string(); } catch (...) { cx.why = "canonical"; return false; }
    const std::string content = vh::slurp(canon);
    for (const auto& cn : cx.codeNames) if (content.find(cn) != std::string::npos) { cx.why = "code_keyword"; return false; }
    ++cx.files;
    std::map<size_t, const DeckKeyword*> kwLines;
    for (const auto& kw : *cx.deck) if (kw.location().filename == canon) kwLines[kw.location().lineno] = &kw;

    out.emplace_back();
    out.back().opaque = true; out.back().cls = "PREAMBLE";
    // state of the current ordinary block
    const DeckKeyword* curKw = nullptr;
    size_t recIdx = 0, schemaIdx = 0; bool recHasTokens = false, stopped = true, titlePending = false;
    std::vector<size_t> recLines;
    // state of an opaque INCLUDE / PATHS
    enum { O_NONE, O_INCLUDE, O_PATHS, O_DONE } omode = O_NONE;
    std::vector<std::string> pathsToks;

    auto freezeRecord = [&]() { for (size_t i : recLines) out.back().lines[i].frozen = true; stopped = true; };

    size_t p = 0, lineno = 0;
    while (p < content.size()) {
        size_t nl = content.find('\n', p);
        std::string raw; std::string eol;
        if (nl == std::string::npos) { raw = content.substr(p); eol = ""; p = content.size(); }
        else { raw = content.substr(p, nl - p); eol = "\n"; p = nl + 1; }
        ++lineno;
        const size_t cpos = commentStart(raw);
        size_t a = 0; while (a < cpos && isSep(raw[a])) ++a;
        size_t b = cpos; while (b > a && isSep(raw[b - 1])) --b;
        Line L; L.eol = eol;
        auto verbatim = [&](char kind) { L.kind = kind; L.name = raw; };

        if (titlePending) {
            verbatim('x'); L.glue = true; titlePending = false;
            out.back().lines.push_back(L);
            continue;
        }
        std::string dn;
        if (a < b) { size_t e = a; while (e < b && !isSep(raw[e])) ++e; dn = upper(raw.substr(a, e - a)); }

        auto kit = kwLines.find(lineno);
        if (kit != kwLines.end()) {
            const DeckKeyword* kw = kit->second;
            const std::string& nm = kw->name();
            if (!(dn == nm || (dn.size() > 8 && dn.substr(0, 8) == nm))) { cx.why = "kwline_mismatch"; return false; }
            Block blk; blk.name = nm;
            try { blk.pk = &P().getParserKeywordFromDeckName(nm); } catch (...) { cx.why = "no_parser_keyword"; return false; }
            blk.raw = blk.pk->rawStringKeyword(); blk.code = blk.pk->isCodeKeyword(); blk.title = nm == "TITLE";
            blk.cls = classOf(*blk.pk, nm);
            blk.canComplete = blk.pk->getSizeType() == UNKNOWN || (blk.pk->min_size() && blk.pk->hasFixedSize());
            L.kind = 'k'; L.lead = raw.substr(0, a); L.name = raw.substr(a, dn.size()); L.rest = raw.substr(a + dn.size());
            blk.lines.push_back(L);
            out.push_back(std::move(blk));
            curKw = kw; recIdx = 0; schemaIdx = 0; recHasTokens = false; recLines.clear();
            stopped = !out.back().ordinary();
            titlePending = out.back().title;
            omode = O_NONE;
            continue;
        }
        if (a >= b) {   // nothing but white space / comment
            verbatim(cpos < raw.size() ? 'c' : 'b');
            out.back().lines.push_back(L);
            continue;
        }
        Block& cur = out.back();
        const bool inOrdinary = cur.ordinary() && !stopped && curKw;

        // is the first word a keyword the parser knows (but which is not in the deck at this line)?
        bool candidate = false;
        if (keywordLike(dn)) {
            candidate = P().isRecognizedKeyword(dn) || (dn.size() > 8 && P().isRecognizedKeyword(dn.substr(0, 8))) || dn == "ENDSKIP" || dn.compare(0, 4, "SKIP") == 0;
        }
        if (inOrdinary && candidate) {
            if (recHasTokens) { if (cur.canComplete) { freezeRecord(); } else candidate = false; }
            else if (recIdx < curKw->size()) candidate = false;
        }
        if (candidate && (omode == O_NONE || omode == O_DONE) && (inOrdinary || cur.opaque || stopped)) {
            // a keyword handled by the parser itself (INCLUDE, PATHS, END, SKIP ...) or outside the deck
            if (inOrdinary && recHasTokens) freezeRecord();
            Block blk; blk.opaque = true; blk.cls = "OPAQUE"; blk.name = "";
            L.kind = 'k'; L.lead = raw.substr(0, a); L.name = raw.substr(a, dn.size()); L.rest = raw.substr(a + dn.size());
            if (dn != "INCLUDE" && dn != "PATHS") { L.kind = 'x'; L.name = raw; L.lead.clear(); L.rest.clear(); }
            blk.lines.push_back(L);
            out.push_back(std::move(blk));
            curKw = nullptr; stopped = true; recLines.clear(); recHasTokens = false;
            omode = dn == "INCLUDE" ? O_INCLUDE : dn == "PATHS" ? O_PATHS : O_DONE;
            pathsToks.clear();
            continue;
        }
        if (!inOrdinary && omode != O_INCLUDE && omode != O_PATHS) {
            verbatim('x');
            cur.lines.push_back(L);
            continue;
        }
        // ---- a data line: tokens up to the first slash ----
        bool dq = false; for (size_t i = a; i < b; ++i) if (raw[i] == '"') dq = true;
        const size_t sl = firstSlash(raw, a, b);
        std::vector<std::pair<size_t, size_t>> tk;
        if (dq || !splitTokens(raw, a, sl, tk)) {
            if (inOrdinary) freezeRecord();
            omode = omode == O_NONE ? O_NONE : O_DONE;
            verbatim('x');
            cur.lines.push_back(L);
            continue;
        }
        L.kind = 'd'; L.lead = raw.substr(0, a);
        size_t prevEnd = a;
        for (auto& t : tk) { Tok x; x.sep = raw.substr(prevEnd, t.first - prevEnd); x.text = raw.substr(t.first, t.second - t.first); L.toks.push_back(x); prevEnd = t.second; }
        const bool hasSlash = sl < b;
        if (hasSlash) { Tok x; x.sep = raw.substr(prevEnd, sl - prevEnd); x.text = "/"; x.kind = (tk.empty() && !recHasTokens) ? 'K' : 'R'; L.toks.push_back(x); prevEnd = sl + 1; }
        L.tail = raw.substr(prevEnd);

        if (omode == O_INCLUDE || omode == O_PATHS) {
            L.frozen = true;
            if (omode == O_INCLUDE) {
                if (!tk.empty()) {
                    std::string v = L.toks[0].text;
                    if (v.size() >= 2 && v.front() == '\'') v = v.substr(1, v.size() - 2);
                    // as getIncludeFilePath: alias replacement, trim, relative to the directory of the root file
                    size_t dp = v.find('$');
                    if (dp != std::string::npos) {
                        size_t e = dp + 1; while (e < v.size() && (std::isalnum((unsigned char) v[e]) || v[e] == '-' || v[e] == '_')) ++e;
                        auto al = cx.alias.find(v.substr(dp + 1, e - dp - 1));
                        if (al == cx.alias.end()) { cx.why = "include_alias"; return false; }
                        std::string full = "$" + v.substr(dp + 1, e - dp - 1);
                        for (size_t f = v.find(full); f != std::string::npos; f = v.find(full, f + al->second.size())) v.replace(f, full.size(), al->second);
                    }
                    std::replace(v.begin(), v.end(), '\\', '/');
                    while (!v.empty() && std::isspace((unsigned char) v.front())) v.erase(v.begin());
                    while (!v.empty() && std::isspace((unsigned char) v.back())) v.pop_back();
                    fs::path ip(v);
                    if (ip.is_relative()) ip = fs::path(cx.rootDir) / ip;
                    std::error_code ec;
                    if (!fs::exists(ip, ec)) { cx.why = "include_missing"; return false; }
                    std::vector<Block> children;
                    if (!buildFile(ip.string(), cx, depth + 1, children)) return false;
                    cur.isInclude = true; cur.children = std::move(children);
                    L.toks[0].text = kIncPlaceholder;
                    omode = O_DONE;
                }
            } else {
                for (auto& t : tk) { std::string v = raw.substr(t.first, t.second - t.first); if (v.size() >= 2 && v.front() == '\'') v = v.substr(1, v.size() - 2); pathsToks.push_back(v); }
                if (hasSlash) {
                    if (tk.empty() && pathsToks.empty()) omode = O_DONE;
                    else { if (pathsToks.size() >= 2) cx.alias.emplace(pathsToks[0], pathsToks[1]); pathsToks.clear(); }
                }
            }
            cur.lines.push_back(L);
            continue;
        }

        // ordinary keyword: record bookkeeping
        L.rec = (int) recIdx;
        try { if (std::distance(cur.pk->begin(), cur.pk->end()) > 0) L.prec = &cur.pk->getRecord(schemaIdx); } catch (...) { L.prec = nullptr; }
        if (!tk.empty()) recHasTokens = true;
        recLines.push_back(cur.lines.size());
        cur.lines.push_back(L);
        if (hasSlash) {
            const bool lone = L.toks.back().kind == 'K';
            if (!lone || recIdx < curKw->size()) {
                ++recIdx;
                if (lone && cur.pk->isDoubleRecordKeyword()) schemaIdx = 0; else ++schemaIdx;
            }
            if (lone) cur.lines.back().prec = nullptr;
            recHasTokens = false; recLines.clear();
        }
    }
    return true;
}

// ---------------------------------------------------------------------------
// C01 driver
// ---------------------------------------------------------------------------
struct Env {
    uint64_t seed = 0;
    bool thorough = false;
    std::string outdir, tmp, repo;
    double t0 = 0, budget = 0;
    bool timeLeft(double frac = 1.0) const { return nowSec() - t0 < budget * frac; }
};

// consecutive vh::Rng seeds give shifted copies of one stream: decorrelate the per case seeds
uint64_t caseSeed(uint64_t seed, uint64_t c) {
    return vh::Rng(seed * 0x2545F4914F6CDD1Dull + c * 0xD1342543DE82EF95ull + 0x632BE59BD9B4E019ull).next();
}

struct Ref {            // reference side of a comparison
    bool ok = false, guard = false;
    DeckC canon;
};
Ref makeRef(Outcome& o) { Ref r; r.ok = o.ok; r.guard = o.guard; if (o.ok) r.canon = canonDeck(*o.deck); return r; }

struct CmpResult {
    bool fail = false;
    std::string cls;          // outcome | guard | differs
    Diff diff;
    std::string text;         // rewritten main text, path free
    std::vector<std::pair<std::string, std::string>> files;
    std::vector<int> counts;
    bool bOk = false;
};

CmpResult runRewritten(const std::vector<Block>& orig, const Ref& A, const std::vector<Step>& steps, const Env& env, const std::string& prefix) {
    CmpResult res;
    std::vector<Block> copy = orig;
    applySteps(copy, steps, &res.counts);
    RenderCtx rc; rc.dir = env.tmp; rc.prefix = prefix; rc.write = true;
    std::string text;
    renderBlocks(copy, text, rc);
    Outcome B = parseText(text);
    for (auto& f : rc.files) { std::error_code ec; fs::remove(env.tmp + "/" + f.first, ec); }
    // path free rendering for the report
    RenderCtx rp; rp.dir = "<TMP>"; rp.prefix = "inc"; rp.write = false;
    renderBlocks(copy, res.text, rp);
    res.files = rp.files;
    res.bOk = B.ok;
    if (A.ok != B.ok) { res.fail = true; res.cls = "outcome"; return res; }
    if (!A.ok) return res;
    if (A.guard != B.guard) { res.fail = true; res.cls = "guard"; return res; }
    DeckC cb = canonDeck(*B.deck);
    res.diff = diffDeck(A.canon, cb, false);
    if (res.diff.differ) { res.fail = true; res.cls = "differs"; }
    return res;
}

std::string failDetail(const Env& env, const std::string& src, const std::string& id, const std::vector<Step>& steps, const CmpResult& r, const Ref& A, const std::string& origText, const std::string& extra) {
    std::ostringstream o;
    o << "seed=" << env.seed << " tier=" << (env.thorough ? "thorough" : "quick") << " src=" << src << " id=" << id << " rewrites=[" << stepsText(steps) << "]"
      << " class=" << r.cls << " orig=" << (A.ok ? "ok" : "err") << " rewritten=" << (r.bOk ? "ok" : "err");
    if (r.diff.differ) o << " what=" << r.diff.what << " where={" << r.diff.where << "}";
    if (!extra.empty()) o << " " << extra;
    if (!origText.empty()) o << " orig_hex=" << hexTrunc(origText);
    o << " rewritten_hex=" << hexTrunc(r.text);
    for (size_t i = 0; i < r.files.size() && i < 3; ++i) o << " " << r.files[i].first << "_hex=" << hexTrunc(r.files[i].second, 600);
    return o.str();
}

// compare original against a composition; on failure find the single rewrite responsible
void checkComposition(Reporter& rep, const Env& env, const std::string& src, const std::string& id, const std::vector<Block>& orig, const Ref& A,
                      const std::string& origText, const std::vector<Step>& steps, const std::string& prefix) {
    CmpResult r = runRewritten(orig, A, steps, env, prefix);
    for (size_t i = 0; i < steps.size(); ++i) if (r.counts[i] > 0) { rep.count(std::string("rw.") + rwName(steps[i].kind)); rep.count(std::string("rw_sites.") + rwName(steps[i].kind), r.counts[i]); }
    rep.count(std::string("outcome.") + (A.ok ? (r.bOk ? "both_ok" : "orig_ok_rewritten_err") : (r.bOk ? "orig_err_rewritten_ok" : "both_err")));
    if (!r.fail) { rep.ok(); return; }
    // attribution: each step alone, then prefixes
    std::string kind = "composition"; std::vector<Step> minimal = steps; CmpResult mr = r;
    bool found = false;
    for (size_t i = 0; i < steps.size() && !found && steps.size() > 1; ++i) {
        std::vector<Step> one = { steps[i] };
        CmpResult q = runRewritten(orig, A, one, env, prefix + "a");
        if (q.fail) { kind = rwName(steps[i].kind); minimal = one; mr = q; found = true; }
    }
    if (!found && steps.size() > 1) {
        for (size_t n = 1; n <= steps.size() && !found; ++n) {
            std::vector<Step> pre(steps.begin(), steps.begin() + (long) n);
            CmpResult q = runRewritten(orig, A, pre, env, prefix + "p");
            if (q.fail) { kind = rwName(steps[n - 1].kind); minimal = pre; mr = q; found = true; }   // fails only in composition: named after the last step of the shortest failing prefix
        }
    }
    if (steps.size() == 1) kind = rwName(steps[0].kind);
    if (steps.empty()) kind = "identity";
    std::string extra, keyCls;
    if (mr.diff.differ) { keyCls = "." + classOfName(mr.diff.kwName); extra = "kwclass=" + classOfName(mr.diff.kwName) + " keyword=" + mr.diff.kwName; }
    rep.fail("C01.relayout." + src + "." + kind + "." + mr.cls + keyCls, failDetail(env, src, id, minimal, mr, A, origText, extra + " full_rewrites=[" + stepsText(steps) + "]"));
}

std::vector<std::string> shippedDecks(const Env& env, Reporter& rep) {
    std::vector<std::string> all;
    std::error_code ec;
    const std::string base = env.repo + "/tests";
    if (fs::is_directory(base, ec))
        for (auto& e : fs::directory_iterator(base, ec)) if (e.is_regular_file() && e.path().extension() == ".DATA") all.push_back(e.path().string());
    const std::string it = base + "/parser/data/integration_tests";
    if (fs::is_directory(it, ec))
        for (auto& e : fs::recursive_directory_iterator(it, ec)) if (e.is_regular_file() && e.path().extension() == ".DATA") all.push_back(e.path().string());
    std::sort(all.begin(), all.end());
    rep.count("shipped.available", (long) all.size());
    if (env.thorough) return all;
    std::vector<std::string> sel, rest;
    for (auto& p : all) {
        std::string fn = fs::path(p).filename().string();
        bool must = (fn == "SPE1CASE1.DATA" || fn == "SPE1CASE2.DATA" || fn == "SPE9_CP_PACKED.DATA") && fs::path(p).parent_path().filename() == "tests";
        (must ? sel : rest).push_back(p);
    }
    if (!rest.empty()) {
        size_t start = (size_t) (env.seed % rest.size());
        for (size_t i = 0; i < std::min<size_t>(14, rest.size()); ++i) sel.push_back(rest[(start + i * 5) % rest.size()]);
    }
    std::sort(sel.begin(), sel.end());
    sel.erase(std::unique(sel.begin(), sel.end()), sel.end());
    return sel;
}

std::string relName(const Env& env, const std::string& p) {
    if (p.compare(0, env.repo.size(), env.repo) == 0) return p.substr(env.repo.size() + (p.size() > env.repo.size() && p[env.repo.size()] == '/' ? 1 : 0));
    return fs::path(p).filename().string();
}

const std::vector<int>& generatedKinds() {
    static const std::vector<int> k = { RW_COMMENT_LINE, RW_COMMENT_APPEND, RW_BLANK, RW_WS_EDGE, RW_CRLF, RW_SEP_WS, RW_SEP_COMMA, RW_KWCASE, RW_SPLIT, RW_JOIN,
        RW_AFTER_SLASH, RW_STAR_EXPAND, RW_STAR_CONTRACT, RW_STAR_CONTRACT_QBLANK, RW_DEFAULTS_DROP, RW_DEFAULTS_APPEND, RW_INCLUDE, RW_SPLIT, RW_STAR_EXPAND, RW_STAR_CONTRACT };
    return k;
}
const std::vector<int>& shippedKinds() {
    static const std::vector<int> k = { RW_COMMENT_LINE, RW_COMMENT_APPEND, RW_BLANK, RW_WS_EDGE, RW_CRLF, RW_SEP_WS, RW_SEP_COMMA, RW_KWCASE, RW_SPLIT, RW_JOIN,
        RW_AFTER_SLASH, RW_STAR_EXPAND, RW_DEFAULTS_DROP, RW_DEFAULTS_APPEND };
    return k;
}

// ---------------------------------------------------------------------------
// Comparison of two complete layouts (texts) of the same deck
// ---------------------------------------------------------------------------
struct LayoutCmp { bool fail = false, aOk = false, bOk = false; std::string cls, detail; };

LayoutCmp compareOutcomes(Outcome& oa, Outcome& ob) {
    LayoutCmp r; r.aOk = oa.ok; r.bOk = ob.ok;
    if (oa.ok != ob.ok) { r.fail = true; r.cls = "outcome"; r.detail = std::string("a=") + (oa.ok ? "ok" : "err") + " b=" + (ob.ok ? "ok" : "err"); return r; }
    if (!oa.ok) return r;
    if (oa.guard != ob.guard) { r.fail = true; r.cls = "guard"; r.detail = "error guard differs"; return r; }
    Diff df = diffDeck(canonDeck(*oa.deck), canonDeck(*ob.deck), false);
    if (df.differ) { r.fail = true; r.cls = "differs." + df.what; r.detail = "keyword=" + df.kwName + " where={" + df.where + "}"; }
    return r;
}

// ---------------------------------------------------------------------------
// C01 probe "tailstar": the LAST token of a record is a valueless repeat count n*.
//  (1) records <scalar items> <item of size ALL>: the run of defaults begins in the scalar
//      items and runs over into the ALL item (n = open scalar items + e, e = 1, 2, 3, 7), for
//      every number of explicit scalar values, written as ONE token, written out as 1* 1* ...,
//      and as two tokens (scalar part, ALL part); e = 0 (control): against the record ended early;
//  (2) records of scalar items only: the run is longer than the record (x = 1, 2, 9 too many):
//      all layouts must be refused alike; x = 0 (control) accepted alike.
// Every keyword of the Parser (plus user defined JSON keywords) with such a record, inside a
// generated context (dimension keywords, required keywords).
// ---------------------------------------------------------------------------
int spillScalars(const ParserRecord& pr) {        // scalar items in front of a final ALL item; -1: other shape
    const size_t n = pr.size();
    if (n < 2) return -1;
    for (size_t i = 0; i + 1 < n; ++i) if (pr.get(i).sizeType() != ParserItem::item_size::SINGLE || pr.get(i).dataType() == type_tag::raw_string) return -1;
    if (pr.get(n - 1).sizeType() != ParserItem::item_size::ALL || pr.get(n - 1).dataType() == type_tag::raw_string) return -1;
    return (int) n - 1;
}
bool allScalar(const ParserRecord& pr) {
    if (pr.size() == 0) return false;
    for (const auto& it : pr) if (it.sizeType() != ParserItem::item_size::SINGLE || it.dataType() == type_tag::raw_string) return false;
    return true;
}

const char* kJsonSpill[] = {
    R"({"name":"VTSPILLA","sections":[],"size":1,"items":[{"name":"A","value_type":"INT","default":11},{"name":"B","value_type":"INT","default":22},{"name":"REST","value_type":"DOUBLE","default":0.5,"size_type":"ALL"}]})",
    R"({"name":"VTSPILLB","sections":[],"items":[{"name":"NAME","value_type":"STRING"},{"name":"MODE","value_type":"STRING","default":"NEW"},{"name":"REST","value_type":"STRING","size_type":"ALL"}]})",
    R"({"name":"VTSPILLC","sections":[],"size":2,"items":[{"name":"I","value_type":"INT"},{"name":"X","value_type":"DOUBLE","default":1.5,"dimension":"Length"},{"name":"S","value_type":"STRING","default":"YES"},{"name":"U","value_type":"UDA","default":0.0},{"name":"REST","value_type":"INT","size_type":"ALL"}]})",
    R"({"name":"VTSPILLD","sections":[],"size":1,"items":[{"name":"A","value_type":"DOUBLE"},{"name":"DATA","value_type":"DOUBLE","size_type":"ALL","dimension":"Pressure"}]})",
    R"({"name":"VTSCALAR","sections":[],"items":[{"name":"A","value_type":"INT","default":1},{"name":"B","value_type":"DOUBLE"},{"name":"C","value_type":"STRING","default":"X"},{"name":"D","value_type":"INT"}]})",
};

void tailStarProbe(Reporter& rep, Env& env) {
    // the shipped keywords plus user defined ones
    Parser local;
    for (const char* js : kJsonSpill) {
        try { local.addParserKeyword(Json::JsonObject(std::string(js))); rep.count("tailstar.json_keywords"); }
        catch (const std::exception&) { rep.count("tailstar.json_keyword_rejected"); }
    }
    struct Swap { const Parser* saved; Swap(const Parser* p) : saved(gParser) { gParser = p; } ~Swap() { gParser = saved; } } swap(&local);

    std::vector<std::string> names = P().getAllDeckNames();
    std::sort(names.begin(), names.end());
    std::set<const ParserKeyword*> seen;
    size_t ordinal = 0;
    for (const auto& name : names) {
        const ParserKeyword* pkp = nullptr;
        try { pkp = &P().getParserKeywordFromDeckName(name); } catch (...) { continue; }
        if (!seen.insert(pkp).second) continue;
        const ParserKeyword& pk = *pkp;
        if (pk.rawStringKeyword() || pk.isCodeKeyword() || name == "TITLE") continue;
        // keywords the keyword loop acts upon (files are opened, the process may be ended on a missing file)
        static const std::set<std::string> acts = { "INCLUDE", "IMPORT", "PATHS", "PYINPUT", "PYACTION", "END", "ENDINC", "SKIP", "SKIP100", "SKIP300", "ENDSKIP" };
        if (acts.count(name)) continue;
        bool anySpill = false, anyScalar = false;
        for (const auto& pr : pk) { if (spillScalars(pr) >= 0) anySpill = true; if (allScalar(pr)) anyScalar = true; }
        if (!anySpill && !anyScalar) continue;
        ++ordinal;
        // scalar-only records are the overwhelming majority: the quick tier takes every 6th keyword (offset by the seed)
        if (!anySpill && !env.thorough && (ordinal + env.seed) % 6 != 0) continue;
        vh::Rng rng(caseSeed(env.seed ^ 0x7461696c73746172ull, ordinal));
        Gen g(rng, rep);
        std::vector<Block> blocks;
        g.genKeyword("RUNSPEC", blocks); g.genKeyword("TABDIMS", blocks); g.genKeyword("EQLDIMS", blocks);
        if (pk.getSizeType() == OTHER_KEYWORD_IN_DECK) { const std::string sk = pk.getKeywordSize().keyword(); if (!g.present.count(sk)) g.genKeyword(sk, blocks); }
        for (const auto& k : pk.requiredKeywords()) if (!g.present.count(k)) g.genKeyword(k, blocks);
        if (g.present.count(name) || !g.genKeyword(name, blocks)) { rep.count("tailstar.keyword_not_generated"); continue; }
        Block& tb = blocks.back();
        if (tb.name != name) { rep.count("tailstar.keyword_not_generated"); continue; }
        std::vector<size_t> sites;
        for (size_t li = 0; li < tb.lines.size(); ++li) { const Line& l = tb.lines[li]; if (l.kind == 'd' && l.prec && (spillScalars(*l.prec) >= 0 || allScalar(*l.prec))) sites.push_back(li); }
        if (sites.empty()) { rep.count("tailstar.no_record_generated"); continue; }
        if (sites.size() > 2) { size_t a = sites.front(), b = sites.back(); sites = { a, b }; }
        rep.count(anySpill ? "tailstar.keywords_with_all_item" : "tailstar.keywords_scalar_only");
        auto render = [&](size_t li, const std::vector<std::string>& toks) {
            std::vector<Block> copy = blocks;
            const Line& o = blocks.back().lines[li];
            copy.back().lines[li] = g.recordLine(toks, o.rec, o.prec);
            RenderCtx rc; std::string text; renderBlocks(copy, text, rc);
            return text;
        };
        auto stars = [](long n) { return std::to_string(n) + "*"; };
        for (size_t li : sites) {
            const ParserRecord& pr = *tb.lines[li].prec;
            const int s = spillScalars(pr);
            const bool spill = s >= 0;
            const long N = spill ? s : (long) pr.size();      // scalar items
            std::set<long> js = { 0, N, (long) rng.range(0, (int) N) };
            if (N >= 1) js.insert(N - 1);
            for (long j : js) {
                std::vector<std::string> vals;
                for (long i = 0; i < j; ++i) vals.push_back(g.genValue(pr.get((size_t) i), true));
                const long open = N - j;
                for (long e : { 0L, 1L, 2L, 3L, 7L + (long) rng.below(3) }) {
                    if (open + e == 0) continue;
                    // layouts: one token | written out | scalar part and rest as two tokens | record ended early (e = 0)
                    std::vector<std::pair<std::string, std::vector<std::string>>> lay;
                    { auto t = vals; t.push_back(stars(open + e)); lay.emplace_back("one_token", t); }
                    { auto t = vals; for (long k = 0; k < open + e; ++k) t.push_back("1*"); lay.emplace_back("written_out", t); }
                    if (open > 0 && e > 0) { auto t = vals; t.push_back(stars(open)); t.push_back(stars(e)); lay.emplace_back("two_tokens", t); }
                    if (e > 1) { auto t = vals; for (long k = 0; k < open + 1; ++k) t.push_back("1*"); t.push_back(stars(e - 1)); lay.emplace_back("written_then_token", t); }
                    if (e == 0 && !vals.empty()) lay.emplace_back("ended_early", vals);
                    const std::string ref = render(li, lay[1].second);
                    Outcome oref = parseText(ref);
                    const std::string kind = spill ? (e == 0 ? "run_to_all_item_control" : "run_into_all_item") : (e == 0 ? "run_to_record_end_control" : "run_past_record_end");
                    for (size_t q = 0; q < lay.size(); ++q) {
                        if (q == 1) continue;
                        const std::string txt = render(li, lay[q].second);
                        Outcome o = parseText(txt);
                        LayoutCmp c = compareOutcomes(o, oref);
                        rep.count("tailstar." + kind + (c.aOk ? (c.bOk ? ".both_ok" : ".ok_err") : (c.bOk ? ".err_ok" : ".both_err")));
                        if (!c.fail) { rep.ok(); continue; }
                        std::string rec; for (const auto& t : lay[q].second) rec += t + " ";
                        rep.fail("C01.relayout.tailstar." + kind + "." + lay[q].first + "." + c.cls + "." + classOf(pk, name),
                                 "seed=" + std::to_string(env.seed) + " keyword=" + name + " record=" + std::to_string(tb.lines[li].rec) + " scalar_items=" + std::to_string(N) + " explicit=" + std::to_string(j) +
                                 " run=" + std::to_string(open + e) + " a={" + rec + "/} b=written_out " + c.detail + " a_hex=" + hexTrunc(txt) + " b_hex=" + hexTrunc(ref));
                    }
                    // the same with a repeated VALUE as the last token, n*v against v written n times, where one
                    // literal suits every item the run covers
                    {
                        bool allNum = true, allStr = true;
                        const long upto = spill ? N + 1 : N;
                        for (long i = j; i < upto; ++i) {
                            const auto ty = pr.get((size_t) i).dataType();
                            if (ty == type_tag::string) allNum = false;
                            else if (ty == type_tag::integer || ty == type_tag::fdouble || ty == type_tag::uda) allStr = false;
                            else allNum = allStr = false;
                        }
                        const std::string lit = j >= upto ? "" : allNum ? "3" : allStr ? "'S'" : "";
                        if (!lit.empty()) {
                            auto ta = vals; ta.push_back(std::to_string(open + e) + "*" + lit);
                            auto tb2 = vals; for (long k = 0; k < open + e; ++k) tb2.push_back(lit);
                            const std::string txa = render(li, ta), txb = render(li, tb2);
                            Outcome oa = parseText(txa), ob = parseText(txb);
                            LayoutCmp c = compareOutcomes(oa, ob);
                            const std::string vkind = spill ? (e == 0 ? "value_run_to_all_item_control" : "value_run_into_all_item") : (e == 0 ? "value_run_to_record_end_control" : "value_run_past_record_end");
                            rep.count("tailstar." + vkind + (c.aOk ? (c.bOk ? ".both_ok" : ".ok_err") : (c.bOk ? ".err_ok" : ".both_err")));
                            if (!c.fail) rep.ok();
                            else rep.fail("C01.relayout.tailstar." + vkind + ".one_token." + c.cls + "." + classOf(pk, name),
                                          "seed=" + std::to_string(env.seed) + " keyword=" + name + " record=" + std::to_string(tb.lines[li].rec) + " scalar_items=" + std::to_string(N) + " explicit=" + std::to_string(j) +
                                          " a={... " + ta.back() + " /} b=written_out " + c.detail + " a_hex=" + hexTrunc(txa) + " b_hex=" + hexTrunc(txb));
                        }
                    }
                }
            }
        }
    }
}

// ---------------------------------------------------------------------------
// C01 probe "include": one deck text against layouts of it over INCLUDE files on disk in which
// the SAME file is read more than once - closed by its end, by ENDINC, by ENDINC with text
// behind it (never read) -, from the same and from different parents, through nested chains,
// under different spellings of its path (relative, ./, absolute, dir/../, PATHS aliases), and
// files of the same name in different directories.  Genuinely recursive chains have no
// one-piece text: every spelling of them must be refused (run in a child process with a
// memory and time limit: without the refusal the parser reads for ever).
// ---------------------------------------------------------------------------
struct IncCase {
    std::string id;
    std::string root;                                              // text of the root file; @DIR@ = directory of the case
    std::vector<std::pair<std::string, std::string>> files;       // relative name -> text
    std::string ref;                                               // the one-piece text; empty: recursive, must be refused
};

std::string replaceAllStr(std::string s, const std::string& a, const std::string& b) {
    for (size_t p = 0; (p = s.find(a, p)) != std::string::npos; p += b.size()) s.replace(p, a.size(), b);
    return s;
}

// exit status of the child: 0 parsed, 1 refused, anything else: killed / limit
int parseInChild(const std::string& path) {
    std::cout.flush(); std::cerr.flush();
    pid_t pid = fork();
    if (pid < 0) return 99;
    if (pid == 0) {
        struct rlimit rl; rl.rlim_cur = rl.rlim_max = (rlim_t) 3 << 30; setrlimit(RLIMIT_AS, &rl);
        rl.rlim_cur = rl.rlim_max = 4; setrlimit(RLIMIT_CPU, &rl);
        int code = 1;
        ParseContext ctx; ErrorGuard eg;
        try { Deck d = P().parseFile(path, ctx, eg); code = 0; }
        catch (const std::bad_alloc&) { code = 3; }          // memory used up is not a refusal
        catch (const std::exception&) { code = 1; }
        catch (...) { code = 1; }
        _exit(code);
    }
    int st = 0;
    if (waitpid(pid, &st, 0) < 0) return 98;
    if (WIFEXITED(st)) return WEXITSTATUS(st);
    return 100 + (WIFSIGNALED(st) ? WTERMSIG(st) : 0);
}

void includeProbe(Reporter& rep, Env& env) {
    const int nDecks = env.thorough ? 400 : 40;
    int neverEnds = 0;      // each costs the CPU limit of the child: two are evidence enough
    for (int c = 0; c < nDecks; ++c) {
        if (!env.timeLeft(0.35)) { rep.count("include.stopped_by_budget"); break; }
        vh::Rng rng(caseSeed(env.seed ^ 0x696e636c75646573ull, (uint64_t) c));
        std::string fault;
        std::vector<Block> blocks = genDeck(rng, rep, rng.range(5, 11), false, fault);
        if (blocks.size() < 5) continue;
        // five runs of whole keywords: H X M Y T (X and Y are the texts that go into the re-read files)
        std::set<size_t> cuts;
        while (cuts.size() < 4) cuts.insert((size_t) rng.range(1, (int) blocks.size() - 1));
        std::vector<size_t> cv(cuts.begin(), cuts.end());
        auto part = [&](size_t a, size_t b) { std::vector<Block> sub(blocks.begin() + (long) a, blocks.begin() + (long) b); RenderCtx rc; std::string t; renderBlocks(sub, t, rc); return t; };
        const std::string H = part(0, cv[0]), X = part(cv[0], cv[1]), M = part(cv[1], cv[2]), Y = part(cv[2], cv[3]), T = part(cv[3], blocks.size());
        const bool xTitleLast = blocks[cv[1] - 1].title, yTitleLast = blocks[cv[3] - 1].title, mTitleLast = blocks[cv[2] - 1].title;
        rep.count("include.decks");

        static const std::vector<std::string> junk = { "NOSUCHKW\n 1 2 /\n", "DIMENS\n 1 2 3 4 5 6 /\n", "INCLUDE\n 'does/not/exist.inc' /\n", "-- c\n\nthis is 'no deck\n", "END\n", "WELSPECS\n 'W' /\n" };
        // closing of a file: 0 its end, 1 its end without a final newline, 2 ENDINC, 3 ENDINC + text never read
        auto closed = [&](const std::string& body, int kind, bool titleLast) {
            switch (kind) {
            case 1: if (!titleLast && !body.empty() && body.back() == '\n' && !(body.size() >= 2 && body[body.size() - 2] == '\r')) return body.substr(0, body.size() - 1); return body;
            case 2: return body + rng.pick(std::vector<std::string>{ "ENDINC\n", "ENDINC -- end of the file\n", "endinc\n", "  ENDINC  \n\n" });
            case 3: return body + "ENDINC\n" + rng.pick(junk) + rng.pick(junk);
            default: return body;
            }
        };
        static const char* kindName[] = { "eof", "eof_no_newline", "endinc", "endinc_then_text" };
        auto anyKind = [&]() { return (int) rng.below(4); };
        // INCLUDE statement; the path is spelled in one of several ways that name the same file
        auto inc = [&](const std::string& rel, int spelling = -1) {
            if (spelling < 0) spelling = (int) rng.below(5);
            std::string p;
            switch (spelling) {
            case 0: p = rel; break;
            case 1: p = "./" + rel; break;
            case 2: p = "@DIR@/" + rel; break;
            case 3: p = "sub/../" + rel; break;
            default: p = "@DIR@/sub/.././" + rel; break;
            }
            switch (rng.below(4)) {
            case 0: return "INCLUDE\n '" + p + "' /\n";
            case 1: return "include -- again\n   '" + p + "'   / text\n";
            case 2: return "INCLUDE\n'" + p + "'\n/\n\n";
            default: return "INCLUDE\n  '" + p + "' /\n";
            }
        };

        std::vector<IncCase> cases;
        for (int xk = 0; xk < 4; ++xk) {
            const std::string x = closed(X, xk, xTitleLast);
            const std::string kn = kindName[xk];
            { IncCase k; k.id = "twice." + kn; k.root = H + inc("x.inc") + M + inc("x.inc") + T; k.files = { { "x.inc", x } }; k.ref = H + X + M + X + T; cases.push_back(k); }
            { IncCase k; k.id = "thrice." + kn; k.root = H + inc("x.inc") + inc("x.inc") + M + inc("x.inc") + T; k.files = { { "x.inc", x } }; k.ref = H + X + X + M + X + T; cases.push_back(k); }
            { IncCase k; k.id = "second_from_nested_file." + kn; k.root = H + inc("x.inc") + inc("p.inc") + T;
              k.files = { { "x.inc", x }, { "p.inc", closed(M + inc("x.inc") + Y, anyKind(), yTitleLast) } }; k.ref = H + X + M + X + Y + T; cases.push_back(k); }
            { IncCase k; k.id = "two_parents." + kn; k.root = H + inc("a.inc") + inc("b.inc") + T;
              k.files = { { "x.inc", x }, { "a.inc", closed(inc("x.inc") + M, anyKind(), mTitleLast) }, { "b.inc", closed(Y + inc("x.inc"), rng.coin() ? 0 : 2, false) } };
              k.ref = H + X + M + Y + X + T; cases.push_back(k); }
            { IncCase k; k.id = "chain_reentered." + kn; k.root = H + inc("a.inc") + M + inc("b.inc") + T;
              k.files = { { "x.inc", x }, { "a.inc", closed(inc("b.inc"), rng.coin() ? 0 : 2, false) }, { "b.inc", closed(Y + inc("x.inc"), rng.coin() ? 0 : 3, false) } };
              k.ref = H + Y + X + M + Y + X + T; cases.push_back(k); }
            { IncCase k; k.id = "paths_alias." + kn;
              const std::string paths = "PATHS\n 'FRAG' '@DIR@/sub' /\n 'ALT' '@DIR@/sub/../sub' /\n/\n";
              auto incp = [&](const std::string& p) { return "INCLUDE\n '" + p + "' /\n"; };
              k.root = paths + H + incp("$FRAG/x.inc") + M + incp(rng.coin() ? "sub/x.inc" : "@DIR@/sub/x.inc") + incp("$ALT/x.inc") + T;
              k.files = { { "sub/x.inc", x } }; k.ref = paths + H + X + M + X + X + T; cases.push_back(k); }
            { IncCase k; k.id = "same_name_other_directory." + kn; k.root = H + inc("d1/f.inc", 0) + T;
              k.files = { { "d1/f.inc", closed(X + inc("d2/f.inc", rng.coin() ? 0 : 2) + M, anyKind(), mTitleLast) }, { "d2/f.inc", closed(Y, xk, yTitleLast) } };
              k.ref = H + X + Y + M + T; cases.push_back(k); }
        }
        // genuinely recursive: to be refused under every spelling
        {
            const int sp = (int) rng.below(5);
            const std::string back = rng.pick(std::vector<std::string>{ "", "ENDINC\n", M });
            { IncCase k; k.id = "recursive.self"; k.root = H + inc("x.inc") + T; k.files = { { "x.inc", X + inc("x.inc", sp) + back } }; cases.push_back(k); }
            { IncCase k; k.id = "recursive.cycle_of_two"; k.root = H + inc("x.inc") + T; k.files = { { "x.inc", X + inc("y.inc") + back }, { "y.inc", Y + inc("x.inc", sp) } }; cases.push_back(k); }
            { IncCase k; k.id = "recursive.after_legal_reading"; k.root = H + inc("y.inc") + inc("y.inc") + inc("x.inc") + T;
              k.files = { { "y.inc", Y + "ENDINC\n" }, { "x.inc", X + inc("y.inc") + inc("p.inc") }, { "p.inc", M + inc("x.inc", sp) } }; cases.push_back(k); }
            { IncCase k; k.id = "recursive.paths_alias"; k.root = "PATHS\n 'FRAG' '@DIR@/sub' /\n/\n" + H + "INCLUDE\n '$FRAG/x.inc' /\n" + T;
              k.files = { { "sub/x.inc", X + (rng.coin() ? "INCLUDE\n '$FRAG/x.inc' /\n" : "INCLUDE\n 'sub/x.inc' /\n") + back } }; cases.push_back(k); }
        }

        std::map<std::string, std::pair<Outcome, bool>> refs;     // ref text -> outcome (parsed once)
        for (size_t ci = 0; ci < cases.size(); ++ci) {
            const IncCase& k = cases[ci];
            const std::string dir = env.tmp + "/inc" + std::to_string(c) + "_" + std::to_string(ci);
            std::error_code ec;
            fs::create_directories(dir + "/sub", ec);
            for (const auto& f : k.files) { fs::create_directories(fs::path(dir + "/" + f.first).parent_path(), ec); vh::spit(dir + "/" + f.first, replaceAllStr(f.second, "@DIR@", dir)); }
            const std::string rootPath = dir + "/CASE.DATA";
            vh::spit(rootPath, replaceAllStr(k.root, "@DIR@", dir));
            auto filesHex = [&]() { std::string s = " root_hex=" + hexTrunc(k.root, 900); for (const auto& f : k.files) s += " file[" + f.first + "]_hex=" + hexTrunc(f.second, 500); return s; };
            if (k.ref.empty()) {
                if (neverEnds >= 2) { rep.count("include.recursive.not_run_after_never_ends"); fs::remove_all(dir, ec); continue; }
                const int st = parseInChild(rootPath);
                if (st != 0 && st != 1) ++neverEnds;
                rep.count(std::string("include.recursive.") + (st == 1 ? "refused" : st == 0 ? "accepted" : "killed"));
                if (st == 1) rep.ok();
                else rep.fail("C01.relayout.include." + k.id + (st == 0 ? ".accepted" : ".never_ends"),
                              "seed=" + std::to_string(env.seed) + " case=" + std::to_string(c) + " a file that includes itself has no one-piece text; child status=" + std::to_string(st) + filesHex());
            } else {
                const std::string refText = replaceAllStr(k.ref, "@DIR@", dir);
                Outcome oref = parseText(refText);
                Outcome o = parsePath(rootPath);
                LayoutCmp cmp = compareOutcomes(o, oref);
                rep.count("include.layouts");
                rep.count(std::string("include.outcome.") + (cmp.aOk ? (cmp.bOk ? "both_ok" : "layout_ok_onepiece_err") : (cmp.bOk ? "layout_err_onepiece_ok" : "both_err")));
                if (!cmp.fail) rep.ok();
                else rep.fail("C01.relayout.include." + k.id + "." + cmp.cls,
                              "seed=" + std::to_string(env.seed) + " case=" + std::to_string(c) + " a=include_layout b=one_piece " + cmp.detail + filesHex() + " onepiece_hex=" + hexTrunc(k.ref, 900));
            }
            fs::remove_all(dir, ec);
        }
    }
}

void prop01(Reporter& rep, Env& env) {
    // fixed pairs of layouts of the same deck (always run): a quoted string holding the OTHER quote character,
    // followed on the same line by a comment / by text behind the terminating slash / by further items
    {
        struct Pair { const char* id; std::string a, b; };
        const std::vector<Pair> fixed = {
            { "dq_in_sq_odd_comment", "GRUPTREE\n 'P-3.5\"' 'FIELD' /\n/\n", "GRUPTREE\n 'P-3.5\"' 'FIELD' / -- the 3.5\" string\n/\n" },
            { "dq_in_sq_odd_after_slash", "GRUPTREE\n 'MANI-6\"' 'FIELD' /\n/\n", "GRUPTREE\n 'MANI-6\"' 'FIELD' / text 'behind / the slash\n/\n" },
            { "dq_in_sq_odd_then_comment_with_slash", "WELSPECS\n 'P-3.5\"' 'G' 1 1 1* 'OIL' /\n/\n", "WELSPECS\n 'P-3.5\"' 'G' 1 1 1* 'OIL' -- 'a / b'\n /\n/\n" },
            { "dq_in_sq_even_comment", "GRUPTREE\n 'say \"hi\"' 'FIELD' /\n/\n", "GRUPTREE\n 'say \"hi\"' 'FIELD' / -- \"c\" '\n/\n" },
            { "dq_odd_two_strings", "GRUPTREE\n 'A\"' 'B -- x' /\n/\n", "GRUPTREE\n 'A\"'\n 'B -- x' / tail\n/\n" },
            { "sq_in_bare_dq_even_comment", "GRUPTREE\n \"it''s\" 'FIELD' /\n/\n", "GRUPTREE\n \"it''s\" 'FIELD' / -- c\n/\n" },
            { "bare_dq_with_dashes", "GRUPTREE\n \"a--b\" 'FIELD' /\n/\n", "GRUPTREE\n \"a--b\"   'FIELD' / -- c\n/\n" } };
        for (const auto& f : fixed) {
            Outcome oa = parseText(f.a), ob = parseText(f.b);
            rep.count("fixed.pairs");
            std::string key, detail;
            if (oa.ok != ob.ok) { key = "outcome"; detail = std::string("a=") + (oa.ok ? "ok" : "err") + " b=" + (ob.ok ? "ok" : "err"); }
            else if (oa.ok) {
                Diff df = diffDeck(canonDeck(*oa.deck), canonDeck(*ob.deck), false);
                if (df.differ) { key = "differs." + df.what; detail = "where={" + df.where + "}"; }
            }
            if (!key.empty()) rep.fail(std::string("C01.relayout.fixed.") + f.id + "." + key, "seed=" + std::to_string(env.seed) + " " + detail + " a_hex=" + vh::hex(f.a) + " b_hex=" + vh::hex(f.b));
            else rep.ok();
        }
    }
    // the last token of a record is a valueless repeat count: run of defaults over the scalar/ALL boundary, over the record end
    tailStarProbe(rep, env);
    rep.count("tailstar_ms", (long) ((nowSec() - env.t0) * 1000));
    // layouts over INCLUDE files in which a file is read more than once / recursively
    includeProbe(rep, env);
    rep.count("include_ms", (long) ((nowSec() - env.t0) * 1000));
    // (a)+(b) generated decks
    const int nGen = env.thorough ? 12000 : 1200;
    for (int c = 0; c < nGen; ++c) {
        if (!env.timeLeft(0.6)) { rep.count("generated.stopped_by_budget"); break; }
        vh::Rng rng(caseSeed(env.seed, (uint64_t) c));
        std::string fault;
        std::vector<Block> blocks = genDeck(rng, rep, rng.range(2, 14), true, fault, true);
        RenderCtx rc; std::string text;
        renderBlocks(blocks, text, rc);
        Outcome oa = parseText(text);
        Ref A = makeRef(oa);
        rep.count("generated.decks");
        rep.count(A.ok ? "generated.orig_ok" : "generated.orig_err");
        if (!fault.empty()) rep.count("generated.fault." + fault);
        if (!A.ok && fault.empty()) { rep.count("generated.orig_err_unplanned"); if (std::getenv("DECKPROP_DUMP")) vh::spit(env.outdir + "/unplanned_" + std::to_string(c) + ".txt", text); }
        int comps = 2;
        for (int k = 0; k < comps; ++k) {
            std::vector<Step> steps = randomSteps(rng, generatedKinds(), k == 0 ? 1 : 6);
            checkComposition(rep, env, "generated", "case" + std::to_string(c) + "." + std::to_string(k), blocks, A, text, steps, "g" + std::to_string(c) + "_");
        }
    }
    rep.count("generated_ms", (long) ((nowSec() - env.t0) * 1000));
    // (c) shipped decks
    auto decks = shippedDecks(env, rep);
    for (const auto& path : decks) {
        if (!env.timeLeft(0.97)) { rep.count("shipped.stopped_by_budget"); break; }
        const std::string id = relName(env, path);
        double t = nowSec();
        Outcome oa = parsePath(path);
        double dt = nowSec() - t;
        if (dt > 10.0) { rep.count("shipped.skipped_slow"); continue; }
        rep.count("shipped.decks");
        if (!oa.ok) {
            // same class after a (trivial) re-layout: comment and blank lines in front
            rep.count("shipped.unparseable");
            std::string content = vh::slurp(path);
            Outcome ob = parseText("-- c\n\n" + content);
            if (ob.ok) rep.fail("C01.relayout.shipped.unparseable.outcome", "seed=" + std::to_string(env.seed) + " deck=" + id + " parseFile=err parseString(relayout)=ok");
            else rep.ok();
            continue;
        }
        Ref A = makeRef(oa);
        ShipCtx cx; cx.deck = oa.deck.get(); cx.rootDir = fs::canonical(path).parent_path().string();
        for (const auto& ck : P().codeKeywords()) cx.codeNames.insert(ck.first);
        std::vector<Block> blocks;
        if (!buildFile(path, cx, 0, blocks)) { rep.count("shipped.unmappable." + cx.why); continue; }
        // self check: the structure renders to the file it came from
        { RenderCtx rc; rc.dir = "<TMP>"; rc.prefix = "x"; std::string back; renderBlocks(blocks, back, rc);
          if (back != vh::slurp(fs::canonical(path).string())) {
              // with includes the main text differs in the INCLUDE path only; check without them
              bool hasInc = false; for (auto& b : blocks) if (b.isInclude) hasInc = true;
              if (!hasInc) { rep.count("shipped.structure_mismatch"); continue; }
          } }
        rep.count("shipped.mapped");
        rep.count("shipped.files", cx.files);
        { long nk = 0, nd = 0, nx = 0; std::vector<Site> ss; collectSites(blocks, ss); for (auto& s : ss) { char k = s.b->lines[s.li].kind; if (k == 'k') ++nk; else if (k == 'd') ++nd; else if (k == 'x') ++nx; }
          rep.count("shipped.lines.keyword", nk); rep.count("shipped.lines.data", nd); rep.count("shipped.lines.verbatim", nx); }
        uint64_t h = 1469598103934665603ull; for (unsigned char ch : id) { h ^= ch; h *= 1099511628211ull; }
        vh::Rng rng(caseSeed(env.seed, h));
        // identity: parseString of the unchanged text (INCLUDE paths absolute) against parseFile
        checkComposition(rep, env, "shipped", id + "#identity", blocks, A, "", {}, "s_");
        std::error_code fec;
        const auto fsize = fs::file_size(path, fec);
        const bool big = !fec && fsize > 300000;
        const int trials = env.thorough ? (big ? 4 : 8) : (big ? 2 : 3);
        for (int k = 0; k < trials; ++k) {
            if (!env.timeLeft(0.97)) break;
            std::vector<Step> steps = randomSteps(rng, shippedKinds(), k == 0 ? 1 : 6);
            checkComposition(rep, env, "shipped", id + "#" + std::to_string(k), blocks, A, "", steps, "s_");
        }
    }
}

// ---------------------------------------------------------------------------
// C19 driver: print -> parse -> compare, print again -> fixpoint
// ---------------------------------------------------------------------------
const std::set<std::string>& contextNames() {
    static std::set<std::string> s;
    if (s.empty()) {
        s = { "METRIC", "FIELD", "LAB", "PVT-M", "ROCKOPTS", "TABDIMS" };
        for (const auto& n : P().getAllDeckNames()) {
            try { const auto& k = P().getKeyword(n); if (k.getSizeType() == OTHER_KEYWORD_IN_DECK) s.insert(k.getKeywordSize().keyword()); } catch (...) {}
        }
    }
    return s;
}

struct C19Result { bool fail = false; std::string stage, what, where, kwName, t1; size_t kwIndex = 0; };

// features of a keyword that are known to matter for the printer; named in the FAIL key
std::string causeTag(const Deck& sub, const std::string& where = std::string()) {
    if (sub.size() == 0) return "";
    const DeckKeyword& kw = sub[sub.size() - 1];
    const ParserKeyword* pk = nullptr;
    try { pk = &P().getParserKeywordFromDeckName(kw.name()); } catch (...) {}
    // a string value holding an apostrophe (a bare word such as D''ARCY or "it''s": pairs of ' pass even_quotes) is
    // written between apostrophes without any escape - the format has none - and comes back as several tokens
    // (the keywords in front - TABDIMS, ENDSCALE ... - are printed and re-parsed with the keyword under test)
    for (const auto& anyKw : sub) for (size_t ri = 0; ri < anyKw.size(); ++ri)
        for (const auto& it : anyKw.getRecord(ri))
            if (it.getType() == type_tag::string) {
                try { for (const auto& v : it.getData<std::string>()) if (v.find('\'') != std::string::npos) return ".string_with_apostrophe"; } catch (...) {}
            }
    if (kw.name() == "TITLE") {
        size_t pi = sub.size() - 1;
        while (pi > 0 && sub[pi - 1].size() == 0) --pi;
        if (pi > 0) {
            const DeckKeyword& prev = sub[pi - 1];
            if (prev.size() > 0) {
                const DeckRecord& r = prev.getRecord(prev.size() - 1);
                // the last value of the record (items without values skipped) is defaulted: the writer keeps a pending repeat count
                for (size_t ii = r.size(); ii > 0; --ii) {
                    const DeckItem& it = r.getItem(ii - 1);
                    if (it.data_size() == 0) continue;
                    if (it.defaultApplied(it.data_size() - 1)) return ".after_pending_default";
                    break;
                }
            }
        }
        return "";
    }
    bool tagA = false, tagB = false, tagC = false;
    size_t schemaIdx = 0;
    for (size_t ri = 0; ri < kw.size(); ++ri) {
        const DeckRecord& r = kw.getRecord(ri);
        if (r.size() == 0) { schemaIdx = 0; continue; }
        bool any = false;
        for (const auto& it : r) for (auto st : it.getValueStatus()) if (st == value::status::deck_value) any = true;
        if (!any && !(pk && pk->isTableCollection())) tagA = true;
        const DeckItem& last = r.getItem(r.size() - 1);
        bool isAll = false;
        if (pk && std::distance(pk->begin(), pk->end()) > 0) {
            try { const ParserRecord& pr = pk->getRecord(schemaIdx); if (pr.size() == r.size()) isAll = pr.get(pr.size() - 1).sizeType() == ParserItem::item_size::ALL; } catch (...) {}
        }
        // an item of size ALL ending in defaulted values.  Since 14c7867b0 the writer keeps them when the
        // item holds several values (`data_size() > 1`: flush_defaults) - that case must pass and stays
        // armed under its own key; an item of size ALL holding exactly ONE value, defaulted, behind an
        // explicit value is still printed without its `1*` (recorded finding, own key).
        if (isAll && last.data_size() >= 2 && last.defaultApplied(last.data_size() - 1)) tagB = true;
        if (isAll && last.data_size() == 1 && last.defaultApplied(0) && any) tagC = true;
        ++schemaIdx;
    }
    if (tagA) return ".alldefault_record";
    if (tagB || tagC) {
        // a keyword can hold records of both kinds: the failing item tells (a = values written, b = read back)
        const std::string lost = " a=1 b=0";
        const bool lostTheOnlyValue = where.size() >= lost.size() && where.compare(where.size() - lost.size(), lost.size(), lost) == 0;
        if (tagC && (lostTheOnlyValue || !tagB)) return ".all_item_single_trailing_default";
        return ".all_item_trailing_default";
    }
    return "";
}

C19Result c19Once(const Deck& d) {
    C19Result r;
    std::string t1, t2;
    if (!printDeck(d, t1)) { r.fail = true; r.stage = "print"; r.what = "err"; return r; }
    r.t1 = t1;
    Outcome B = parseText(t1);
    if (!B.ok) { r.fail = true; r.stage = "reparse"; r.what = "err"; return r; }
    if (B.guard) { r.fail = true; r.stage = "reparse"; r.what = "guard"; return r; }
    const bool p2 = printDeck(*B.deck, t2);
    DeckC ca = canonDeck(d), cb = canonDeck(*B.deck);
    Diff df = diffDeck(ca, cb, true);
    if (df.differ) { r.fail = true; r.stage = "roundtrip"; r.what = df.what; r.where = df.where; r.kwName = df.kwName; r.kwIndex = df.kwIndex; return r; }
    // (a') the same round trip on a copy of the Deck on which a consumer has asked every floating point item for its
    // SI values first (what TableManager / EclipseState / Schedule construction does): the storage is then in the
    // SI state and DeckItem::write has to convert it back with the dimension of each column.
    {
        Deck used = d;
        long touched = 0;
        for (const auto& kw : used) for (const auto& rec : kw) for (const auto& it : rec) {
            try {
                if (it.getType() == type_tag::fdouble) { (void) it.getSIDoubleData(); ++touched; }
                else if (it.getType() == type_tag::uda) { for (size_t i = 0; i < it.data_size(); ++i) { auto u = it.get<UDAValue>(i); if (u.is<double>()) (void) u.getSI(); } }
            } catch (...) {}
        }
        if (touched > 0) {
            std::string t3;
            if (!printDeck(used, t3)) { r.fail = true; r.stage = "print_after_si"; r.what = "err"; return r; }
            Outcome C = parseText(t3);
            if (!C.ok) { r.fail = true; r.stage = "reparse_after_si"; r.what = "err"; r.t1 = t3; return r; }
            DeckC cc = canonDeck(*C.deck);
            Diff d3 = diffDeck(ca, cc, true);
            if (d3.differ) {
                r.fail = true; r.stage = "roundtrip_after_si"; r.what = d3.what; r.where = d3.where; r.kwName = d3.kwName; r.kwIndex = d3.kwIndex; r.t1 = t3;
                // values at the ends of the double range leave it in SI units (DBL_MIN mD -> subnormal m2, 1.5e308 ft -> inf):
                // the in-place conversion cannot bring them back.  Own class, like double_overflow.
                const auto pa = d3.where.find(" a=");
                if ((d3.what == "double" || d3.what == "uda" || d3.what == "double_overflow") && pa != std::string::npos && d3.where.size() >= pa + 19) {
                    uint64_t bits = std::strtoull(d3.where.substr(pa + 3, 16).c_str(), nullptr, 16);
                    double a; std::memcpy(&a, &bits, 8);
                    if (std::isfinite(a) && a != 0.0 && (std::fabs(a) < 1e-280 || std::fabs(a) > 1e280)) r.what = "si_range";
                }
                return r;
            }
        }
    }
    if (!p2) { r.fail = true; r.stage = "fixpoint"; r.what = "print_err"; return r; }
    if (t2 != t1) {
        r.fail = true; r.stage = "fixpoint"; r.what = "text";
        size_t i = 0; while (i < t1.size() && i < t2.size() && t1[i] == t2[i]) ++i;
        size_t b = i > 40 ? i - 40 : 0;
        r.where = "offset=" + std::to_string(i) + " t1=" + vh::hex(t1.substr(b, 80)) + " t2=" + vh::hex(t2.substr(b, 80));
        return r;
    }
    return r;
}

// keyword i together with the keywords before it that size / scale it
Deck subDeck(const Deck& d, size_t i) {
    Deck s;
    std::set<std::string> need;
    try { for (const auto& r : P().getParserKeywordFromDeckName(d[i].name()).requiredKeywords()) need.insert(r); } catch (...) {}
    for (size_t j = 0; j < i; ++j) if (contextNames().count(d[j].name()) || need.count(d[j].name())) s.addKeyword(d[j]);
    s.addKeyword(d[i]);
    return s;
}

void c19Report(Reporter& rep, const Env& env, const std::string& src, const std::string& id, const std::string& cls, const std::string& kw, const C19Result& r, const std::string& origText, const std::string& tag = "") {
    const bool anyCls = r.what == "double_overflow" || r.what == "si_range";
    std::string key = "C19." + r.stage + "." + src + "." + (anyCls ? std::string("ANY") : cls) + "." + r.what + (anyCls ? std::string() : tag);
    std::ostringstream o;
    o << "seed=" << env.seed << " tier=" << (env.thorough ? "thorough" : "quick") << " src=" << src << " id=" << id << " keyword=" << kw << " class=" << cls << " stage=" << r.stage << " what=" << r.what;
    if (!r.where.empty()) o << " where={" << r.where << "}";
    if (!origText.empty()) o << " orig_hex=" << hexTrunc(origText, 1000);
    o << " printed_hex=" << hexTrunc(r.t1, 1500);
    rep.fail(key, o.str());
}

// whole deck, and every keyword on its own (so that a defect of one keyword class does not hide the others)
void c19Deck(Reporter& rep, const Env& env, const std::string& src, const std::string& id, const Deck& d, const std::string& origText, bool perKeyword) {
    C19Result whole;
    try { whole = c19Once(d); } catch (...) { whole.fail = true; whole.stage = "harness"; whole.what = "exception"; }
    rep.count(std::string("c19.") + src + (whole.fail ? ".deck_fail" : ".deck_ok"));
    bool attributed = false;
    if (perKeyword || whole.fail) {
        for (size_t i = 0; i < d.size(); ++i) {
            const std::string nm = d[i].name();
            if (!perKeyword && i > 4000) break;
            C19Result r; std::string tag;
            try { Deck s = subDeck(d, i); r = c19Once(s); if (r.fail) tag = causeTag(s, r.where); } catch (...) { r.fail = true; r.stage = "harness"; r.what = "subdeck_exception"; }
            const std::string cls = classOfName(nm);
            if (perKeyword) rep.count("c19.keyword." + cls);
            if (r.fail) { c19Report(rep, env, src, id + "#kw" + std::to_string(i), cls, nm, r, "", tag); attributed = true; }
            else if (perKeyword) rep.ok();
        }
    }
    if (whole.fail && !attributed) {
        std::string tag;
        if (!whole.kwName.empty() && whole.kwIndex < d.size()) {
            try { Deck two; size_t pi = whole.kwIndex; while (pi > 0 && d[pi - 1].size() == 0) --pi; if (pi > 0) two.addKeyword(d[pi - 1]); two.addKeyword(d[whole.kwIndex]); tag = causeTag(two, whole.where); } catch (...) {}
        }
        c19Report(rep, env, src, id, whole.kwName.empty() ? "DECK" : classOfName(whole.kwName), whole.kwName.empty() ? "-" : whole.kwName, whole, origText, tag);
    }
    else if (whole.fail) { rep.log.ok(); ++rep.log.failed; rep.count("c19." + src + ".deck_fail_attributed"); }
    else rep.ok();
}

void prop19(Reporter& rep, Env& env) {
    // fixed decks: the two faces of "an item of size ALL ending in defaulted values", always exercised.
    // Several values (repaired by 14c7867b0, key C19.all_item_trailing_default must not appear) and exactly
    // one value (recorded finding C19.all_item_single_trailing_default), plus the TITLE leak (452487d0e).
    {
        const std::vector<std::pair<std::string, std::string>> fixed = {
            {"all_item_multi_wlist", "WLIST\n '*L' NEW W1 1* /\n '*M' NEW 3* /\n/\n"},
            {"all_item_multi_summary", "WOPR\n 'A' 2* /\n"},
            {"all_item_multi_tstep", "TSTEP\n 1 2 2* /\n"},
            {"all_item_single_wlist", "WLIST\n '*L' NEW 1* /\n/\n"},
            {"title_after_pending_default", "EQLDIMS\n 2 /\nTITLE\n abc\n"},
            // tables with one dimension per column, in unit systems where the columns' factors differ (after-SI round trip)
            {"si_field_swof_pvdg", "OIL\nWATER\nGAS\nFIELD\nTABDIMS\n 1 1 /\nSWOF\n 0.2 0 1 7.5\n 0.8 1 0 0 /\nPVDG\n 14.7 178.1 0.0125\n 5000 0.65 0.03 /\nPVDO\n 14.7 1.05 1.2\n 5000 1.01 1.4 /\n"},
            {"si_lab_sgof_pvto", "OIL\nWATER\nGAS\nLAB\nTABDIMS\n 1 1 /\nSGOF\n 0 0 1 0.5\n 0.7 1 0 0 /\nPVTO\n 0.001 1 1.05 1.2\n 2 1.04 1.3 /\n 0.1 50 1.2 0.9\n 100 1.19 1.0 /\n/\n"},
            {"si_pvtm_pvtw_rock", "PVT-M\nTABDIMS\n 1 1 /\nPVTW\n 250 1.03 4e-5 0.3 0 /\nROCK\n 250 5e-5 /\nDENSITY\n 800 1000 1.2 /\n"},
            {"string_with_apostrophe", "GRUPTREE\n D''ARCY FIELD /\n/\n"},
            // raw-string records with more than `columns` tokens and divisions before the end
            {"udq_long_define", "UDQ\n DEFINE WUX ( WOPR / 2 ) + WWPR / ( WGPR + 1 ) * 3 - WOPR/2 + 1 /\n DEFINE FUY FOPR / 3 /\n ASSIGN WUA 'A/B' W1 'P*' 'C/D' W2 W3 W4 5 /\n/\n"},
            {"actionx_long_condition", "ACTIONX\n A1 /\n WOPR 'P1' / 2 + WWPR 'P1' / ( 1 + WGPR 'P1' ) > 0.5 AND /\n FPR < 100 /\n/\nENDACTIO\n"}};
        for (const auto& f : fixed) {
            Outcome oa = parseText(f.second);
            rep.count("fixed.decks");
            if (!oa.ok) { rep.count("fixed.unparseable"); continue; }
            c19Deck(rep, env, "fixed", f.first, *oa.deck, f.second, true);
        }
    }
    const int nGen = env.thorough ? 8000 : 800;
    for (int c = 0; c < nGen; ++c) {
        if (!env.timeLeft(0.6)) { rep.count("generated.stopped_by_budget"); break; }
        vh::Rng rng(caseSeed(env.seed, (uint64_t) c));
        std::string fault;
        std::vector<Block> blocks = genDeck(rng, rep, rng.range(2, 12), false, fault);
        RenderCtx rc; std::string text;
        renderBlocks(blocks, text, rc);
        Outcome oa = parseText(text);
        rep.count("generated.decks");
        if (!oa.ok) { rep.count("generated.orig_err_unplanned"); continue; }
        rep.count("generated.orig_ok");
        c19Deck(rep, env, "generated", "case" + std::to_string(c), *oa.deck, text, true);
    }
    auto decks = shippedDecks(env, rep);
    for (const auto& path : decks) {
        if (!env.timeLeft(0.97)) { rep.count("shipped.stopped_by_budget"); break; }
        const std::string id = relName(env, path);
        double t = nowSec();
        Outcome oa = parsePath(path);
        if (nowSec() - t > 10.0) { rep.count("shipped.skipped_slow"); continue; }
        rep.count("shipped.decks");
        if (!oa.ok) { rep.count("shipped.unparseable"); continue; }
        c19Deck(rep, env, "shipped", id, *oa.deck, "", false);
    }
}

} // namespace

int main(int argc, char** argv) {
    if (argc < 3) { std::cerr << "usage: deckprop prop01|prop19 <seed> <tier> <outdir> | canon <file> | print <file>\n"; return 2; }
    const std::string mode = argv[1];
    Parser parser;
    gParser = &parser;
    if (mode == "canon" || mode == "print") {
        std::string text = vh::slurp(argv[2]);
        Outcome o = parseText(text);
        if (!o.ok) { std::cout << "err\n"; return 0; }
        if (o.guard) std::cout << "guard_errors\n";
        if (mode == "canon") std::cout << dumpDeckC(canonDeck(*o.deck));
        else { std::string t; if (printDeck(*o.deck, t)) std::cout << t; else std::cout << "print_err\n"; }
        return 0;
    }
    if (argc < 5) { std::cerr << "usage: deckprop prop01|prop19 <seed> <tier> <outdir>\n"; return 2; }
    Env env;
    env.seed = std::strtoull(argv[2], nullptr, 10);
    env.thorough = std::string(argv[3]) == "thorough";
    env.outdir = argv[argc - 1];
    env.tmp = env.outdir + "/tmp";
    fs::create_directories(env.tmp);
    env.tmp = fs::absolute(env.tmp).lexically_normal().string();
    const char* r = std::getenv("VERIF_REPO");
    env.repo = r && *r ? r : "/repo";
    while (env.repo.size() > 1 && env.repo.back() == '/') env.repo.pop_back();
    env.t0 = nowSec();
    env.budget = env.thorough ? 300.0 : 32.0;
    Reporter rep(env.outdir + "/prop.txt");
    if (mode == "prop01") prop01(rep, env);
    else if (mode == "prop19") prop19(rep, env);
    else { std::cerr << "unknown mode\n"; return 2; }
    rep.count("wall_ms", (long) ((nowSec() - env.t0) * 1000));
    rep.write(env.outdir + "/prop_stats.json");
    return 0;
}
