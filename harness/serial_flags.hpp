// C11 harness, property mode: every FLAG WORD of the serialised classes, every bit of it.
//
// A std::bitset<N> member travels through Packing<false, std::bitset<N>> (MemPacker.cpp) as ONE integer; a
// representation that is too narrow loses the highest flags and nothing else, and PACKSIZE / PACK / UNPACK stay
// consistent with one another.  Only an object that HAS the high flag set, read back flag by flag, shows it.
// The serialised classes with such members (Gen/SerialClasses.lean, kind "bitset" / array of bool / mask word):
//
//   FIPConfig::m_flags          bitset<17>   RPTSOL / RPTSCHED mnemonics FIP=1..3 FIPFOAM FIPPLY FIPSOL FIPSURF
//                                            FIPTEMP|FIPHEAT FIPTR (=1..2 each) FIPRESV FIPVE      output(field)
//   Phases::bits                bitset<10>   RUNSPEC OIL GAS WATER SOLVENT POLYMER THERMAL|TEMP POLYMW FOAM BRINE
//                                            (+ ZFRACTION through the constructor)                 active(phase)
//   EndpointScaling::options    bitset<4>    ENDSCALE DIRECT|NODIR REVERS|IRREVERS, SCALECRS      six observers
//   data::GuideRateValue::mask_ bitset<4>    set(Item, v)                                          has / get
//   data::Rates::mask           uint32 word  23 opt bits (highest: mass_gas = 1 << 22)             has / get
//   Events::m_events            uint64 word  22 ScheduleEvents bits                                hasEvent(1 << i)
//   MechBCValue::fixeddir       array<bool,3>                                                       the three flags
//   data::QuantityCollection::has_  unsigned char word (3 / 5 / 6 items)                           has / get
//
// Each is built through the real input path where one exists (deck text -> Parser -> constructor) and through the
// setters otherwise: every flag alone, all together, all but one, random subsets.  The round-trip predicate is
// so::roundTrip: position = size both ways, re-packed bytes EXACT, operator==, and a sweep that reads EVERY flag
// through the public observer (an operator== that was changed consistently with the packer does not hide the loss).
// stats `flags.<class>.bit<i>` count how often bit i was set in an ORIGINAL (the input distribution).
#pragma once
#include "common/vh.hpp"
#include "serial_objects.hpp"

#include <opm/input/eclipse/EclipseState/IOConfig/FIPConfig.hpp>
#include <opm/input/eclipse/EclipseState/EclipseConfig.hpp>
#include <opm/input/eclipse/EclipseState/EndpointScaling.hpp>
#include <opm/input/eclipse/EclipseState/Runspec.hpp>
#include <opm/input/eclipse/Schedule/Events.hpp>
#include <opm/input/eclipse/Schedule/BCProp.hpp>
#include <opm/output/data/GuideRateValue.hpp>
#include <opm/output/data/Wells.hpp>

namespace sf {

using so::Dump;
using so::roundTrip;
using so::EXACT;

struct FipMnemonic { const char* name; int max; };
inline const std::vector<FipMnemonic>& fipMnemonics() {
    static const std::vector<FipMnemonic> m{ {"FIP", 3}, {"FIPFOAM", 2}, {"FIPPLY", 2}, {"FIPSOL", 2}, {"FIPSURF", 2}, {"FIPTEMP", 2},
                                             {"FIPHEAT", 2}, {"FIPTR", 2}, {"FIPRESV", 1}, {"FIPVE", 1} };
    return m;
}
constexpr int numFip = static_cast<int>(Opm::FIPConfig::OutputField::NUM_FIP_REPORT);

inline std::string dumpFip(const Opm::FIPConfig& f) {
    Dump d;
    for (int i = 0; i < numFip; ++i) d.kv("output." + std::to_string(i), f.output(static_cast<Opm::FIPConfig::OutputField>(i)));
    return d.str();
}
inline void countFip(const Opm::FIPConfig& f, std::map<std::string, long>& stats) {
    for (int i = 0; i < numFip; ++i) if (f.output(static_cast<Opm::FIPConfig::OutputField>(i))) stats["flags.fip.bit" + std::to_string(i)]++;
}

// the mnemonic lists: every mnemonic alone at every value, all at their maximum, all but one, random subsets
inline std::vector<std::string> fipCases(vh::Rng& r, int nrandom) {
    std::vector<std::string> cs;
    const auto& ms = fipMnemonics();
    for (const auto& m : ms) {
        cs.push_back(m.name);
        for (int v = 1; v <= m.max && m.max > 1; ++v) cs.push_back(std::string(m.name) + "=" + std::to_string(v));
    }
    std::string all; for (const auto& m : ms) { all += m.name; if (m.max > 1) all += "=" + std::to_string(m.max); all += " "; }
    cs.push_back(all);
    for (std::size_t skip = 0; skip < ms.size(); ++skip) {
        std::string s; for (std::size_t i = 0; i < ms.size(); ++i) if (i != skip) { s += ms[i].name; if (ms[i].max > 1) s += "=" + std::to_string(ms[i].max); s += " "; }
        cs.push_back(s);
    }
    for (int k = 0; k < nrandom; ++k) {
        std::string s;
        for (const auto& m : ms) if (r.coin()) { s += m.name; if (m.max > 1 && r.coin(2, 3)) s += "=" + std::to_string(r.range(1, m.max)); s += " "; }
        if (r.coin(1, 3)) s += "RESTART=" + std::to_string(r.range(1, 3)) + " ";
        cs.push_back(s);
    }
    return cs;
}

inline void probeFip(vh::Rng& r, vh::PropLog& plog, std::map<std::string, long>& stats, bool thorough) {
    const auto eq = [](const Opm::FIPConfig& a, const Opm::FIPConfig& b, std::string&) { return a == b; };
    for (const auto& mn : fipCases(r, thorough ? 200 : 12)) {
        try {
            Opm::Parser parser;
            const Opm::Deck deck = parser.parseString("RUNSPEC\nSOLUTION\nRPTSOL\n " + mn + " /\nSCHEDULE\nRPTSCHED\n " + mn + " /\n");
            const Opm::FIPConfig fromDeck(deck);                                   // SOLUTION section, last RPTSOL
            const Opm::FIPConfig fromSol(deck["RPTSOL"].back());                   // keyword constructor
            const Opm::FIPConfig fromSched(deck["RPTSCHED"].back());               // RPTSCHED through the same constructor
            countFip(fromDeck, stats);
            stats["flags.fip.cases"]++;
            roundTrip<Opm::FIPConfig>("fipconfig", "RPTSOL " + mn, fromDeck, plog, stats, dumpFip, eq, EXACT);
            roundTrip<Opm::FIPConfig>("fipconfig", "RPTSOL keyword " + mn, fromSol, plog, stats, dumpFip, eq, EXACT);
            roundTrip<Opm::FIPConfig>("fipconfig", "RPTSCHED " + mn, fromSched, plog, stats, dumpFip, eq, EXACT);
        } catch (const std::exception&) { stats["flags.fip.rejected"]++; }
    }
}

// FIPConfig where the property names it: inside an EclipseState built from a whole (generated) deck whose
// SOLUTION section gets one more RPTSOL (FIPConfig reads the last one)
inline void probeFipEclipseState(vh::Rng& r, vh::PropLog& plog, std::map<std::string, long>& stats, int nrandom) {
    std::vector<std::string> cs{ "FIPVE", "FIP=3 FIPFOAM=2 FIPPLY=2 FIPSOL=2 FIPSURF=2 FIPTEMP=2 FIPTR=2 FIPRESV FIPVE" };
    for (int k = 0; k < nrandom; ++k) { const auto all = fipCases(r, 1); cs.push_back(all.back()); }
    for (const auto& mn : cs) {
        std::string text = so::genDeck(r, stats);
        const auto at = text.find("\nSUMMARY\n");
        if (at == std::string::npos) { stats["flags.fip.es.no_summary"]++; continue; }
        text.insert(at + 1, "RPTSOL\n " + mn + " /\n");
        try {
            Opm::Parser parser;
            Opm::ParseContext pc(Opm::InputErrorAction::IGNORE);
            Opm::ErrorGuard eg;
            const Opm::Deck deck = parser.parseString(text, pc, eg);
            const Opm::EclipseState es(deck);
            eg.clear();
            countFip(es.cfg().fip(), stats);
            stats["flags.fip.es.cases"]++;
            roundTrip<Opm::EclipseState>("eclipsestate", "gen + RPTSOL " + mn, es, plog, stats, so::dumpEclipseState, so::eclipseStateEqual, so::LENGTH);
        } catch (const std::exception&) { stats["flags.fip.es.rejected"]++; }
    }
}

// ---- Phases ------------------------------------------------------------------------------------------------
inline const std::vector<Opm::Phase>& allPhases() {
    static const std::vector<Opm::Phase> p{ Opm::Phase::OIL, Opm::Phase::GAS, Opm::Phase::WATER, Opm::Phase::SOLVENT, Opm::Phase::POLYMER,
                                            Opm::Phase::ENERGY, Opm::Phase::POLYMW, Opm::Phase::FOAM, Opm::Phase::BRINE, Opm::Phase::ZFRACTION };
    return p;
}
inline std::string dumpPhases(const Opm::Phases& p) {
    Dump d; d.kv("size", p.size());
    for (const auto ph : allPhases()) d.kv("active." + std::to_string(static_cast<int>(ph)), p.active(ph));
    return d.str();
}
inline void probePhases(vh::Rng& r, vh::PropLog& plog, std::map<std::string, long>& stats, bool thorough) {
    const auto eq = [](const Opm::Phases& a, const Opm::Phases& b, std::string&) { return a == b; };
    const auto one = [&](const Opm::Phases& p, const std::string& tag) {
        for (const auto ph : allPhases()) if (p.active(ph)) stats["flags.phases.bit" + std::to_string(static_cast<int>(ph))]++;
        roundTrip<Opm::Phases>("phases", tag, p, plog, stats, dumpPhases, eq, EXACT);
    };
    // the constructor: all 1024 subsets in the thorough tier; singletons, complements and random ones in quick
    std::vector<unsigned> subsets;
    if (thorough) for (unsigned m = 0; m < 1024; ++m) subsets.push_back(m);
    else {
        subsets = { 0u, 1023u };
        for (unsigned i = 0; i < 10; ++i) { subsets.push_back(1u << i); subsets.push_back(1023u & ~(1u << i)); }
        for (int k = 0; k < 20; ++k) subsets.push_back(static_cast<unsigned>(r.below(1024)));
    }
    for (unsigned m : subsets) {
        const auto b = [m](int i) { return ((m >> i) & 1u) != 0; };
        one(Opm::Phases(b(0), b(1), b(2), b(3), b(4), b(5), b(6), b(7), b(8), b(9)), "Phases(" + std::to_string(m) + ")");
    }
    // the deck path: Runspec(deck) infers the phases from the RUNSPEC keywords
    static const std::vector<std::string> kws{ "OIL", "GAS", "WATER", "SOLVENT", "POLYMER", "THERMAL", "TEMP", "POLYMW", "FOAM", "BRINE", "GASWAT" };
    std::vector<std::vector<std::string>> decks;
    for (const auto& k : kws) decks.push_back({ k });
    decks.push_back({ "OIL", "GAS", "WATER", "SOLVENT", "POLYMER", "THERMAL", "POLYMW", "FOAM", "BRINE" });
    for (int k = thorough ? 100 : 10; k > 0; --k) { std::vector<std::string> d; for (const auto& w : kws) if (r.coin()) d.push_back(w); decks.push_back(d); }
    for (const auto& d : decks) {
        std::string text = "RUNSPEC\n", tag = "RUNSPEC";
        for (const auto& w : d) { text += w + "\n"; tag += " " + w; }
        try {
            Opm::Parser parser;
            const Opm::Deck deck = parser.parseString(text);
            const Opm::Runspec rs(deck);
            stats["flags.phases.decks"]++;
            one(rs.phases(), tag);
            roundTrip<Opm::Runspec>("runspec", tag, rs, plog, stats,
                [](const Opm::Runspec& x) { return dumpPhases(x.phases()) + "mask=" + std::to_string(x.eclPhaseMask()) + "\n"; },
                [](const Opm::Runspec& a, const Opm::Runspec& b, std::string&) { return a == b; }, EXACT);
        } catch (const std::exception&) { stats["flags.phases.rejected"]++; }
    }
}

// ---- EndpointScaling ---------------------------------------------------------------------------------------
inline std::string dumpEndscale(const Opm::EndpointScaling& e) {
    Dump d;
    d.kv("any", static_cast<bool>(e)); d.kv("directional", e.directional()); d.kv("nondirectional", e.nondirectional());
    d.kv("reversible", e.reversible()); d.kv("irreversible", e.irreversible()); d.kv("twopoint", e.twopoint()); d.kv("threepoint", e.threepoint());
    return d.str();
}
inline void probeEndscale(vh::PropLog& plog, std::map<std::string, long>& stats) {
    const auto eq = [](const Opm::EndpointScaling& a, const Opm::EndpointScaling& b, std::string&) { return a == b; };
    for (const char* es : { "", "ENDSCALE\n /\n", "ENDSCALE\n DIRECT REVERS /\n", "ENDSCALE\n DIRECT IRREVERS /\n", "ENDSCALE\n NODIR REVERS /\n", "ENDSCALE\n NODIR IRREVERS /\n", "ENDSCALE\n DIRECT /\n", "ENDSCALE\n 1* IRREVERS /\n" })
        for (const char* crs : { "", "SCALECRS\n YES /\n", "SCALECRS\n NO /\n", "SCALECRS\n Y /\n" }) {
            try {
                Opm::Parser parser;
                const Opm::Deck deck = parser.parseString(std::string("RUNSPEC\n") + es + "PROPS\n" + crs);
                const Opm::EndpointScaling e(deck);
                stats["flags.endscale.cases"]++;
                if (e) stats["flags.endscale.bit0"]++;
                if (e.directional()) stats["flags.endscale.bit1"]++;
                if (e.reversible()) stats["flags.endscale.bit2"]++;
                if (e.threepoint()) stats["flags.endscale.bit3"]++;
                std::string tag = std::string(es) + crs; std::replace(tag.begin(), tag.end(), '\n', ' ');
                roundTrip<Opm::EndpointScaling>("endscale", tag, e, plog, stats, dumpEndscale, eq, EXACT);
            } catch (const std::exception&) { stats["flags.endscale.rejected"]++; }
        }
}

// ---- output-side flag words: GuideRateValue, Rates, Events, MechBCValue ------------------------------------
inline void probeOutputFlags(vh::Rng& r, vh::PropLog& plog, std::map<std::string, long>& stats, bool thorough) {
    using GRV = Opm::data::GuideRateValue;
    static const std::vector<GRV::Item> items{ GRV::Item::Oil, GRV::Item::Gas, GRV::Item::Water, GRV::Item::ResV };
    for (unsigned m = 0; m < 16; ++m) {
        GRV g;
        for (unsigned i = 0; i < 4; ++i) if ((m >> i) & 1u) { g.set(items[i], so::rndVal(r)); stats["flags.guiderate.bit" + std::to_string(i)]++; }
        roundTrip<GRV>("guideratevalue", "mask " + std::to_string(m), g, plog, stats,
            [](const GRV& x) { Dump d; for (const auto it : items) { d.kv("has." + std::to_string(static_cast<int>(it)), x.has(it)); if (x.has(it)) d.kv("get." + std::to_string(static_cast<int>(it)), x.get(it)); } return d.str(); },
            [](const GRV& a, const GRV& b, std::string&) { return a == b; }, EXACT);
    }
    using Rates = Opm::data::Rates;
    constexpr int nopt = 23, tracerBit = 19;
    std::vector<std::uint32_t> masks{ 0u };
    for (int i = 0; i < nopt; ++i) masks.push_back(1u << i);
    masks.push_back((1u << nopt) - 1);
    for (int k = thorough ? 200 : 10; k > 0; --k) masks.push_back(static_cast<std::uint32_t>(r.below(1u << nopt)));
    for (const auto m : masks) {
        Rates x;
        for (int i = 0; i < nopt; ++i) if ((m >> i) & 1u) {
            const auto o = static_cast<Rates::opt>(1u << i);
            if (i == tracerBit) x.set(o, so::rndVal(r), "T" + std::to_string(r.range(1, 3))); else x.set(o, so::rndVal(r));
            stats["flags.rates.bit" + std::to_string(i)]++;
        }
        roundTrip<Rates>("rates", "mask " + std::to_string(m), x, plog, stats,
            [](const Rates& y) { Dump d; for (int i = 0; i < nopt; ++i) { const auto o = static_cast<Rates::opt>(1u << i); d.kv("has." + std::to_string(i), y.has(o)); if (i != tracerBit) d.kv("get." + std::to_string(i), y.get(o, -1.0)); else for (const char* t : { "T1", "T2", "T3" }) d.kv(std::string("tracer.") + t, y.get(o, -1.0, t)); } return d.str(); },
            [](const Rates& a, const Rates& b, std::string&) { return a == b; }, EXACT);
    }
    constexpr int nev = 22;
    std::vector<std::uint32_t> evs{ 0u, (1u << nev) - 1 };
    for (int i = 0; i < nev; ++i) evs.push_back(1u << i);
    for (int k = thorough ? 100 : 8; k > 0; --k) evs.push_back(static_cast<std::uint32_t>(r.below(1u << nev)));
    for (const auto m : evs) {
        Opm::Events e;
        for (int i = 0; i < nev; ++i) if ((m >> i) & 1u) { e.addEvent(static_cast<Opm::ScheduleEvents::Events>(1u << i)); stats["flags.events.bit" + std::to_string(i)]++; }
        roundTrip<Opm::Events>("events", "mask " + std::to_string(m), e, plog, stats,
            [](const Opm::Events& y) { Dump d; for (int i = 0; i < 64; ++i) d.kv("has." + std::to_string(i), y.hasEvent(std::uint64_t{1} << i)); return d.str(); },
            [](const Opm::Events& a, const Opm::Events& b, std::string&) { return a == b; }, EXACT);
    }
    for (unsigned m = 0; m < 8; ++m) {
        Opm::MechBCValue v;
        for (auto& x : v.disp) x = so::rndVal(r);
        for (auto& x : v.stress) x = so::rndVal(r);
        for (unsigned i = 0; i < 3; ++i) v.fixeddir[i] = ((m >> i) & 1u) != 0;
        roundTrip<Opm::MechBCValue>("mechbcvalue", "fixeddir " + std::to_string(m), v, plog, stats,
            [](const Opm::MechBCValue& y) { Dump d; for (bool f : y.fixeddir) d.kv("fixed", f); for (double x : y.disp) d.kv("disp", x); for (double x : y.stress) d.kv("stress", x); return d.str(); },
            [](const Opm::MechBCValue& a, const Opm::MechBCValue& b, std::string&) { return a == b; }, EXACT);
    }
}

// data::QuantityCollection<Items>: an unsigned char mask `has_` beside the values (segment phase quantities 3 bits,
// densities 5, well control limits 6): every subset
template <class QC> void probeQuantity(const char* key, vh::Rng& r, vh::PropLog& plog, std::map<std::string, long>& stats) {
    using Item = typename QC::Item;
    constexpr unsigned n = static_cast<unsigned>(Item::NumItems);
    for (unsigned m = 0; m < (1u << n); ++m) {
        QC q;
        for (unsigned i = 0; i < n; ++i) if ((m >> i) & 1u) { q.set(static_cast<Item>(i), so::rndVal(r)); stats[std::string("flags.") + key + ".bit" + std::to_string(i)]++; }
        roundTrip<QC>(key, "mask " + std::to_string(m), q, plog, stats,
            [](const QC& x) { Dump d; for (unsigned i = 0; i < n; ++i) { const auto it = static_cast<Item>(i); d.kv("has." + std::to_string(i), x.has(it)); if (x.has(it)) d.kv("get." + std::to_string(i), x.get(it)); } return d.str(); },
            [](const QC& a, const QC& b, std::string&) { return a == b; }, EXACT);
    }
}

inline void probeFlagWords(vh::Rng& r, vh::PropLog& plog, std::map<std::string, long>& stats, bool thorough) {
    probeFip(r, plog, stats, thorough);
    probeFipEclipseState(r, plog, stats, thorough ? 20 : 2);
    probePhases(r, plog, stats, thorough);
    probeEndscale(plog, stats);
    probeOutputFlags(r, plog, stats, thorough);
    probeQuantity<Opm::data::SegmentPhaseQuantity>("segmentphasequantity", r, plog, stats);
    probeQuantity<Opm::data::SegmentPhaseDensity>("segmentphasedensity", r, plog, stats);
    probeQuantity<Opm::data::WellControlLimits>("wellcontrollimits", r, plog, stats);
}

} // namespace sf
