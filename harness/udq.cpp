// C17 harness: real UDQ parser / evaluator / UDQConfig bookkeeping.
//   udq corr <seed> <tier> <outdir>   ops.txt / impl.txt / stats.json
//   udq prop <seed> <tier> <outdir>   prop.txt / prop_stats.json   (property on the real code alone)
#include "common/vh.hpp"

#include <opm/common/OpmLog/KeywordLocation.hpp>
#include <opm/common/utility/TimeService.hpp>
#include <opm/input/eclipse/Parser/ErrorGuard.hpp>
#include <opm/input/eclipse/Parser/InputErrorAction.hpp>
#include <opm/input/eclipse/Parser/ParseContext.hpp>
#include <opm/input/eclipse/Schedule/SummaryState.hpp>
#include <opm/input/eclipse/Schedule/UDQ/UDQASTNode.hpp>
#include <opm/input/eclipse/Schedule/UDQ/UDQConfig.hpp>
#include <opm/input/eclipse/Schedule/UDQ/UDQContext.hpp>
#include <opm/input/eclipse/Schedule/UDQ/UDQDefine.hpp>
#include <opm/input/eclipse/Schedule/UDQ/UDQEnums.hpp>
#include <opm/input/eclipse/Schedule/UDQ/UDQFunctionTable.hpp>
#include <opm/input/eclipse/Schedule/UDQ/UDQParams.hpp>
#include <opm/input/eclipse/Schedule/UDQ/UDQParser.hpp>
#include <opm/input/eclipse/Schedule/UDQ/UDQSet.hpp>
#include <opm/input/eclipse/Schedule/UDQ/UDQState.hpp>
#include <opm/input/eclipse/Schedule/UDQ/UDQToken.hpp>
#include <opm/input/eclipse/Schedule/UDQ/UDT.hpp>
#include <opm/input/eclipse/Schedule/Well/NameOrder.hpp>
#include <opm/input/eclipse/Schedule/Well/WellMatcher.hpp>
#include <opm/input/eclipse/Schedule/Well/WListManager.hpp>
#include <opm/common/utility/shmatch.hpp>
#include <opm/input/eclipse/Schedule/MSW/SegmentMatcher.hpp>
#include <opm/input/eclipse/EclipseState/Grid/RegionSetMatcher.hpp>

#include <algorithm>
#include <array>
#include <cmath>
#include <cstdio>
#include <filesystem>
#include <functional>
#include <iostream>
#include <limits>
#include <memory>
#include <optional>
#include <set>
#include <unordered_map>
#include <variant>

#include <sys/wait.h>
#include <unistd.h>

using namespace Opm;
namespace fs = std::filesystem;
using Strs = std::vector<std::string>;

// ---------------------------------------------------------------------------------------------
// reading the private members of UDQASTNode / UDQDefine through their public serializeOp

struct NodeInfo {
    UDQVarType vt{};
    UDQTokenType type{};
    std::variant<std::string, double> value;
    double sign = 1.0;
    Strs selector;
    std::shared_ptr<UDQASTNode> left, right;
};

struct NodeReader {
    NodeInfo info;
    int nptr = 0;
    void operator()(UDQVarType& v) { info.vt = v; }
    void operator()(UDQTokenType& v) { info.type = v; }
    void operator()(std::variant<std::string, double>& v) { info.value = v; }
    void operator()(double& v) { info.sign = v; }
    void operator()(Strs& v) { info.selector = v; }
    void operator()(std::shared_ptr<UDQASTNode>& p) { (nptr++ == 0 ? info.left : info.right) = p; }
};

static NodeInfo readNode(const UDQASTNode& n) {
    NodeReader r;
    const_cast<UDQASTNode&>(n).serializeOp(r);
    return r.info;
}

struct DefineReader {
    std::shared_ptr<UDQASTNode> ast;
    template <class T> void operator()(T&) {}
    void operator()(std::shared_ptr<UDQASTNode>& p) { ast = p; }
};

static std::string hexOrDash(const std::string& s) { return vh::hex(s); }

static std::string showValue(const std::variant<std::string, double>& v) {
    if (std::holds_alternative<std::string>(v)) return "s" + hexOrDash(std::get<std::string>(v));
    return "n" + vh::hexF64(std::get<double>(v));
}

static std::string showSel(const Strs& sel) {
    if (sel.empty()) return "-";
    std::string out;
    for (size_t i = 0; i < sel.size(); ++i) { if (i) out += ","; out += hexOrDash(sel[i]); }
    return out;
}

// returns false through `evaluable` if the tree contains a function/operator node without the
// children eval() dereferences (null pointer in the real code)
static std::string showTree(const UDQASTNode& n, bool& evaluable) {
    NodeInfo i = readNode(n);
    std::string out = "[" + std::to_string(static_cast<int>(i.type)) + ";" + showValue(i.value) + ";" + showSel(i.selector) + ";"
        + (i.sign < 0 ? "-" : "+");
    if ((UDQ::scalarFunc(i.type) || UDQ::elementalUnaryFunc(i.type)) && !i.left) evaluable = false;
    if (UDQ::binaryFunc(i.type) && (!i.left || !i.right)) evaluable = false;
    if (i.type == UDQTokenType::ecl_expr && !std::holds_alternative<std::string>(i.value)) evaluable = false;
    if (i.left) out += " " + showTree(*i.left, evaluable);
    if (i.right) out += " " + showTree(*i.right, evaluable);
    return out + "]";
}

static std::string tokProto(const UDQToken& t) {
    if (t.type() == UDQTokenType::number) return "n:" + vh::hexF64(std::get<double>(t.value()));
    if (t.type() == UDQTokenType::ecl_expr) return "e:" + hexOrDash(std::get<std::string>(t.value())) + ":" + showSel(t.selector());
    return "s:" + hexOrDash(std::get<std::string>(t.value()));
}

// ---------------------------------------------------------------------------------------------
// world: wells, groups, summary values

struct World {
    Strs wells, groups;
    std::map<std::string, double> fieldVals;                          // FOPR ...
    std::map<std::string, std::map<std::string, double>> wellVars;     // var -> well -> value
    std::map<std::string, std::map<std::string, double>> groupVars;
    std::map<std::string, double> udqScalars;                          // FUA ...
    std::map<std::string, std::map<std::string, double>> udqWell;      // WUA -> well -> value
    std::map<std::string, std::map<std::string, double>> udqGroup;
    bool hasWlm = false;                                               // WellMatcher built with a WListManager
    std::map<std::string, Strs> wlists;                                // "*NAME" -> wells
};

static const Strs kValues = { "0", "1", "2", "3", "4", "0.5", "1.5", "10", "100", "0.25", "7", "1e3" };

static double randVal(vh::Rng& rng) {
    switch (rng.below(8)) {
    case 0: return 0.0;
    case 1: return static_cast<double>(rng.range(-5, 5));
    case 2: return rng.range(1, 9) * 0.5;
    case 3: return -rng.range(1, 9) * 0.25;
    case 4: return rng.unit() * 100.0;
    case 5: return (rng.unit() - 0.5) * 10.0;
    case 6: return static_cast<double>(rng.range(1, 4));
    default: return rng.range(1, 1000) * 0.125;
    }
}

static World makeWorld(vh::Rng& rng, bool positive) {
    World w;
    int nw = rng.range(1, 6), ng = rng.range(1, 3);
    static const Strs wn = { "P1", "P2", "PA", "I1", "I2", "PB3" };
    static const Strs wn2 = { "P-1", "P.10", "OP_1", "I", "PROD1", "P11", "1P", "IP1" };
    static const Strs gn = { "G1", "G2", "FIELD" };
    for (int i = 0; i < nw; ++i) w.wells.push_back(wn[i]);
    // names that tell patterns apart (a `?`, a `*` in the middle, a dot, a one-letter name) replace some of them
    for (int i = 1; i < nw; ++i) if (rng.coin(1, 4)) {
        std::string c = rng.pick(wn2);
        if (std::find(w.wells.begin(), w.wells.end(), c) == w.wells.end()) w.wells[i] = c;
    }
    std::sort(w.wells.begin(), w.wells.end());
    // random well order (WellMatcher keeps insertion order)
    for (size_t i = w.wells.size(); i > 1; --i) std::swap(w.wells[i - 1], w.wells[rng.below(i)]);
    for (int i = 0; i < ng; ++i) w.groups.push_back(gn[i]);
    auto val = [&]() { double v = randVal(rng); return positive ? std::fabs(v) + 0.5 : v; };
    for (const char* f : { "FOPR", "FWPR" }) w.fieldVals[f] = val();
    for (const char* v : { "WOPR", "WWPR" }) {
        for (auto& well : w.wells) if (!rng.coin(1, 5)) w.wellVars[v][well] = val();
        if (w.wellVars[v].empty()) w.wellVars[v][w.wells[0]] = val();
    }
    for (const char* v : { "GOPR" }) for (auto& g : w.groups) w.groupVars[v][g] = val();   // every group defined => group list = all
    if (rng.coin(2, 3)) w.udqScalars["FUA"] = val();
    for (auto& well : w.wells) if (rng.coin()) w.udqWell["WUA"][well] = val();
    for (auto& g : w.groups) if (rng.coin()) w.udqGroup["GUA"][g] = val();
    // well lists: most worlds have a WListManager (as Schedule::wellMatcher gives UDQConfig::eval)
    w.hasWlm = !rng.coin(1, 5);
    if (w.hasWlm) {
        static const Strs ln = { "*L1", "*L2", "*PL", "*LIST10" };
        int nl = rng.range(0, 3);
        for (int i = 0; i < nl; ++i) {
            Strs ws;
            for (auto& well : w.wells) if (rng.coin()) ws.push_back(well);
            for (size_t k = ws.size(); k > 1; --k) std::swap(ws[k - 1], ws[rng.below(k)]);   // list order != well order
            if (rng.coin(1, 12)) ws.push_back("NOWELL");                                       // not in the well order
            w.wlists[rng.pick(ln)] = ws;
        }
    }
    return w;
}

struct Env {
    UDQParams udqp;
    UDQFunctionTable udqft;
    SummaryState st;
    UDQState udq_state;
    NameOrder order;
    WListManager wlm;
    WellMatcher wm;
    std::unordered_map<std::string, UDT> tables;
    std::unique_ptr<UDQContext> ctx;
    static WListManager makeWlm(const World& w) {
        WListManager m;
        for (auto& kv : w.wlists) m.newList(kv.first, kv.second);
        return m;
    }
    explicit Env(const World& w)
        : udqp(), udqft(udqp), st(TimeService::now(), udqp.undefinedValue()), udq_state(udqp.undefinedValue()),
          order(w.wells), wlm(makeWlm(w)), wm(w.hasWlm ? WellMatcher(&order, wlm) : WellMatcher(NameOrder(w.wells)))
    {
        for (auto& kv : w.fieldVals) st.update(kv.first, kv.second);
        for (auto& var : w.wellVars) for (auto& kv : var.second) st.update_well_var(kv.first, var.first, kv.second);
        for (auto& var : w.groupVars) for (auto& kv : var.second) st.update_group_var(kv.first, var.first, kv.second);
        for (auto& kv : w.udqScalars) udq_state.add_define(0, kv.first, UDQSet::scalar(kv.first, kv.second));
        for (auto& var : w.udqWell) {
            auto s = UDQSet::wells(var.first, w.wells);
            for (auto& kv : var.second) s.assign(kv.first, kv.second);
            udq_state.add_define(0, var.first, s);
        }
        for (auto& var : w.udqGroup) {
            auto s = UDQSet::groups(var.first, w.groups);
            for (auto& kv : var.second) s.assign(kv.first, kv.second);
            udq_state.add_define(0, var.first, s);
        }
        ctx = std::make_unique<UDQContext>(udqft, wm, tables, UDQContext::MatcherFactories{}, st, udq_state);
    }
};

static std::string entries(const std::map<std::string, double>& m) {
    if (m.empty()) return "-";
    std::string out;
    bool first = true;
    for (auto& kv : m) { if (!first) out += ","; first = false; out += hexOrDash(kv.first) + "=" + vh::hexF64(kv.second); }
    return out;
}

static std::string listHex(const Strs& v) {
    if (v.empty()) return "-";
    std::string out;
    for (size_t i = 0; i < v.size(); ++i) { if (i) out += ","; out += hexOrDash(v[i]); }
    return out;
}

static std::string matcherProto(const World& w) {
    std::string out;
    if (w.hasWlm) out += " LM";
    for (auto& kv : w.wlists) out += " L=" + hexOrDash(kv.first) + ":" + listHex(kv.second);
    return out;
}

// the matcher's answers are NOT passed to the model any more: it gets the well order and the well
// lists and matches by itself (Model/UdqMatch.lean)
static std::string worldProto(const World& w, Env& env, const std::set<std::string>&) {
    std::string out = "E=" + vh::hexF64(env.udqp.cmpEpsilon());
    out += " W=" + listHex(env.ctx->wells());
    out += " G=" + listHex(env.ctx->groups());
    out += matcherProto(w);
    if (!w.fieldVals.empty()) out += " F:" + entries(w.fieldVals);
    for (auto& var : w.wellVars) out += " WV:" + hexOrDash(var.first) + ":" + entries(var.second);
    for (auto& var : w.groupVars) out += " GV:" + hexOrDash(var.first) + ":" + entries(var.second);
    if (!w.udqScalars.empty()) out += " US:" + entries(w.udqScalars);
    for (auto& var : w.udqWell) out += " UW:" + hexOrDash(var.first) + ":" + entries(var.second);
    for (auto& var : w.udqGroup) out += " UG:" + hexOrDash(var.first) + ":" + entries(var.second);
    return out;
}

static char vtChar(UDQVarType t) {
    switch (t) {
    case UDQVarType::NONE: return 'N';
    case UDQVarType::SCALAR: return 'S';
    case UDQVarType::FIELD_VAR: return 'F';
    case UDQVarType::WELL_VAR: return 'W';
    case UDQVarType::GROUP_VAR: return 'G';
    default: return '?';
    }
}

static std::string showSet(const UDQSet& s) {
    std::string out = std::string(1, vtChar(s.var_type())) + " ";
    if (s.size() == 0) return out + "-";
    for (size_t i = 0; i < s.size(); ++i) {
        if (i) out += ",";
        out += hexOrDash(s[i].wgname()) + "=" + (s[i].defined() ? vh::hexF64(s[i].get()) : std::string("u"));
    }
    return out;
}

// ---------------------------------------------------------------------------------------------
// expression generator: deck strings straight from the grammar, precedence left to the parser

static const Strs kArith = { "+", "-", "*", "/", "^" };
static const Strs kCmp = { "==", "!=", "<=", ">=", "<", ">" };
static const Strs kUnion = { "UADD", "UMUL", "UMIN", "UMAX" };
static const Strs kReduce = { "SUM", "AVEA", "AVEG", "AVEH", "MAX", "MIN", "NORM1", "NORM2", "NORMI", "PROD" };
static const Strs kElem = { "ABS", "DEF", "EXP", "IDV", "LN", "LOG", "NINT", "SORTA", "SORTD", "UNDEF" };

static Strs allBinary() {
    Strs v = kArith;
    v.insert(v.end(), kCmp.begin(), kCmp.end());
    v.insert(v.end(), kUnion.begin(), kUnion.end());
    return v;
}

struct Gen {
    vh::Rng& rng;
    const World& w;
    std::set<std::string> patterns;
    bool libm = false;     // expression uses pow / exp / log
    char setKind;          // 'W' or 'G': the kind of sets used in this expression
    Gen(vh::Rng& r, const World& wo, char k) : rng(r), w(wo), setKind(k) {}

    void cat(Strs& a, const Strs& b) { a.insert(a.end(), b.begin(), b.end()); }

    Strs leaf(char kind) {
        if (kind == 'S') {
            switch (rng.below(7)) {
            case 0: case 1: return { rng.pick(kValues) };
            case 2: return { rng.coin() ? "FOPR" : "FWPR" };
            case 3: return { "FUA" };
            case 4: return { rng.coin() ? "WOPR" : "WWPR", rng.pick(w.wells) };
            case 5: return { "GOPR", rng.pick(w.groups) };
            default: return { rng.pick(Strs{ "JAN", "DEC", "TCPU", "MAI" }) };
            }
        }
        if (kind == 'W') {
            switch (rng.below(6)) {
            case 0: case 1: return { rng.coin() ? "WOPR" : "WWPR" };
            case 2: return { "WUA" };
            case 3: {
                std::string p = rng.pick(Strs{ "P*", "I*", "*", "P*1", "X*", "P?*", "*1", "?*", "I*?", "P*.*", "*L1", "*L*", "*PL", "*NOLIST", "P??*", "*?1", "**", "P1*", "\\*1", "\\P*", "P?", "P1" });
                patterns.insert(p);
                return { rng.coin(1, 8) ? "WGOR" : (rng.coin() ? "WOPR" : "WUA"), "'" + p + "'" };
            }
            case 4: return { rng.pick(kValues) };
            default: return { "WWPR" };
            }
        }
        switch (rng.below(4)) {
        case 0: case 1: return { "GOPR" };
        case 2: return { "GUA" };
        default: return { rng.pick(kValues) };
        }
    }

    // kind: 'S' scalar, 'W'/'G' set
    Strs expr(char kind, int depth) {
        if (depth <= 0 || rng.coin(1, 4)) return leaf(kind);
        int c = static_cast<int>(rng.below(10));
        if (c < 5) {
            char k1 = kind, k2 = kind;
            if (kind != 'S') { int m = static_cast<int>(rng.below(4)); if (m == 0) k1 = 'S'; if (m == 1) k2 = 'S'; }
            std::string op;
            int oc = static_cast<int>(rng.below(10));
            if (oc < 6) op = rng.pick(kArith); else if (oc < 8) op = rng.pick(kCmp); else op = rng.pick(kUnion);
            if (op == "^") { libm = true; if (kind != 'S') { k1 = kind; k2 = rng.coin(1, 6) ? 'S' : kind; } }
            Strs out = expr(k1, depth - 1);
            out.push_back(op);
            cat(out, expr(k2, depth - 1));
            return out;
        }
        if (c < 7) { Strs out = { "(" }; cat(out, expr(kind, depth - 1)); out.push_back(")"); return out; }
        if (c < 9) {
            if (kind == 'S' && rng.coin(2, 3)) {
                std::string f = rng.pick(kReduce);
                if (f == "AVEG") libm = true;
                Strs out = { f, "(" };
                cat(out, expr(rng.coin(1, 5) ? 'S' : setKind, depth - 1));
                out.push_back(")");
                return out;
            }
            std::string f = rng.pick(kElem);
            if (f == "EXP" || f == "LN" || f == "LOG") libm = true;
            Strs out = { f, "(" };
            cat(out, expr(kind, depth - 1));
            out.push_back(")");
            return out;
        }
        // unary sign in front of a factor
        Strs out = { rng.coin(4, 5) ? "-" : "+" };
        if (rng.coin()) { cat(out, leaf(kind)); }
        else { out.push_back("("); cat(out, expr(kind, depth - 1)); out.push_back(")"); }
        return out;
    }
};

static std::string joinStrs(const Strs& v) {
    std::string s;
    for (size_t i = 0; i < v.size(); ++i) { if (i) s += " "; s += v[i]; }
    return s;
}

static ParseContext lenientTypes() {
    ParseContext pc;
    pc.update(ParseContext::UDQ_PARSE_ERROR, InputErrorAction::THROW_EXCEPTION);
    pc.update(ParseContext::UDQ_TYPE_ERROR, InputErrorAction::IGNORE);
    return pc;
}

static UDQVarType targetOf(char t) {
    return t == 'W' ? UDQVarType::WELL_VAR : t == 'G' ? UDQVarType::GROUP_VAR : UDQVarType::FIELD_VAR;
}

// Parse a token vector with the real parser.  Answer: "ast <tree>", "err", or "" (= type error, skipped)
static std::string realParse(const std::vector<UDQToken>& toks, char target, bool& evaluable) {
    UDQParams udqp;
    KeywordLocation loc;
    ErrorGuard errors;
    auto pc = lenientTypes();
    evaluable = true;
    try {
        auto ast = parseUDQExpression(udqp, targetOf(target), std::string(1, target) + "UX", loc, toks, pc, errors);
        NodeInfo top = readNode(*ast);
        // the replacement node of a type error: number(undefined value)
        if (top.type == UDQTokenType::number && std::get<double>(top.value) == udqp.undefinedValue()
            && !(toks.size() == 1 && toks[0].type() == UDQTokenType::number))
            return "";
        errors.clear();
        return "ast " + showTree(*ast, evaluable);
    } catch (const std::exception&) {
        errors.clear();
        return "err";
    }
}

static std::string mapModelParse(const std::string& real) { return real; }

// Before the parse_factor end-of-input repair these token vectors made the parser index past the
// end of the vector; they are ordinary parse errors now and are exercised like everything else.
static bool wouldRunOffTheEnd(const std::vector<UDQToken>& toks) {
    return false;
    if (toks.empty()) return true;
    const auto& t = toks.back();
    if (t.type() == UDQTokenType::number || t.type() == UDQTokenType::ecl_expr) return false;
    const auto& s = std::get<std::string>(t.value());
    return s == "(" || s == "+" || s == "-";
}

static std::vector<UDQToken> simpleTokens(const Strs& strs) {
    // the same classification UDQDefine applies (UDQ::tokenType), without selectors
    std::vector<UDQToken> out;
    for (auto& s : strs) {
        auto ty = UDQ::tokenType(s);
        if (ty == UDQTokenType::ecl_expr) out.emplace_back(s, Strs{});
        else out.emplace_back(s, ty);
    }
    return out;
}

static void emitParse(vh::Sink& sink, const std::vector<UDQToken>& toks, char target, const std::string& tag) {
    if (wouldRunOffTheEnd(toks)) { sink.count("parse.skipped_ub"); return; }
    bool evaluable = true;
    std::string ans = realParse(toks, target, evaluable);
    if (ans.empty()) { sink.count("parse.skipped_typeerr"); return; }
    std::string op = "udq.parse";
    for (auto& t : toks) op += " " + tokProto(t);
    sink.emit(op, ans);
    sink.count("parse." + tag);
    sink.count(ans == "err" ? "parse.answer.err" : "parse.answer.ast");
}

// ---------------------------------------------------------------------------------------------
// union operators UADD / UMUL / UMIN / UMAX: the documented meaning of ONE element, written
// without looking at the implementation: defined in both operands -> the operation; defined in
// exactly one -> that operand's value; defined in neither -> undefined.  (A result that is not a
// finite number is undefined, as for every UDQ value.)

static std::optional<double> refUnionElem(const std::string& op, const std::optional<double>& a, const std::optional<double>& b) {
    auto fin = [](double x) { return std::isfinite(x) ? std::optional<double>(x) : std::nullopt; };
    if (a && b) {
        double r = op == "UADD" ? *a + *b : op == "UMUL" ? *a * *b : op == "UMIN" ? std::min(*a, *b) : std::max(*a, *b);
        return fin(r);
    }
    if (a) return fin(*a);
    if (b) return fin(*b);
    return std::nullopt;
}

// ---------------------------------------------------------------------------------------------
// an independent reference evaluator (property mode), written from the documented semantics:
// recursive descent with the documented ranks, values = vector<optional<double>> over the wells
// (size 1 = scalar).  Supports + - * / ^, comparisons < >, the union operators, parentheses, unary
// sign, SUM/MAX/MIN/AVEA/NORM1/NORMI/PROD/ABS/DEF over numbers, F-quantities, W-quantities
// (summary quantities and well-level UDQs).

struct RefVal {
    bool isSet = false;
    bool isNum = false;                     // built from number literals only (adapts to the target type)
    bool hasNum = false;                    // contains a number literal
    std::vector<std::optional<double>> v;   // size 1 when !isSet
};

struct RefEval {
    const Strs& toks;
    const World& w;
    size_t pos = 0;
    bool bad = false;
    bool powSetScalar = false, powNumScalar = false;   // `^` between a set / a literal and a scalar quantity
    bool powNumSet = false;                 // `^` between a literal and a set (size mismatch in a scalar DEFINE)
    bool redOfNum = false;                  // reduction over a set-free argument with literals (value depends on the target type)
    RefEval(const Strs& t, const World& wo) : toks(t), w(wo) {}

    static std::optional<double> fin(double x) { return std::isfinite(x) ? std::optional<double>(x) : std::nullopt; }

    RefVal scalar(std::optional<double> x) { RefVal r; r.v = { x ? fin(*x) : std::nullopt }; return r; }

    RefVal lift2(const RefVal& a, const RefVal& b, const std::function<double(double, double)>& f) {
        RefVal r;
        r.isSet = a.isSet || b.isSet;
        r.isNum = a.isNum && b.isNum;
        r.hasNum = a.hasNum || b.hasNum;
        size_t n = r.isSet ? w.wells.size() : 1;
        if ((a.isSet != b.isSet)) {
            // broadcasting an undefined scalar is an error in the implementation; outside the reference's domain
            const RefVal& s = a.isSet ? b : a;
            if (!s.v[0]) bad = true;
        }
        for (size_t i = 0; i < n; ++i) {
            auto x = a.isSet ? a.v[i] : a.v[0];
            auto y = b.isSet ? b.v[i] : b.v[0];
            r.v.push_back((x && y) ? fin(f(*x, *y)) : std::nullopt);
        }
        return r;
    }

    bool peek(const std::string& s) { return pos < toks.size() && toks[pos] == s; }

    RefVal factor() {
        if (pos >= toks.size()) { bad = true; return scalar(std::nullopt); }
        double sign = 1.0;
        if (peek("-")) { sign = -1.0; ++pos; } else if (peek("+")) { ++pos; }
        RefVal r;
        if (pos >= toks.size()) { bad = true; return scalar(std::nullopt); }
        std::string t = toks[pos];
        if (t == "(") { ++pos; r = setop(); if (!peek(")")) bad = true; ++pos; }
        else if (t == "SUM" || t == "MAX" || t == "MIN" || t == "AVEA" || t == "NORM1" || t == "NORMI" || t == "PROD" || t == "ABS" || t == "DEF") {
            ++pos; if (!peek("(")) bad = true; ++pos;
            RefVal a = setop();
            if (!peek(")")) bad = true; ++pos;
            if (t == "ABS" || t == "DEF") {
                r = a;
                if (t == "DEF" && a.isNum) { bad = true; }
                for (auto& x : r.v) if (x) x = (t == "ABS") ? std::fabs(*x) : 1.0;
            } else {
                if (!a.isSet && a.hasNum) redOfNum = true;
                std::vector<double> d;
                for (auto& x : a.v) if (x) d.push_back(*x);
                if (d.empty()) { bad = true; return scalar(std::nullopt); }   // empty-set results: outside the reference's domain
                double acc = 0;
                if (t == "SUM") { for (double x : d) acc += x; }
                else if (t == "PROD") { acc = 1; for (double x : d) acc *= x; }
                else if (t == "MAX") { acc = d[0]; for (double x : d) acc = std::max(acc, x); }
                else if (t == "MIN") { acc = d[0]; for (double x : d) acc = std::min(acc, x); }
                else if (t == "AVEA") { for (double x : d) acc += x; acc /= static_cast<double>(d.size()); }
                else if (t == "NORM1") { for (double x : d) acc += std::fabs(x); }
                else if (t == "NORMI") { for (double x : d) acc = std::max(acc, std::fabs(x)); }
                r = scalar(acc);
            }
        }
        else {
            ++pos;
            char* end = nullptr;
            double x = std::strtod(t.c_str(), &end);
            if (*end == 0) { r = scalar(x); r.isNum = true; r.hasNum = true; }
            else if (t[0] == 'F') { auto it = w.fieldVals.find(t); if (it == w.fieldVals.end()) { bad = true; return scalar(std::nullopt); } r = scalar(it->second); }
            else if (t[0] == 'W') {
                // summary quantity, or a well-level UDQ (WU…) held in the UDQ state
                auto it = w.wellVars.find(t);
                if (it == w.wellVars.end()) { it = w.udqWell.find(t); if (it == w.udqWell.end()) { bad = true; return scalar(std::nullopt); } }
                r.isSet = true;
                for (auto& well : w.wells) { auto jt = it->second.find(well); r.v.push_back(jt == it->second.end() ? std::nullopt : fin(jt->second)); }
            }
            else { bad = true; return scalar(std::nullopt); }
        }
        for (auto& x : r.v) if (x) x = fin(sign * *x);
        return r;
    }
    RefVal power() {
        RefVal a = factor();
        if (peek("^")) {
            ++pos; RefVal b = power();
            // regions where the implementation is known to deviate (reported findings, witnessed separately below)
            auto scalarQ = [](const RefVal& x) { return !x.isSet && !x.isNum; };
            if ((a.isSet && scalarQ(b)) || (scalarQ(a) && b.isSet)) powSetScalar = true;
            if ((a.isNum && scalarQ(b)) || (scalarQ(a) && b.isNum)) powNumScalar = true;
            if ((a.isNum && b.isSet) || (a.isSet && b.isNum)) powNumSet = true;
            for (size_t i = 0; i < std::max(a.v.size(), b.v.size()); ++i) {
                auto x = a.v[a.v.size() == 1 ? 0 : i], y = b.v[b.v.size() == 1 ? 0 : i];
                if (x && !y) bad = true;
            }
            return lift2(a, b, [](double x, double y) { return std::pow(x, y); });
        }
        return a;
    }
    RefVal term() {
        RefVal a = power();
        while (peek("*") || peek("/")) {
            bool mul = toks[pos] == "*"; ++pos;
            RefVal b = power();
            a = mul ? lift2(a, b, [](double x, double y) { return x * y; }) : lift2(a, b, [](double x, double y) { return x / y; });
        }
        return a;
    }
    RefVal sum() {
        RefVal a = term();
        while (peek("+") || peek("-")) {
            bool add = toks[pos] == "+"; ++pos;
            RefVal b = term();
            a = add ? lift2(a, b, [](double x, double y) { return x + y; }) : lift2(a, b, [](double x, double y) { return x - y; });
        }
        return a;
    }
    RefVal cmp() {
        RefVal a = sum();
        if (peek("<") || peek(">")) {
            bool lt = toks[pos] == "<"; ++pos;
            RefVal b = cmp();
            return lt ? lift2(a, b, [](double x, double y) { return x < y ? 1.0 : 0.0; }) : lift2(a, b, [](double x, double y) { return x > y ? 1.0 : 0.0; });
        }
        return a;
    }
    // union operators: lowest rank; a chain `a U1 b U2 c` groups from the right, as `^` and the
    // comparisons do in the implementation (accepted convention, see Props/C17.lean).  Element-wise
    // `refUnionElem`; both operands must have the same size (no broadcasting of scalar quantities):
    // set with set, scalar with scalar, or a pure number expression, which takes the size of the
    // DEFINE's target type (checked by the caller through the two flags).
    bool unionNumScalar = false;            // number literal beside a scalar quantity: sizes agree only in a scalar DEFINE
    bool unionNumSet = false;               // number literal beside a set: sizes agree only in a set DEFINE
    RefVal setop() {
        RefVal a = cmp();
        if (peek("UADD") || peek("UMUL") || peek("UMIN") || peek("UMAX")) {
            std::string op = toks[pos]; ++pos;
            RefVal b = setop();
            if (a.isSet != b.isSet) {
                const RefVal& s = a.isSet ? b : a;
                if (!s.isNum) { bad = true; return scalar(std::nullopt); }     // the implementation throws "incompatible size"
                unionNumSet = true;
            } else if (!a.isSet && (a.hasNum || b.hasNum) && !(a.isNum && b.isNum)) unionNumScalar = true;
            RefVal r;
            r.isSet = a.isSet || b.isSet;
            r.isNum = a.isNum && b.isNum;
            r.hasNum = a.hasNum || b.hasNum;
            size_t n = r.isSet ? w.wells.size() : 1;
            for (size_t i = 0; i < n; ++i) r.v.push_back(refUnionElem(op, a.isSet ? a.v[i] : a.v[0], b.isSet ? b.v[i] : b.v[0]));
            return r;
        }
        return a;
    }
};

static bool closeEnough(double a, double b) {
    if (a == b) return true;
    double d = std::fabs(a - b), m = std::max(std::fabs(a), std::fabs(b));
    return d <= 1e-12 * m + 1e-300;
}

// property-mode generator: only constructs the reference understands
static Strs propExpr(vh::Rng& rng, const World& w, bool set, int depth) {
    auto cat = [](Strs& a, const Strs& b) { a.insert(a.end(), b.begin(), b.end()); };
    if (depth <= 0 || rng.coin(1, 4)) {
        if (set && rng.coin(2, 3)) return { rng.pick(Strs{ "WOPR", "WWPR", "WOPR", "WWPR", "WUA", "WUB" }) };
        if (rng.coin(1, 4)) return { rng.coin() ? "FOPR" : "FWPR" };
        return { rng.pick(kValues) };
    }
    int c = static_cast<int>(rng.below(10));
    if (c < 6) {
        static const Strs ops = { "+", "-", "*", "/", "^", "+", "-", "*", "<", ">", "UADD", "UMUL", "UMIN", "UMAX" };
        std::string op = rng.pick(ops);
        bool s1 = set && rng.coin(3, 4), s2 = set && rng.coin(3, 4);
        if (op == "^") { s1 = set; s2 = set; }
        if (op[0] == 'U') { s1 = set; s2 = set; }       // union operators do not broadcast: operands of the same size
        Strs out = propExpr(rng, w, s1, depth - 1);
        out.push_back(op);
        cat(out, propExpr(rng, w, s2, depth - 1));
        return out;
    }
    if (c < 8) { Strs out = { "(" }; cat(out, propExpr(rng, w, set, depth - 1)); out.push_back(")"); return out; }
    if (c < 9) {
        if (!set || rng.coin()) {
            static const Strs red = { "SUM", "MAX", "MIN", "AVEA", "NORM1", "NORMI", "PROD" };
            if (!set) { Strs out = { rng.pick(red), "(" }; cat(out, propExpr(rng, w, true, depth - 1)); out.push_back(")"); return out; }
        }
        Strs out = { rng.coin() ? "ABS" : "DEF", "(" }; cat(out, propExpr(rng, w, set, depth - 1)); out.push_back(")"); return out;
    }
    Strs out = { "-" };
    if (rng.coin()) cat(out, propExpr(rng, w, set, 0));
    else { out.push_back("("); cat(out, propExpr(rng, w, set, depth - 1)); out.push_back(")"); }
    return out;
}

// ---------------------------------------------------------------------------------------------
// value classes of the union probes: 0 negative, 1 zero, 2 positive, 3 tiny (|x| <= 1e-300, incl.
// the smallest normal and the smallest subnormal double), 4 huge (|x| >= 1e154, incl. +-DBL_MAX)
static double unionValue(vh::Rng& rng, int cls, int stream = 0) {
    using L = std::numeric_limits<double>;
    static const std::vector<std::vector<double>> vals = {
        { -5.0, -1.5, -1.0, -7.0, -0.001, -100.0, -2.0 },
        { 0.0 },
        { 2.0, 0.5, 7.0, 1.0, 3.25, 1000.0 },
        { L::min(), -L::min(), 1e-300, -1e-300, L::denorm_min(), -L::denorm_min(), 1e-310, -3e-308 },
        { 1e300, -1e300, L::max(), L::lowest(), 1e154, -3e200, 1e308 } };
    // every value of a class comes up in turn (random starting point), separately for the values of
    // one-sided elements (stream 1) and of elements defined in both operands (stream 2): the ten
    // one-sided draws per class of a systematic sweep contain every value of the class
    const auto& v = vals[static_cast<size_t>(cls)];
    if (stream == 0) return rng.pick(v);
    static std::vector<size_t> next[2];
    auto& nx = next[stream - 1];
    if (nx.empty()) for (auto& c : vals) nx.push_back(rng.below(c.size()));
    return v[nx[static_cast<size_t>(cls)]++ % v.size()];
}

static std::string g17(double x) { char b[40]; std::snprintf(b, sizeof b, "%.17g", x); return b; }
static std::string showOpt(const std::optional<double>& x) { return x ? g17(*x) : std::string("undef"); }

// one union test case: a set kind ('W' well, 'G' group, 'F' field scalar), element names and three
// operand vectors (A, B, C) with their definedness
struct UnionCase {
    char kind = 'W';
    Strs names;
    std::vector<std::optional<double>> a, b, c;
    std::string A() const { return std::string(1, kind) + "UA"; }
    std::string B() const { return std::string(1, kind) + "UB"; }
    std::string C() const { return std::string(1, kind) + "UC"; }
    World world() const {
        World w;
        auto fill = [&](std::map<std::string, double>& m, const std::vector<std::optional<double>>& v) {
            for (size_t i = 0; i < names.size(); ++i) if (v[i]) m[names[i]] = *v[i];
        };
        w.fieldVals["FOPR"] = 1.0; w.fieldVals["FWPR"] = 2.0;
        if (kind == 'W') {
            w.wells = names; w.groups = { "G1" };
            fill(w.udqWell["WUA"], a); fill(w.udqWell["WUB"], b); fill(w.udqWell["WUC"], c);
            // the same operands as summary quantities (undefined = the well has no such value)
            fill(w.wellVars["WOPR"], a); fill(w.wellVars["WWPR"], b);
            for (const char* v : { "WOPR", "WWPR" }) if (w.wellVars[v].empty()) w.wellVars.erase(v);   // no well has it: not a summary quantity at all
            w.groupVars["GOPR"]["G1"] = 1.0;
        } else if (kind == 'G') {
            w.wells = { "P1" }; w.groups = names;
            fill(w.udqGroup["GUA"], a); fill(w.udqGroup["GUB"], b); fill(w.udqGroup["GUC"], c);
            for (auto& g : names) w.groupVars["GOPR"][g] = 1.0;      // every group known to the summary state
            w.wellVars["WOPR"]["P1"] = 1.0; w.wellVars["WWPR"]["P1"] = 1.0;
        } else {
            w.wells = { "P1" }; w.groups = { "G1" };
            if (a[0]) w.udqScalars["FUA"] = *a[0];
            if (b[0]) w.udqScalars["FUB"] = *b[0];
            if (c[0]) w.udqScalars["FUC"] = *c[0];
            w.groupVars["GOPR"]["G1"] = 1.0;
            w.wellVars["WOPR"]["P1"] = 1.0; w.wellVars["WWPR"]["P1"] = 1.0;
        }
        return w;
    }
    std::string show() const {
        std::string s = std::string("kind=") + kind + " elements:";
        for (size_t i = 0; i < names.size(); ++i)
            s += " " + (kind == 'F' ? std::string("-") : names[i]) + "(A=" + showOpt(a[i]) + ",B=" + showOpt(b[i]) + ",C=" + showOpt(c[i]) + ")";
        return s;
    }
};

// element `i` gets definedness pattern `pat` (0 both, 1 left only, 2 right only, 3 neither) and
// value classes `ca`, `cb` for A and B; C is random
static void unionElement(vh::Rng& rng, UnionCase& uc, int pat, int ca, int cb) {
    const int stream = pat == 0 ? 2 : 1;
    uc.a.push_back((pat == 0 || pat == 1) ? std::optional<double>(unionValue(rng, ca, stream)) : std::nullopt);
    uc.b.push_back((pat == 0 || pat == 2) ? std::optional<double>(unionValue(rng, cb, stream)) : std::nullopt);
    uc.c.push_back(rng.coin(2, 3) ? std::optional<double>(unionValue(rng, static_cast<int>(rng.below(5)))) : std::nullopt);
}

// all 4 x 5 x 5 combinations laid out over sets of `per` elements (the last one may be shorter),
// in a random order, followed by `extra` random cases
static std::vector<UnionCase> unionCases(vh::Rng& rng, char kind, size_t per, int extra) {
    static const Strs wn = { "P1", "P2", "PA", "I1", "I2", "PB3", "Q7" };
    static const Strs gn = { "G1", "G2", "GA", "H1", "FIELD", "G3" };
    const Strs& pool = kind == 'G' ? gn : wn;
    if (kind == 'F') per = 1;
    per = std::min(per, pool.size());
    std::vector<std::array<int, 3>> combos;
    for (int p = 0; p < 4; ++p) for (int ca = 0; ca < 5; ++ca) for (int cb = 0; cb < 5; ++cb) combos.push_back({ p, ca, cb });
    for (size_t i = combos.size(); i > 1; --i) std::swap(combos[i - 1], combos[rng.below(i)]);
    std::vector<UnionCase> out;
    auto names = [&](size_t n) {
        Strs v(pool.begin(), pool.begin() + static_cast<long>(n));
        for (size_t i = v.size(); i > 1; --i) std::swap(v[i - 1], v[rng.below(i)]);      // insertion order of the wells is free
        if (kind == 'F') v = { "" };
        return v;
    };
    for (size_t k = 0; k < combos.size(); k += per) {
        UnionCase uc; uc.kind = kind;
        size_t n = std::min(per, combos.size() - k);
        uc.names = names(n);
        for (size_t i = 0; i < n; ++i) unionElement(rng, uc, combos[k + i][0], combos[k + i][1], combos[k + i][2]);
        out.push_back(uc);
    }
    for (int e = 0; e < extra; ++e) {
        UnionCase uc; uc.kind = kind;
        size_t n = kind == 'F' ? 1 : static_cast<size_t>(rng.range(1, static_cast<int>(pool.size())));
        uc.names = names(n);
        for (size_t i = 0; i < n; ++i) unionElement(rng, uc, static_cast<int>(rng.below(4)), static_cast<int>(rng.below(5)), static_cast<int>(rng.below(5)));
        out.push_back(uc);
    }
    return out;
}

static std::optional<UDQSet> realEval(const Strs& deck, char target, Env& env) {
    KeywordLocation loc;
    try {
        UDQDefine def(env.udqp, std::string(1, target) + "UX", 0, loc, deck);
        return def.eval(*env.ctx);
    } catch (...) {
        return std::nullopt;
    }
}

// ---------------------------------------------------------------------------------------------

// run `f` in a forked child: 0 = returned, 1 = threw, -signal = killed (SIGSEGV, SIGABRT, alarm)
static int runIsolated(const std::function<void()>& f) {
    std::cout.flush(); std::cerr.flush();
    pid_t pid = fork();
    if (pid < 0) return 0;
    if (pid == 0) {
        alarm(20);
        int rc = 0;
        try { f(); } catch (...) { rc = 1; }
        _exit(rc);
    }
    int st = 0;
    waitpid(pid, &st, 0);
    if (WIFSIGNALED(st)) return -WTERMSIG(st);
    return WEXITSTATUS(st);
}

static ParseContext lenientAll() {
    ParseContext pc;
    pc.update(ParseContext::UDQ_PARSE_ERROR, InputErrorAction::IGNORE);
    pc.update(ParseContext::UDQ_TYPE_ERROR, InputErrorAction::IGNORE);
    return pc;
}

static bool isSymbolTok(const std::string& t) {
    static const std::set<std::string> sym = { "+", "-", "*", "/", "^", "(", ")", "[", "]", "==", "!=", ">=", "<=", ">", "<" };
    return sym.count(t) > 0 || (!t.empty() && t[0] == '\'');
}

// glue neighbouring tokens into one deck item where this cannot merge two words
static Strs glueItems(vh::Rng& rng, const Strs& toks, int num, int den) {
    Strs items;
    for (size_t i = 0; i < toks.size(); ++i) {
        bool glue = i > 0 && (isSymbolTok(toks[i - 1]) || isSymbolTok(toks[i])) && rng.coin(num, den);
        // two comparison / sign characters in a row could form another operator ("<" "=" ...): keep them apart
        if (glue && !items.back().empty() && std::string("<>=!").find(items.back().back()) != std::string::npos && !toks[i].empty() && toks[i][0] == '=') glue = false;
        if (glue) items.back() += toks[i]; else items.push_back(toks[i]);
    }
    return items;
}

static std::string randNumber(vh::Rng& rng) {
    switch (rng.below(8)) {
    case 0: return std::to_string(rng.range(0, 9999));
    case 1: return std::to_string(rng.range(0, 99)) + "." + std::to_string(rng.range(0, 999));
    case 2: return std::to_string(rng.range(1, 9)) + "." + std::to_string(rng.range(0, 99)) + (rng.coin() ? "E" : "e") + rng.pick(Strs{ "", "+", "-" }) + std::to_string(rng.range(0, 12));
    case 3: return "." + std::to_string(rng.range(1, 99));
    case 4: return std::to_string(rng.range(0, 9)) + ".";
    case 5: return std::to_string(rng.range(1, 99)) + "e" + std::to_string(rng.range(0, 5));
    case 6: return "0." + std::string(static_cast<size_t>(rng.range(0, 4)), '0') + std::to_string(rng.range(1, 999));
    default: return rng.pick(kValues);
    }
}

// token strings of a DEFINE right-hand side for the tokeniser tests (well / scalar quantities only)
static Strs lexExpr(vh::Rng& rng, const World& w) {
    Gen g(rng, w, 'W');
    Strs e = g.expr(rng.coin() ? 'W' : 'S', rng.range(1, 4));
    for (auto& t : e) { char* end = nullptr; std::strtod(t.c_str(), &end); if (*end == 0 && rng.coin()) t = randNumber(rng); }
    if (rng.coin(1, 4)) {   // a table look-up somewhere
        Strs lk = { "TU_FBHP", "[", rng.pick(Strs{ "FOPR", "WOPR", "FUA" }), "]" };
        size_t p = rng.below(e.size() + 1);
        if (p < e.size()) { e.insert(e.begin() + static_cast<long>(p), rng.pick(Strs{ "+", "*" })); }
        else { e.push_back(rng.pick(Strs{ "+", "*" })); ++p; }
        e.insert(e.begin() + static_cast<long>(p), lk.begin(), lk.end());
    }
    return e;
}

static std::string defineTokens(const Strs& items, bool& unbalanced, bool& other) {
    UDQParams udqp;
    KeywordLocation loc;
    ErrorGuard errors;
    auto pc = lenientAll();
    unbalanced = other = false;
    std::string out;
    try {
        UDQDefine def(udqp, "WUX", 0, loc, items, pc, errors);
        for (auto& t : def.tokens()) out += " " + tokProto(t);
    } catch (const std::invalid_argument& e) {
        const std::string what = e.what();
        if (what.rfind("Unbalanced quotes", 0) == 0 || what.rfind("Missing ']'", 0) == 0) unbalanced = true; else other = true;
    } catch (const std::exception&) { other = true; }
    errors.clear();
    return out;
}

// ---------------------------------------------------------------------------------------------
// well-name matching and sort ranks: generators shared by the correspondence and property mode

// independent reference for fnmatch(p, s, 0) on `*` / `?` / literal (iterative, with backtracking
// to the last star — not the recursion of the Lean model)
static bool refGlob(const std::string& p, const std::string& s) {
    size_t pi = 0, si = 0, star = std::string::npos, mark = 0;
    while (si < s.size()) {
        if (pi < p.size() && p[pi] == '*') { star = pi++; mark = si; }
        else if (pi < p.size() && (p[pi] == '?' || p[pi] == s[si])) { ++pi; ++si; }
        else if (star != std::string::npos) { pi = star + 1; si = ++mark; }
        else return false;
    }
    while (pi < p.size() && p[pi] == '*') ++pi;
    return pi == p.size();
}

static std::string randName(vh::Rng& rng) {
    static const std::string alpha = "PPPIAB12310-._X";
    std::string n;
    int len = rng.range(rng.coin(1, 10) ? 0 : 1, 6);
    for (int i = 0; i < len; ++i) n += alpha[rng.below(alpha.size())];
    return n;
}

// a pattern: a name with characters replaced by / interleaved with `*` and `?`, or a short random one
static std::string randPattern(vh::Rng& rng, const std::string& base) {
    std::string p;
    if (rng.coin(1, 5)) {
        static const std::string alpha = "PI1*?*AB.";
        int len = rng.range(0, 5);
        for (int i = 0; i < len; ++i) p += alpha[rng.below(alpha.size())];
        return p;
    }
    for (char c : base) {
        switch (rng.below(8)) {
        case 0: p += '*'; break;
        case 1: p += '?'; break;
        case 2: p += '*'; p += c; break;
        case 3: break;
        default: p += c;
        }
    }
    if (rng.coin(1, 3)) p += '*';
    return p;
}

static Strs randWellOrder(vh::Rng& rng, int lo, int hi) {
    Strs v;
    int n = rng.range(lo, hi);
    while (static_cast<int>(v.size()) < n) {
        std::string c = randName(rng);
        if (!c.empty() && std::find(v.begin(), v.end(), c) == v.end()) v.push_back(c);
    }
    return v;
}

// values for a sort argument: few distinct values (ties), signed zeros, undefined elements
static std::vector<std::optional<double>> randSortArg(vh::Rng& rng, int n) {
    std::vector<std::optional<double>> v;
    int distinct = rng.coin(1, 4) ? n + 5 : rng.range(1, 6);
    int pu = rng.range(0, 3);
    for (int i = 0; i < n; ++i) {
        if (rng.coin(pu, 6)) { v.push_back(std::nullopt); continue; }
        double x = static_cast<double>(rng.below(static_cast<uint64_t>(distinct))) * 0.5 - 1.0;
        if (x == 0.0 && rng.coin()) x = -0.0;
        // values that differ far below single precision, and huge ones: distinct for the comparison
        if (rng.coin(1, 6)) x += static_cast<double>(rng.range(-3, 3)) * 1e-12;
        else if (rng.coin(1, 30)) x *= 1e300;
        v.push_back(x);
    }
    return v;
}

static UDQSet sortArgSet(const std::vector<std::optional<double>>& v) {
    Strs names;
    for (size_t i = 0; i < v.size(); ++i) names.push_back("W" + std::to_string(i));
    UDQSet s = UDQSet::wells("WUX", names);
    for (size_t i = 0; i < v.size(); ++i) if (v[i]) s.assign(i, *v[i]);
    return s;
}

static std::string showSortArg(const std::vector<std::optional<double>>& v) {
    if (v.empty()) return "-";
    std::string out;
    for (size_t i = 0; i < v.size(); ++i) { if (i) out += ","; out += v[i] ? vh::hexF64(*v[i]) : std::string("u"); }
    return out;
}

// ranks of a SORTA / SORTD result as integers (`x` = not a whole number in 1..n: never expected)
static std::string showRanks(const UDQSet& r) {
    if (r.size() == 0) return "-";
    std::string out;
    for (size_t i = 0; i < r.size(); ++i) {
        if (i) out += ",";
        if (!r[i].defined()) { out += "u"; continue; }
        double x = r[i].get();
        if (x >= 1.0 && x <= 1e9 && x == std::floor(x)) out += std::to_string(static_cast<long>(x)); else out += "x";
    }
    return out;
}

int main(int argc, char** argv) {
    if (argc < 5) { std::cerr << "usage: udq corr|prop <seed> <tier> <outdir>\n"; return 2; }
    const std::string mode = argv[1];
    const uint64_t seed = std::strtoull(argv[2], nullptr, 10);
    const std::string tier = argv[3];
    const std::string outdir = argv[4];
    fs::create_directories(outdir);
    vh::Rng rng(seed * 1000003ULL + 7919ULL);   // vh::Rng streams of neighbouring seeds are shifted copies; spread them
    const bool thorough = tier == "thorough";
    const Strs bins = allBinary();

    if (mode == "corr") {
        vh::Sink sink(outdir);
        // (1) parser: every ordered pair and triple of binary operators over scalar leaves
        {
            Strs leaves = { "1", "2", "3", "4", "FOPR" };
            for (auto& o1 : bins) for (auto& o2 : bins) {
                emitParse(sink, simpleTokens({ "2", o1, "3", o2, "4" }), 'F', "pair");
                emitParse(sink, simpleTokens({ "2", o1, "-", "3", o2, "(", "4", o1, "FOPR", ")" }), 'F', "pair_signed");
            }
            for (auto& o1 : bins) for (auto& o2 : bins) for (auto& o3 : bins)
                emitParse(sink, simpleTokens({ "2", o1, "3", o2, "4", o3, "5" }), 'F', "triple");
        }
        // (2) parser: random grammar sequences and token-level mutations of them (malformed shapes)
        {
            World w0 = makeWorld(rng, false);
            int n = thorough ? 6000 : 1500;
            Strs alphabet = { "(", ")", "+", "-", "*", "/", "^", "<", "==", "UADD", "SUM", "ABS", "MAX", "2", "FOPR", "3.5", "DIV", "NINT", "UMIN", ">=" };
            for (int k = 0; k < n; ++k) {
                Gen g(rng, w0, 'W');
                Strs e = g.expr('S', rng.range(1, 5));
                // scalar-only alphabet for the parser test: drop selector-carrying leaves
                Strs flat;
                static const std::set<std::string> setQ = { "WOPR", "WWPR", "WUA", "GOPR", "GUA" };
                for (auto& s : e) {
                    if (s.size() > 1 && s[0] == '\'') continue;
                    // keep the parser test free of well/group type mixing (UDQ::coerce throws on it; var_type is not modelled)
                    flat.push_back(setQ.count(s) ? std::string("FWPR") : s);
                }
                auto toks = simpleTokens(flat);
                emitParse(sink, toks, 'F', "grammar");
                int nm = rng.range(1, 3);
                Strs mut = flat;
                for (int j = 0; j < nm && !mut.empty(); ++j) {
                    size_t p = rng.below(mut.size());
                    switch (rng.below(3)) {
                    case 0: mut.erase(mut.begin() + static_cast<long>(p)); break;
                    case 1: mut.insert(mut.begin() + static_cast<long>(p), rng.pick(alphabet)); break;
                    default: mut[p] = rng.pick(alphabet); break;
                    }
                }
                if (!mut.empty()) emitParse(sink, simpleTokens(mut), 'F', "mutated");
            }
        }
        // (3) evaluation: grammar expressions through UDQDefine(...).eval(context)
        auto emitEval = [&](const World& w, char target, const Strs& deck, const std::set<std::string>& patterns, bool libm, const std::string& tag) {
            Env env(w);
            KeywordLocation loc;
            ErrorGuard errors;
            auto pc = lenientTypes();
            std::string ans, toksProto;
            bool evaluable = true, skip = false;
            try {
                UDQDefine def(env.udqp, std::string(1, target) + "UX", 0, loc, deck, pc, errors);
                for (auto& t : def.tokens()) toksProto += " " + tokProto(t);
                if (wouldRunOffTheEnd(def.tokens())) skip = true;
                DefineReader dr;
                def.serializeOp(dr);
                std::string tree = showTree(*dr.ast, evaluable);
                NodeInfo top = readNode(*dr.ast);
                if (top.type == UDQTokenType::number && def.tokens().size() != 1) skip = true;   // type-error replacement
                if (!skip && evaluable) {
                    sink.emit("udq.parse" + toksProto, "ast " + tree);
                    sink.count("parse.define");
                    try { ans = "ok " + showSet(def.eval(*env.ctx)); } catch (const std::exception&) { ans = "err"; }
                } else skip = true;
            } catch (const std::exception&) { skip = true; }
            errors.clear();
            if (skip) { sink.count(tag + ".skipped"); return; }
            sink.emit(std::string("udq.eval ") + target + " " + worldProto(w, env, patterns) + " |" + toksProto, ans);
            sink.count(tag + ".target." + target);
            sink.count(ans == "err" ? tag + ".answer.err" : tag + ".answer.ok");
            if (libm) sink.count(tag + ".uses_libm");
        };
        {
            int nworlds = thorough ? 120 : 30, per = thorough ? 60 : 40;
            for (int wi = 0; wi < nworlds; ++wi) {
                bool positive = rng.coin(1, 3);
                World w = makeWorld(rng, positive);
                for (int k = 0; k < per; ++k) {
                    char target = rng.pick(std::vector<char>{ 'F', 'W', 'W', 'G' });
                    char setKind = target == 'G' ? 'G' : 'W';
                    Gen g(rng, w, setKind);
                    Strs deck = g.expr(target == 'F' ? 'S' : (rng.coin(1, 5) ? 'S' : setKind), rng.range(1, 5));
                    emitEval(w, target, deck, g.patterns, g.libm, "eval");
                }
            }
        }
        // (3m) name matching inside the model: Opm::shmatch, WellMatcher::wells (wildcards, well lists,
        //      leading backslash, plain names) and the sort ranks of SORTA / SORTD called directly
        {
            int nm = thorough ? 6000 : 1500;
            for (int k = 0; k < nm; ++k) {
                std::string name = randName(rng);
                std::string pat = rng.coin(1, 6) ? name : randPattern(rng, rng.coin(1, 4) ? randName(rng) : name);
                sink.emit("udq.match " + hexOrDash(pat) + " " + hexOrDash(name), shmatch(pat, name) ? "1" : "0");
                sink.count(shmatch(pat, name) ? "match.yes" : "match.no");
                if (pat.find('?') != std::string::npos) sink.count("match.with_question");
            }
            int nw = thorough ? 2400 : 600;
            for (int k = 0; k < nw; ++k) {
                World w;
                w.wells = randWellOrder(rng, 0, 9);
                w.hasWlm = !rng.coin(1, 4);
                if (w.hasWlm) {
                    int nl = rng.range(0, 4);
                    for (int i = 0; i < nl; ++i) {
                        Strs ws;
                        for (auto& well : w.wells) if (rng.coin()) ws.push_back(well);
                        for (size_t j = ws.size(); j > 1; --j) std::swap(ws[j - 1], ws[rng.below(j)]);
                        if (rng.coin(1, 10)) ws.insert(ws.begin() + static_cast<long>(rng.below(ws.size() + 1)), "NOWELL");
                        w.wlists["*" + rng.pick(Strs{ "L1", "L2", "PL", "LIST10", "P1", "A" })] = ws;
                    }
                }
                NameOrder order(w.wells);
                WListManager wlm = Env::makeWlm(w);
                WellMatcher wm = w.hasWlm ? WellMatcher(&order, wlm) : WellMatcher(NameOrder(w.wells));
                for (int q = 0; q < 4; ++q) {
                    std::string pat;
                    switch (rng.below(6)) {
                    case 0: pat = w.wells.empty() ? "P1" : rng.pick(w.wells); break;                       // a plain name
                    case 1: pat = "*" + rng.pick(Strs{ "L1", "L2", "PL", "L*", "*", "?1", "P*", "NOLIST", "L?", "" }); break;   // well lists
                    case 2: pat = "\\" + randPattern(rng, w.wells.empty() ? "P1" : rng.pick(w.wells)); break;  // '\*P*'
                    default: pat = randPattern(rng, w.wells.empty() ? "P1" : rng.pick(w.wells));
                    }
                    std::string ans;
                    try { ans = "ok " + listHex(wm.wells(pat)); } catch (const std::exception&) { ans = "err"; }
                    sink.emit("udq.wells W=" + listHex(wm.wells()) + matcherProto(w) + " | " + hexOrDash(pat), ans);
                    sink.count(ans == "err" ? "wells.err" : ans == "ok -" ? "wells.none" : "wells.some");
                    if (!pat.empty() && pat[0] == '*' && pat.size() > 1) sink.count("wells.wlist_pattern");
                }
            }
            UDQParams udqp;
            UDQFunctionTable udqft(udqp);
            int ns = thorough ? 3000 : 800;
            for (int k = 0; k < ns; ++k) {
                bool big = rng.coin(1, 3);
                auto arg = randSortArg(rng, big ? rng.range(17, 90) : rng.range(0, 16));
                UDQSet set = sortArgSet(arg);
                size_t ndef = 0;
                for (auto& x : arg) if (x) ++ndef;
                for (const char* fn : { "SORTA", "SORTD" }) {
                    const auto& f = dynamic_cast<const UDQUnaryElementalFunction&>(udqft.get(fn));
                    std::string ranks = showRanks(f.eval(set));
                    std::string d(1, fn[4]);
                    if (ndef <= 16) { sink.emit("udq.sort " + d + " " + showSortArg(arg), ranks); sink.count("sort.exact"); }
                    // whatever the size: the answer of the real code against the specification
                    sink.emit("udq.sortchk " + d + " " + showSortArg(arg) + " " + ranks, "ok");
                    sink.count(ndef <= 16 ? "sortchk.small" : "sortchk.large");
                }
            }
        }
        // (3u) the union operators on well / group sets and field scalars: every definedness pattern
        //      (both / left only / right only / neither) x value classes negative, zero, positive,
        //      tiny, huge of either operand; plain, swapped, with arithmetic around, with a number
        //      (one-sided NEGATIVE and ZERO values are in every run by construction)
        {
            const int extra = thorough ? 60 : 10;
            for (char kind : { 'W', 'G', 'F' }) {
                for (const UnionCase& uc : unionCases(rng, kind, static_cast<size_t>(rng.range(3, 6)), extra)) {
                    World w = uc.world();
                    const std::string A = uc.A(), B = uc.B(), C = uc.C();
                    for (const std::string& op : kUnion) {
                        emitEval(w, kind, { A, op, B }, {}, false, "union");
                        emitEval(w, kind, { B, op, A }, {}, false, "union");
                        switch (rng.below(6)) {
                        case 0: emitEval(w, kind, { A, "*", "2", op, B, "-", "1" }, {}, false, "union"); break;
                        case 1: emitEval(w, kind, { "-", A, op, "-", B }, {}, false, "union"); break;
                        case 2: emitEval(w, kind, { A, op, rng.pick(Strs{ "0", "2.5", "1e-300" }) }, {}, false, "union"); break;
                        case 3: emitEval(w, kind, { "-", "1", op, A }, {}, false, "union"); break;
                        case 4: emitEval(w, kind, { A, op, B, rng.pick(kUnion), C }, {}, false, "union"); break;
                        default: emitEval(w, kind, { "(", A, op, B, ")", rng.pick(kUnion), C }, {}, false, "union"); break;
                        }
                        if (kind == 'W' && w.wellVars.count("WOPR") && w.wellVars.count("WWPR") && rng.coin(1, 3))
                            emitEval(w, kind, { "WOPR", op, "WWPR" }, {}, false, "union");
                    }
                }
            }
        }
        // (4) ASSIGN / DEFINE / UPDATE histories through the real UDQConfig::eval
        {
            int nh = thorough ? 3000 : 600;
            Strs qs = { "FUA", "FUB", "FUC" };
            for (int k = 0; k < nh; ++k) {
                UDQParams udqp;
                UDQConfig cfg(udqp);
                SummaryState st(TimeService::now(), udqp.undefinedValue());
                UDQState udq_state(udqp.undefinedValue());
                WellMatcher wm(NameOrder(Strs{ "P1" }));
                KeywordLocation loc;
                std::string op = "udq.hist " + listHex(qs);
                std::string ans;
                bool dead = false;
                int steps = rng.range(1, 5);
                size_t step = 0;
                for (int s = 0; s < steps && !dead; ++s) {
                    int ne = rng.range(0, 4);
                    for (int e = 0; e < ne && !dead; ++e) {
                        std::string q = rng.pick(qs);
                        int kind = static_cast<int>(rng.below(3));
                        try {
                            if (kind == 0) {
                                double v = static_cast<double>(rng.range(-3, 9));
                                op += " A:" + hexOrDash(q) + ":" + vh::hexF64(v);
                                cfg.add_assign(q, {}, Strs{}, v, step);
                            } else if (kind == 1) {
                                double c = static_cast<double>(rng.range(0, 20));
                                if (rng.coin()) {
                                    op += " D:" + hexOrDash(q) + ":c:" + vh::hexF64(c);
                                    cfg.add_define(q, loc, Strs{ std::to_string(static_cast<int>(c)) }, step);
                                } else {
                                    std::string q2 = rng.pick(qs);
                                    op += " D:" + hexOrDash(q) + ":p:" + hexOrDash(q2) + ":" + vh::hexF64(c);
                                    cfg.add_define(q, loc, Strs{ q2, "+", std::to_string(static_cast<int>(c)) }, step);
                                }
                            } else {
                                std::string u = rng.pick(Strs{ "ON", "OFF", "NEXT" });
                                op += " U:" + hexOrDash(q) + ":" + u;
                                cfg.add_update(q, step, loc, Strs{ u });
                            }
                        } catch (const std::exception&) {
                            ans += (ans.empty() ? "" : ";") + std::string("err");
                            dead = true;
                        }
                    }
                    if (dead) break;
                    op += " /";
                    try {
                        cfg.eval(step, wm, {}, {}, st, udq_state);
                    } catch (const std::exception&) { ans += (ans.empty() ? "" : ";") + std::string("throw"); dead = true; break; }
                    std::string line;
                    for (size_t i = 0; i < qs.size(); ++i) {
                        if (i) line += ",";
                        line += udq_state.has(qs[i]) ? vh::hexF64(udq_state.get(qs[i])) : std::string("u");
                    }
                    ans += (ans.empty() ? "" : ";") + line;
                    ++step;
                }
                sink.emit(op, ans);
                sink.count("hist");
            }
        }
        // (6) var_type / static type check: parseUDQExpression with the DEFINE's target type.
        //     Every chain of three operands over well / group / field / scalar leaves, with and
        //     without parentheses, and random (also malformed) token sequences.
        {
            struct LeafSpec { std::string name; Strs sel; };
            const std::vector<LeafSpec> leaves = { { "WOPR", {} }, { "GOPR", {} }, { "FOPR", {} }, { "1", {} }, { "WOPR", { "P1" } },
                                                   { "WOPR", { "P*" } }, { "GOPR", { "G1" } }, { "WUA", {} }, { "FUA", {} }, { "TCPU", {} },
                                                   { "TU_FBHP", { "FOPR" } }, { "TU_WT", { "WOPR" } } };
            auto mk = [&](const std::vector<std::string>& spec) {
                // spec items: operator / parenthesis / function strings, or "#k" = leaf number k
                std::vector<UDQToken> out;
                for (auto& s : spec) {
                    if (s[0] == '#') { const LeafSpec& l = leaves[static_cast<size_t>(std::stoi(s.substr(1)))];
                        if (UDQ::tokenType(l.name) == UDQTokenType::number) out.emplace_back(l.name, UDQTokenType::number); else out.emplace_back(l.name, l.sel); }
                    else {
                        auto ty = UDQ::tokenType(s);
                        if (ty == UDQTokenType::ecl_expr) out.emplace_back(s, Strs{}); else out.emplace_back(s, ty);
                    }
                }
                return out;
            };
            auto emitType = [&](const std::vector<UDQToken>& toks, char target, const std::string& tag) {
                UDQParams udqp;
                KeywordLocation loc;
                ErrorGuard errors;
                auto pc = lenientTypes();
                std::string ans;
                try {
                    auto ast = parseUDQExpression(udqp, targetOf(target), std::string(1, target) + "UX", loc, toks, pc, errors);
                    NodeInfo top = readNode(*ast);
                    if (top.type == UDQTokenType::number && std::get<double>(top.value) == udqp.undefinedValue()
                        && !(toks.size() == 1 && toks[0].type() == UDQTokenType::number))
                        ans = "typeerr";
                    else { bool ev = true; ans = "ok " + std::to_string(static_cast<int>(top.vt)) + " " + showTree(*ast, ev); }
                } catch (const std::logic_error&) { ans = "throw"; }      // UDQ::coerce, unsupported variable type
                catch (const std::exception&) { ans = "err"; }
                errors.clear();
                std::string op = std::string("udq.vtype ") + target;
                for (auto& t : toks) op += " " + tokProto(t);
                sink.emit(op, ans);
                sink.count("vtype." + tag);
                sink.count("vtype.answer." + ans.substr(0, ans.find(' ')));
            };
            const std::vector<char> targets = { 'W', 'G', 'F' };
            for (int a = 0; a < 5; ++a) for (int b = 0; b < 5; ++b) for (int c = 0; c < 5; ++c)
                for (const char* o : { "+", "*" }) for (char t : targets) {
                    std::string A = "#" + std::to_string(a), B = "#" + std::to_string(b), C = "#" + std::to_string(c);
                    emitType(mk({ A, o, B, o, C }), t, "chain3");
                    if (t == 'F' || thorough) {
                        emitType(mk({ "(", A, o, B, ")", o, C }), t, "chain3_paren");
                        emitType(mk({ A, o, "(", B, o, C, ")" }), t, "chain3_paren");
                    }
                }
            for (int a = 0; a < 5; ++a) for (int b = 0; b < 5; ++b) for (char t : targets)
                for (const char* o : { "+", "-", "*", "/", "^", "<", "UADD" })
                    emitType(mk({ "#" + std::to_string(a), o, "#" + std::to_string(b) }), t, "pair");
            int n = thorough ? 15000 : 3000;
            const Strs ops = { "+", "-", "*", "/", "^", "<", "==", "UADD", "UMIN" };
            const Strs funcs = { "SUM", "MAX", "ABS", "DEF", "SORTA", "AVEA" };
            const Strs odd = { "COFR", "AAQR", "BPR", ")", "(", "+", "*" };
            std::function<void(Strs&, int)> gen = [&](Strs& out, int depth) {
                int c = static_cast<int>(rng.below(10));
                if (depth <= 0 || c < 3) { out.push_back("#" + std::to_string(rng.below(leaves.size()))); return; }
                if (c < 7) { int terms = rng.range(2, 4); std::string o = rng.pick(ops);
                    for (int i = 0; i < terms; ++i) { if (i) out.push_back(rng.coin(3, 4) ? o : rng.pick(ops)); gen(out, depth - 1); } return; }
                if (c < 8) { out.push_back("("); gen(out, depth - 1); out.push_back(")"); return; }
                if (c < 9) { out.push_back(rng.pick(funcs)); out.push_back("("); gen(out, depth - 1); out.push_back(")"); return; }
                out.push_back("-"); gen(out, depth - 1);
            };
            for (int k = 0; k < n; ++k) {
                Strs spec; gen(spec, rng.range(1, 4));
                if (rng.coin(1, 5) && !spec.empty()) {
                    size_t p = rng.below(spec.size());
                    switch (rng.below(3)) {
                    case 0: spec.erase(spec.begin() + static_cast<long>(p)); break;
                    case 1: spec.insert(spec.begin() + static_cast<long>(p), rng.pick(odd)); break;
                    default: spec[p] = rng.pick(odd); break;
                    }
                }
                if (spec.empty()) continue;
                emitType(mk(spec), rng.pick(targets), "random");
            }
        }
        // (7) tokenisation of the DEFINE record: UDQDefine(deck items).tokens() vs the model of
        //     quote_split / next_token / normalize_string_tokens / make_udq_tokens
        {
            World w0 = makeWorld(rng, false);
            int n = thorough ? 12000 : 3000;
            for (int k = 0; k < n; ++k) {
                Strs toks = lexExpr(rng, w0);
                Strs items = glueItems(rng, toks, rng.range(0, 3), 3);
                if (rng.coin(1, 12)) {   // blanks inside an item, other white space at its ends
                    size_t p = rng.below(items.size());
                    items[p] = rng.pick(Strs{ " ", "\t", "" }) + items[p] + rng.pick(Strs{ " ", "  ", "\t" });
                }
                if (rng.coin(1, 25)) { size_t p = rng.below(items.size()); items[p] += "'"; }   // unbalanced quote
                if (rng.coin(1, 25)) { items.push_back(rng.pick(Strs{ "+", "*" })); items.push_back("TU_FBHP"); if (rng.coin()) { items.push_back("["); items.push_back("FOPR"); } }   // table look-up without ']' 
                bool unb = false, other = false;
                std::string ans = defineTokens(items, unb, other);
                if (other) { sink.count("lex.skipped"); continue; }
                std::string op = "udq.tokenize";
                for (auto& it : items) op += " " + vh::hex(it);
                sink.emit(op, unb ? std::string("err") : "ok" + ans);
                sink.count(unb ? "lex.unbalanced" : "lex.ok");
                sink.count("lex.items", static_cast<long>(items.size()));
            }
        }
        // (5) definedness histories of well / group / field level DEFINEs through the real
        //     UDQConfig::eval + UDQState: the summary values (and which of them exist) change from
        //     report step to report step, elements become undefined and defined again, quantities
        //     read each other (this step's or the previous step's value, by input order) and are
        //     occasionally re-DEFINEd; after every step the whole UDQState content is compared.
        {
            int nh = thorough ? 3000 : 600;
            for (int k = 0; k < nh; ++k) {
                World w0 = makeWorld(rng, rng.coin(1, 3));
                UDQParams udqp;
                UDQConfig cfg(udqp);
                UDQState udq_state(udqp.undefinedValue());
                NameOrder order0(w0.wells);
                WListManager wlm0 = Env::makeWlm(w0);
                WellMatcher wm = w0.hasWlm ? WellMatcher(&order0, wlm0) : WellMatcher(NameOrder(w0.wells));
                KeywordLocation loc;
                struct QD { std::string key; char target; };
                std::vector<QD> order;
                std::set<std::string> patterns;
                std::string op = "udq.whist";
                bool bad = false;
                auto define = [&](const std::string& key, char target, size_t step) {
                    for (int attempt = 0; attempt < 8; ++attempt) {
                        char setKind = target == 'G' ? 'G' : 'W';
                        Gen g(rng, w0, setKind);
                        Strs deck;
                        if (rng.coin(1, 3)) {
                            // division by a difference that is zero for some elements: undefined there
                            std::string q = target == 'G' ? "GOPR" : target == 'W' ? (rng.coin() ? "WOPR" : "WWPR") : "FOPR";
                            deck = { rng.pick(kValues), "/", "(", q, "-", std::to_string(rng.range(0, 3)), ")" };
                            if (rng.coin()) { deck.push_back(rng.pick(Strs{ "+", "*", "UADD" })); Strs l = g.leaf(target == 'F' ? 'S' : setKind); deck.insert(deck.end(), l.begin(), l.end()); }
                        } else {
                            deck = g.expr(target == 'F' ? 'S' : (rng.coin(1, 6) ? 'S' : setKind), rng.range(1, 3));
                        }
                        try {
                            ErrorGuard errors;
                            auto pc = lenientTypes();
                            {   // the same parse outside the configuration first: type errors / malformed trees are skipped
                                UDQDefine probe(udqp, key, step, loc, deck, pc, errors);
                                DefineReader dr; probe.serializeOp(dr);
                                bool evaluable = true; showTree(*dr.ast, evaluable);
                                NodeInfo top = readNode(*dr.ast);
                                errors.clear();
                                if (!evaluable || (top.type == UDQTokenType::number && probe.tokens().size() != 1)) continue;
                            }
                            cfg.add_define(key, loc, deck, step);
                            std::string toks;
                            for (auto& t : cfg.define(key).tokens()) toks += " " + tokProto(t);
                            op += std::string(" ; D ") + hexOrDash(key) + " " + target + toks;
                            for (auto& p : g.patterns) patterns.insert(p);
                            return true;
                        } catch (const std::exception&) { }
                    }
                    return false;
                };
                std::vector<QD> cands = { { "WUA", 'W' }, { "GUA", 'G' }, { "FUA", 'F' }, { "WUB", 'W' }, { "FUB", 'F' } };
                for (size_t i = cands.size(); i > 1; --i) std::swap(cands[i - 1], cands[rng.below(i)]);
                size_t nq = static_cast<size_t>(rng.range(2, 5));
                for (size_t i = 0; i < nq && !bad; ++i) { if (define(cands[i].key, cands[i].target, 0)) order.push_back(cands[i]); }
                if (order.empty()) { sink.count("whist.skipped"); continue; }
                std::string ans;
                int steps = rng.range(2, 5);
                for (int sidx = 0; sidx < steps; ++sidx) {
                    if (sidx > 0 && rng.coin(1, 4)) { const QD& q = order[rng.below(order.size())]; define(q.key, q.target, static_cast<size_t>(sidx)); }
                    World w = makeWorld(rng, rng.coin(1, 3));
                    w.wells = w0.wells; w.groups = w0.groups;
                    // makeWorld drew values for its own well list; redraw them for the fixed one
                    w.wellVars.clear(); w.groupVars.clear();
                    for (const char* v : { "WOPR", "WWPR" }) {
                        for (auto& well : w.wells) if (!rng.coin(1, 4)) w.wellVars[v][well] = rng.coin(1, 3) ? static_cast<double>(rng.range(0, 3)) : randVal(rng);
                        if (w.wellVars[v].empty()) w.wellVars[v][w.wells[0]] = randVal(rng);
                    }
                    for (auto& g : w.groups) w.groupVars["GOPR"][g] = rng.coin(1, 3) ? static_cast<double>(rng.range(0, 3)) : randVal(rng);
                    if (rng.coin(1, 3)) w.fieldVals["FOPR"] = static_cast<double>(rng.range(0, 3));
                    SummaryState st(TimeService::now(), udqp.undefinedValue());
                    for (auto& kv : w.fieldVals) st.update(kv.first, kv.second);
                    for (auto& var : w.wellVars) for (auto& kv : var.second) st.update_well_var(kv.first, var.first, kv.second);
                    for (auto& var : w.groupVars) for (auto& kv : var.second) st.update_group_var(kv.first, var.first, kv.second);
                    Strs groups;
                    {
                        UDQFunctionTable udqft(udqp);
                        std::unordered_map<std::string, UDT> tables;
                        UDQContext ctx(udqft, wm, tables, UDQContext::MatcherFactories{}, st, udq_state);
                        groups = ctx.groups();
                        op += " ; S E=" + vh::hexF64(udqp.cmpEpsilon()) + " W=" + listHex(ctx.wells()) + " G=" + listHex(groups);
                        op += matcherProto(w0);
                    }
                    if (!w.fieldVals.empty()) op += " F:" + entries(w.fieldVals);
                    for (auto& var : w.wellVars) op += " WV:" + hexOrDash(var.first) + ":" + entries(var.second);
                    for (auto& var : w.groupVars) op += " GV:" + hexOrDash(var.first) + ":" + entries(var.second);
                    bool threw = false;
                    try { cfg.eval(static_cast<size_t>(sidx), wm, {}, {}, st, udq_state); } catch (const std::exception&) { threw = true; }
                    if (threw) { ans += (ans.empty() ? "" : ";") + std::string("throw"); sink.count("whist.throw"); break; }
                    std::string line;
                    for (size_t qi = 0; qi < order.size(); ++qi) {
                        const QD& q = order[qi];
                        if (qi) line += "/";
                        if (q.target == 'F') { line += udq_state.has(q.key) ? vh::hexF64(udq_state.get(q.key)) : std::string("u"); continue; }
                        const Strs& names = q.target == 'W' ? wm.wells() : groups;
                        if (names.empty()) { line += "-"; continue; }
                        for (size_t i = 0; i < names.size(); ++i) {
                            bool has = q.target == 'W' ? udq_state.has_well_var(names[i], q.key) : udq_state.has_group_var(names[i], q.key);
                            double v = has ? (q.target == 'W' ? udq_state.get_well_var(names[i], q.key) : udq_state.get_group_var(names[i], q.key)) : 0.0;
                            line += (i ? "," : "") + hexOrDash(names[i]) + "=" + (has ? vh::hexF64(v) : std::string("u"));
                            sink.count(has ? "whist.elem.defined" : "whist.elem.undefined");
                        }
                    }
                    ans += (ans.empty() ? "" : ";") + line;
                    sink.count("whist.steps");
                }
                sink.emit(op, ans);
                sink.count("whist");
            }
        }
        sink.writeStats(outdir + "/stats.json");
        return 0;
    }

    if (mode == "prop") {
        vh::PropLog log(outdir + "/prop.txt");
        std::map<std::string, long> stats;
        // (a) random expressions: real evaluator vs the independent reference
        int nworlds = thorough ? 200 : 50, per = thorough ? 80 : 40;
        for (int wi = 0; wi < nworlds; ++wi) {
            World w = makeWorld(rng, rng.coin());
            w.udqScalars.clear(); w.udqGroup.clear();
            // two well-level UDQs with undefined elements (operands of the union operators)
            w.udqWell.clear(); w.udqWell["WUA"]; w.udqWell["WUB"];
            for (const char* q : { "WUA", "WUB" }) for (auto& well : w.wells) if (rng.coin()) w.udqWell[q][well] = randVal(rng);
            for (int k = 0; k < per; ++k) {
                bool set = rng.coin(2, 3);
                Strs deck = propExpr(rng, w, set, rng.range(1, 5));
                RefEval ref(deck, w);
                RefVal rv = ref.setop();
                if (ref.bad || ref.pos != deck.size() || ref.powSetScalar || (ref.powNumScalar && rv.isSet)
                    || (ref.powNumSet && !rv.isSet) || (ref.redOfNum && rv.isSet)
                    || (ref.unionNumScalar && rv.isSet) || (ref.unionNumSet && !rv.isSet)) { ++stats["ref_out_of_domain"]; continue; }
                for (auto& t : deck) if (t[0] == 'U') { ++stats["ref_eval.with_union"]; break; }
                Env env(w);
                auto res = realEval(deck, rv.isSet ? 'W' : 'F', env);
                std::string key = "ref-eval";
                if (!res) { log.fail(key, "expr=" + joinStrs(deck) + " impl=exception seed=" + std::to_string(seed)); continue; }
                bool okk = true;
                std::string detail;
                if (rv.isSet) {
                    for (size_t i = 0; i < w.wells.size() && okk; ++i) {
                        const auto& s = (*res)[w.wells[i]];
                        if (s.defined() != rv.v[i].has_value() || (s.defined() && !closeEnough(s.get(), *rv.v[i]))) {
                            okk = false;
                            detail = "well=" + w.wells[i] + " impl=" + (s.defined() ? std::to_string(s.get()) : "undef") + " ref=" + (rv.v[i] ? std::to_string(*rv.v[i]) : "undef");
                        }
                    }
                } else {
                    const auto& s = (*res)[0];
                    if (s.defined() != rv.v[0].has_value() || (s.defined() && !closeEnough(s.get(), *rv.v[0]))) {
                        okk = false;
                        detail = std::string("impl=") + (s.defined() ? std::to_string(s.get()) : "undef") + " ref=" + (rv.v[0] ? std::to_string(*rv.v[0]) : "undef");
                    }
                }
                if (okk) { log.ok(); ++stats[rv.isSet ? "ref_eval.set" : "ref_eval.scalar"]; }
                else log.fail(key, "expr=" + joinStrs(deck) + " " + detail + " seed=" + std::to_string(seed));
            }
        }
        // (b) precedence / associativity identities on the real evaluator alone
        {
            World w = makeWorld(rng, true);
            Env env(w);
            auto val = [&](const Strs& d) -> std::optional<double> {
                auto r = realEval(d, 'F', env);
                if (!r || !(*r)[0].defined()) return std::nullopt;
                return (*r)[0].get();
            };
            Strs ar = { "+", "-", "*", "/", "^" };
            auto rank = [](const std::string& o) { return o == "^" ? 3 : (o == "*" || o == "/") ? 2 : 1; };
            Strs nums = { "2", "3", "1.5", "4", "0.5", "7" };
            int reps = thorough ? 40 : 10;
            for (int rep = 0; rep < reps; ++rep) {
                std::string a = rng.pick(nums), b = rng.pick(nums), c = rng.pick(nums);
                for (auto& o1 : ar) for (auto& o2 : ar) {
                    Strs flat = { a, o1, b, o2, c };
                    // documented: higher rank first; equal rank left to right (^: right to left, as implemented)
                    bool leftFirst = rank(o1) > rank(o2) || (rank(o1) == rank(o2) && o1 != "^");
                    Strs par = leftFirst ? Strs{ "(", a, o1, b, ")", o2, c } : Strs{ a, o1, "(", b, o2, c, ")" };
                    auto x = val(flat), y = val(par);
                    if (x.has_value() != y.has_value() || (x && *x != *y))
                        log.fail("precedence", "expr=" + joinStrs(flat) + " expected-as=" + joinStrs(par) + " got=" + (x ? std::to_string(*x) : "undef") + " want=" + (y ? std::to_string(*y) : "undef"));
                    else { log.ok(); ++stats["precedence.pairs"]; }
                }
                // comparisons bind weaker than arithmetic, union operators weaker than comparisons
                for (auto& o1 : ar) {
                    Strs flat = { a, o1, b, "<", c, o1, a };
                    Strs par = { "(", a, o1, b, ")", "<", "(", c, o1, a, ")" };
                    auto x = val(flat), y = val(par);
                    if (x.has_value() != y.has_value() || (x && *x != *y)) log.fail("precedence.cmp", "expr=" + joinStrs(flat));
                    else { log.ok(); ++stats["precedence.cmp"]; }
                    Strs flat2 = { a, "<", b, "UADD", c, o1, a };
                    Strs par2 = { "(", a, "<", b, ")", "UADD", "(", c, o1, a, ")" };
                    x = val(flat2); y = val(par2);
                    if (x.has_value() != y.has_value() || (x && *x != *y)) log.fail("precedence.union", "expr=" + joinStrs(flat2));
                    else { log.ok(); ++stats["precedence.union"]; }
                }
            }
        }
        // (d) deterministic witnesses of the documented set semantics for `^` and the comparisons
        {
            World w;
            w.wells = { "P1", "P2" }; w.groups = { "G1" };
            w.fieldVals["FOPR"] = 2.0;
            w.wellVars["WOPR"] = { { "P1", 2.0 }, { "P2", 3.0 } };
            w.groupVars["GOPR"] = { { "G1", 1.0 } };
            w.udqWell["WUA"] = { { "P1", 5.0 } };
            Env env(w);
            auto show = [&](const std::optional<UDQSet>& r) {
                if (!r) return std::string("exception");
                std::string o;
                for (size_t i = 0; i < r->size(); ++i) o += (i ? "," : "") + ((*r)[i].defined() ? std::to_string((*r)[i].get()) : std::string("undef"));
                return o;
            };
            auto expect = [&](const std::string& key, const Strs& deck, char target, const std::vector<std::optional<double>>& want) {
                auto r = realEval(deck, target, env);
                bool okk = r && r->size() == want.size();
                for (size_t i = 0; okk && i < want.size(); ++i)
                    okk = (*r)[i].defined() == want[i].has_value() && (!want[i] || (*r)[i].get() == *want[i]);
                if (okk) { log.ok(); ++stats["witness"]; }
                else log.fail(key, "expr=" + joinStrs(deck) + " got=" + show(r));
            };
            expect("pow-broadcast", { "WOPR", "^", "FOPR" }, 'W', { 4.0, 9.0 });
            expect("pow-broadcast", { "FOPR", "^", "WOPR" }, 'W', { 4.0, 8.0 });
            expect("pow-undefined", { "WOPR", "^", "WUA" }, 'W', { 32.0, std::nullopt });
            expect("cmp-zero-lhs", { "0", "<=", "1" }, 'F', { 1.0 });
            expect("cmp-zero-lhs", { "0", "==", "1" }, 'F', { 0.0 });
            expect("cmp-sign", { "-", "1", "<=", "-", "2" }, 'F', { 0.0 });
            expect("cmp-sign", { "-", "2", "<=", "-", "1" }, 'F', { 1.0 });
            expect("cmp-sign", { "-", "1", ">=", "-", "2" }, 'F', { 1.0 });
            expect("cmp-sign", { "-", "2", ">=", "-", "1" }, 'F', { 0.0 });
            expect("witness", { "0", ">=", "1" }, 'F', { 0.0 });
            expect("witness", { "0", "==", "0" }, 'F', { 1.0 });
            expect("witness", { "1", "<=", "1.00001" }, 'F', { 1.0 });
            expect("witness", { "1.00001", "<=", "1" }, 'F', { 1.0 });     // within the relative tolerance 1e-4
            expect("witness", { "1.1", "<=", "1" }, 'F', { 0.0 });
            // malformed input ending where an operand is required: a parse error, not an out-of-range access
            for (const Strs& deck : { Strs{ "(" }, Strs{ "1", "+", "(" }, Strs{ "ABS", "(" }, Strs{ "1", "*", "-" }, Strs{ "(", "-" }, Strs{ "2", "^", "(", "3", "+" } }) {
                bool threw = false;
                try { KeywordLocation loc; UDQDefine def(env.udqp, "FUX", 0, loc, deck); } catch (const std::exception&) { threw = true; }
                if (threw) { log.ok(); ++stats["witness"]; } else log.fail("parse-end", "expr=" + joinStrs(deck) + " accepted");
            }
            expect("witness", { "WOPR", "*", "FOPR" }, 'W', { 4.0, 6.0 });
            expect("witness", { "WOPR", "*", "WUA" }, 'W', { 10.0, std::nullopt });
            expect("witness", { "2", "^", "3", "*", "4" }, 'F', { 32.0 });
            expect("witness", { "2", "^", "3", "^", "2" }, 'F', { 512.0 });
            expect("witness", { "16", "-", "8", "-", "4" }, 'F', { 4.0 });
            expect("witness", { "16", "/", "8", "/", "4" }, 'F', { 0.5 });
        }
        // (u) the set union operators UADD / UMUL / UMIN / UMAX on well sets, group sets and field
        //     scalars: every definedness pattern (both / left only / right only / neither) x value
        //     classes (negative, zero, positive, tiny, huge) of either operand.
        //     union-ref:  real UDQDefine::eval and the registered UDQBinaryFunction vs `refUnionElem`;
        //     union-law:  algebraic laws stated on the real results alone (no reference).
        {
            std::map<std::string, int> nreported;
            auto failU = [&](const std::string& key, const std::string& detail) {
                ++stats[key + ".instances"];
                if (++nreported[key] <= 3) log.fail(key, detail);     // first witnesses only, the rest is counted
            };
            using OptV = std::vector<std::optional<double>>;
            auto same = [](const std::optional<double>& x, const std::optional<double>& y) {
                return x.has_value() == y.has_value() && (!x || *x == *y);
            };
            auto finO = [](double x) { return std::isfinite(x) ? std::optional<double>(x) : std::nullopt; };
            auto mapO = [&](const OptV& v, const std::function<double(double)>& f) {
                OptV r; for (auto& x : v) r.push_back(x ? finO(f(*x)) : std::nullopt); return r;
            };
            const int extra = thorough ? 200 : 40;
            for (char kind : { 'W', 'G', 'F' }) {
                const auto cases = unionCases(rng, kind, static_cast<size_t>(rng.range(3, 6)), extra);
                for (const UnionCase& uc : cases) {
                    World w = uc.world();
                    Env env(w);
                    const size_t n = uc.names.size();
                    const std::string K(1, kind);
                    // value vector of an expression on the real code, element by NAME; nullopt = exception
                    auto ev = [&](const Strs& deck) -> std::optional<OptV> {
                        try {
                            auto r = realEval(deck, kind, env);
                            if (!r || r->size() != n) return std::nullopt;
                            OptV v;
                            for (size_t i = 0; i < n; ++i) {
                                const auto& s = kind == 'F' ? (*r)[0] : (*r)[uc.names[i]];
                                v.push_back(s.defined() ? std::optional<double>(s.get()) : std::nullopt);
                            }
                            return v;
                        } catch (...) { return std::nullopt; }
                    };
                    auto report = [&](const std::string& key, const std::string& what, const std::optional<OptV>& got, const OptV& want) {
                        bool okk = got.has_value();
                        size_t bad = 0;
                        if (okk) for (size_t i = 0; i < n; ++i) if (!same((*got)[i], want[i])) { okk = false; bad = i; break; }
                        if (okk) { log.ok(); ++stats[key + "." + K]; return; }
                        failU(key, what + " : " + (got ? "element '" + uc.names[bad] + "' impl=" + showOpt((*got)[bad]) + " expected=" + showOpt(want[bad]) : std::string("impl=exception"))
                              + " | " + uc.show() + " seed=" + std::to_string(seed));
                    };
                    auto define = [&](const Strs& deck) { return "DEFINE " + K + "UX " + joinStrs(deck); };
                    auto unionRef = [&](const std::string& op, const OptV& x, const OptV& y) {
                        OptV r; for (size_t i = 0; i < n; ++i) r.push_back(refUnionElem(op, x[i], y[i])); return r;
                    };
                    const std::string A = uc.A(), B = uc.B(), C = uc.C();
                    // the operands as the real code sees them (must be what was put into the state)
                    const auto ra = ev({ A }), rb = ev({ B }), rc = ev({ C });
                    report("union-ref.operand", define({ A }), ra, uc.a);
                    report("union-ref.operand", define({ B }), rb, uc.b);
                    if (!ra || !rb || !rc) continue;
                    // MAX / MIN over the defined elements of the same operands (all-negative, all-zero,
                    // tiny and huge sets included); the scalar result goes to every element of the target
                    if (kind != 'F') for (const OptV* v : { &uc.a, &uc.b }) for (const std::string fn : { "MAX", "MIN" }) {
                        std::optional<double> m;
                        for (auto& x : *v) if (x) m = !m ? *x : (fn == "MAX" ? std::max(*m, *x) : std::min(*m, *x));
                        const Strs deck = { fn, "(", v == &uc.a ? A : B, ")" };
                        report("reduction-ref", define(deck), ev(deck), OptV(n, m));
                    }
                    for (const std::string& op : kUnion) {
                        // ---- against the reference
                        auto refCheck = [&](const Strs& deck, const OptV& want) { report("union-ref", define(deck), ev(deck), want); };
                        refCheck({ A, op, B }, unionRef(op, uc.a, uc.b));
                        refCheck({ B, op, A }, unionRef(op, uc.b, uc.a));
                        refCheck({ "(", A, ")", op, "(", B, ")" }, unionRef(op, uc.a, uc.b));
                        // union operators bind weakest: A * 2 op B - 1  =  (A * 2) op (B - 1)
                        refCheck({ A, "*", "2", op, B, "-", "1" },
                                 unionRef(op, mapO(uc.a, [](double x) { return x * 2.0; }), mapO(uc.b, [](double x) { return x - 1.0; })));
                        refCheck({ "-", A, op, "-", B }, unionRef(op, mapO(uc.a, [](double x) { return -x; }), mapO(uc.b, [](double x) { return -x; })));
                        // a number is defined for every element
                        for (double c : { 0.0, 2.5, -1.0 }) {
                            Strs num = c < 0 ? Strs{ "-", "1" } : Strs{ c == 0.0 ? "0" : "2.5" };
                            OptV cs(n, std::optional<double>(c));
                            Strs d1 = { A, op }; d1.insert(d1.end(), num.begin(), num.end());
                            Strs d2 = num; d2.push_back(op); d2.push_back(A);
                            refCheck(d1, unionRef(op, uc.a, cs));
                            refCheck(d2, unionRef(op, cs, uc.a));
                        }
                        // the same operands as summary quantities (a well without the value = undefined)
                        if (kind == 'W' && w.wellVars.count("WOPR") && w.wellVars.count("WWPR")) {
                            refCheck({ "WOPR", op, "WWPR" }, unionRef(op, uc.a, uc.b));
                            refCheck({ "WWPR", op, "WOPR" }, unionRef(op, uc.b, uc.a));
                        }
                        // the registered function object itself, on hand-made sets
                        {
                            auto mk = [&](const std::string& nm, const OptV& v) {
                                UDQSet s = kind == 'W' ? UDQSet::wells(nm, uc.names) : kind == 'G' ? UDQSet::groups(nm, uc.names) : UDQSet::scalar(nm, v[0]);
                                if (kind != 'F') for (size_t i = 0; i < n; ++i) if (v[i]) s.assign(uc.names[i], *v[i]);
                                return s;
                            };
                            std::optional<OptV> got;
                            try {
                                const auto& func = dynamic_cast<const UDQBinaryFunction&>(env.udqft.get(op));
                                UDQSet r = func.eval(mk(A, uc.a), mk(B, uc.b));
                                if (r.size() == n) { OptV v; for (size_t i = 0; i < n; ++i) v.push_back(r[i].defined() ? std::optional<double>(r[i].get()) : std::nullopt); got = v; }
                            } catch (...) {}
                            report("union-ref.function", "UDQFunctionTable::get(" + op + ").eval(A, B)", got, unionRef(op, uc.a, uc.b));
                        }
                        // ---- laws on the real results alone
                        const auto ab = ev({ A, op, B }), ba = ev({ B, op, A });
                        if (!ab || !ba) { failU("union-law.commutative", define({ A, op, B }) + " : exception | " + uc.show()); continue; }
                        report("union-law.commutative", define({ A, op, B }) + " vs " + define({ B, op, A }), ab, *ba);
                        // an operand without any defined element is the identity of every union operator
                        report("union-law.undefined-operand", define({ A, op, "(", B, "/", "0", ")" }) + " must equal " + A, ev({ A, op, "(", B, "/", "0", ")" }), *ra);
                        report("union-law.undefined-operand", define({ "(", B, "/", "0", ")", op, A }) + " must equal " + A, ev({ "(", B, "/", "0", ")", op, A }), *ra);
                        // element-wise: exactly one operand defined -> its value; none -> undefined;
                        // both -> UADD/UMUL agree with + and *, UMAX/UMIN pick one of the two and bound both
                        const auto plain = op == "UADD" ? ev({ A, "+", B }) : op == "UMUL" ? ev({ A, "*", B }) : std::optional<OptV>();
                        {
                            bool okk = true; std::string why;
                            for (size_t i = 0; i < n && okk; ++i) {
                                const auto &x = (*ra)[i], &y = (*rb)[i], &z = (*ab)[i];
                                auto say = [&](const std::string& s) { okk = false; why = "element '" + uc.names[i] + "' A=" + showOpt(x) + " B=" + showOpt(y) + " result=" + showOpt(z) + ": " + s; };
                                if (!x && !y) { if (z) say("undefined in both operands but defined in the result"); }
                                else if (x && !y) { if (!same(z, x)) say("defined only in A: the result must be A's value"); }
                                else if (!x && y) { if (!same(z, y)) say("defined only in B: the result must be B's value"); }
                                else if (op == "UMAX") { if (!z || *z < *x || *z < *y || (*z != *x && *z != *y)) say("UMAX must be one of the operands and >= both"); }
                                else if (op == "UMIN") { if (!z || *z > *x || *z > *y || (*z != *x && *z != *y)) say("UMIN must be one of the operands and <= both"); }
                                else if (plain && !same(z, (*plain)[i])) say("both defined: must agree with A " + std::string(op == "UADD" ? "+" : "*") + " B = " + showOpt((*plain)[i]));
                            }
                            if (okk) { log.ok(); ++stats["union-law.elementwise." + K]; }
                            else failU("union-law.elementwise", define({ A, op, B }) + " : " + why + " | " + uc.show() + " seed=" + std::to_string(seed));
                        }
                        if (op == "UMAX" || op == "UMIN") {
                            const std::string dual = op == "UMAX" ? "UMIN" : "UMAX";
                            report("union-law.idempotent", define({ A, op, A }) + " must equal " + A, ev({ A, op, A }), *ra);
                            report("union-law.duality", define({ "-", "(", "-", A, dual, "-", B, ")" }) + " must equal " + define({ A, op, B }),
                                   ev({ "-", "(", "-", A, dual, "-", B, ")" }), *ab);
                            const auto l = ev({ "(", A, op, B, ")", op, C }), r = ev({ A, op, "(", B, op, C, ")" });
                            if (l && r) report("union-law.associative", define({ "(", A, op, B, ")", op, C }) + " vs " + define({ A, op, "(", B, op, C, ")" }), l, *r);
                            else failU("union-law.associative", define({ "(", A, op, B, ")", op, C }) + " : exception | " + uc.show());
                        }
                    }
                }
            }
        }
        // (m) well-name matching, on the real code alone
        {
            auto check = [&](bool okk, const std::string& key, const std::string& detail) {
                if (okk) { log.ok(); ++stats[key]; return; }
                ++stats[key + ".instances"];
                if (stats[key + ".instances"] <= 3) log.fail(key, detail);
            };
            int nm = thorough ? 8000 : 2000;
            for (int k = 0; k < nm; ++k) {
                std::string name = randName(rng), other = rng.coin() ? randName(rng) : name + rng.pick(Strs{ "1", "P", "", "." });
                std::string pat = randPattern(rng, rng.coin(1, 4) ? other : name);
                // the documented meaning of `*` and `?`
                check(shmatch(pat, name) == refGlob(pat, name), "match-ref", "pattern='" + pat + "' name='" + name + "' impl=" + (shmatch(pat, name) ? "match" : "no match"));
                // a pattern without `*` / `?` matches exactly itself
                check(shmatch(name, other) == (name == other), "match-literal", "pattern='" + name + "' name='" + other + "'");
                check(shmatch("*", name) && shmatch(name + "*", name) && shmatch("*" + name, name) && shmatch(std::string(name.size(), '?'), name)
                      && !shmatch(std::string(name.size() + 1, '?'), name), "match-star", "name='" + name + "'");
            }
            int nw = thorough ? 1600 : 400;
            for (int k = 0; k < nw; ++k) {
                World w = makeWorld(rng, false);
                if (rng.coin()) { w.wells = randWellOrder(rng, 1, 12); w.wlists.clear(); }
                w.wellVars.clear(); w.udqWell.clear();
                for (auto& well : w.wells) if (!rng.coin(1, 4)) w.wellVars["WOPR"][well] = randVal(rng);
                if (w.wellVars["WOPR"].empty()) w.wellVars["WOPR"][w.wells[0]] = 1.0;
                for (auto& kv : w.wlists) kv.second.erase(std::remove(kv.second.begin(), kv.second.end(), std::string("NOWELL")), kv.second.end());
                World w2 = w;     // the same wells entered in another order
                for (size_t i = w2.wells.size(); i > 1; --i) std::swap(w2.wells[i - 1], w2.wells[rng.below(i)]);
                Env env(w), env2(w2);
                for (int q = 0; q < 4; ++q) {
                    bool listPat = w.hasWlm && !w.wlists.empty() && rng.coin(1, 4);
                    std::string pat = listPat ? rng.pick(Strs{ "*L1", "*L2", "*PL", "*L*", "*LIST10", "*?L", "*L?" }) : randPattern(rng, rng.pick(w.wells));
                    if (pat.find('*') == std::string::npos) pat += "*";
                    bool escaped = !listPat && rng.coin(1, 5);                              // '\*P*': the backslash is dropped
                    if (!listPat && !escaped && pat[0] == '*' && pat.size() > 1) pat = "?" + pat;      // a leading `*` means a well list
                    const std::string body = pat;
                    if (escaped) pat = "\\" + pat;
                    std::set<std::string> expect;
                    if (listPat) {
                        for (auto& kv : w.wlists)
                            if (kv.first == pat || (w.wlists.count(pat) == 0 && refGlob(pat.substr(1), kv.first.substr(1))))
                                expect.insert(kv.second.begin(), kv.second.end());
                    } else for (auto& well : w.wells) if (refGlob(body, well)) expect.insert(well);
                    Strs got = env.wm.wells(pat), got2 = env2.wm.wells(pat);
                    Strs want, want2;
                    for (auto& well : w.wells) if (expect.count(well)) want.push_back(well);
                    for (auto& well : w2.wells) if (expect.count(well)) want2.push_back(well);
                    check(got == want, "wells-ref", "wells=" + joinStrs(w.wells) + " pattern='" + pat + "' impl=" + joinStrs(got) + " expected=" + joinStrs(want));
                    check(got2 == want2, "wells-order-independent", "wells=" + joinStrs(w2.wells) + " pattern='" + pat + "' impl=" + joinStrs(got2) + " expected=" + joinStrs(want2));
                    // the set `WOPR 'pattern'`: one entry per well of the schedule, in schedule order, defined
                    // exactly for the matching wells that have a value
                    for (int side = 0; side < 2; ++side) {
                        const World& ww = side ? w2 : w;
                        auto res = realEval({ "WOPR", "'" + pat + "'" }, 'W', side ? env2 : env);
                        std::string in = "wells=" + joinStrs(ww.wells) + " DEFINE WUX WOPR '" + pat + "'";
                        if (!res) { check(false, "wellset-ref", in + " threw"); continue; }
                        bool okk = res->size() == ww.wells.size();
                        std::string bad;
                        for (size_t i = 0; okk && i < res->size(); ++i) {
                            const auto& e = (*res)[i];
                            auto it = w.wellVars.at("WOPR").find(ww.wells[i]);
                            bool def = expect.count(ww.wells[i]) && it != w.wellVars.at("WOPR").end();
                            if (e.wgname() != ww.wells[i] || e.defined() != def || (def && e.get() != it->second)) { okk = false; bad = ww.wells[i]; }
                        }
                        check(okk, "wellset-ref", in + " : element '" + bad + "' (size " + std::to_string(res->size()) + ") expected " + (expect.count(bad) ? "matching" : "not matching"));
                    }
                }
            }
        }
        // (s) SORTA / SORTD: ranks are a permutation of 1..n over the defined elements that respects the
        //     strict order; the tie order is whatever std::sort does, but the same every time
        {
            auto check = [&](bool okk, const std::string& key, const std::string& detail) {
                if (okk) { log.ok(); ++stats[key]; return; }
                ++stats[key + ".instances"];
                if (stats[key + ".instances"] <= 3) log.fail(key, detail);
            };
            UDQParams udqp;
            UDQFunctionTable udqft(udqp);
            int ns = thorough ? 4000 : 1000;
            for (int k = 0; k < ns; ++k) {
                bool viaDefine = rng.coin(1, 4);
                auto arg = randSortArg(rng, rng.coin(1, 3) ? rng.range(17, 120) : rng.range(1, 16));
                size_t n = 0;
                for (auto& x : arg) if (x) ++n;
                World w;
                if (viaDefine) {
                    for (size_t i = 0; i < arg.size(); ++i) { w.wells.push_back("W" + std::to_string(i)); if (arg[i]) w.wellVars["WOPR"][w.wells.back()] = *arg[i]; }
                    if (n == 0) { w.wellVars["WOPR"][w.wells[0]] = 1.0; arg[0] = 1.0; n = 1; }
                    w.groups = { "G1" };
                }
                for (const char* fn : { "SORTA", "SORTD" }) {
                    bool asc = fn[4] == 'A';
                    std::optional<UDQSet> r1, r2;
                    if (viaDefine) { Env env(w); r1 = realEval({ fn, "(", "WOPR", ")" }, 'W', env); r2 = realEval({ fn, "(", "WOPR", ")" }, 'W', env); }
                    else {
                        const auto& f = dynamic_cast<const UDQUnaryElementalFunction&>(udqft.get(fn));
                        r1 = f.eval(sortArgSet(arg)); r2 = f.eval(sortArgSet(arg));
                    }
                    std::string in = std::string(fn) + (viaDefine ? "(WOPR) " : " ") + "values=";
                    for (auto& x : arg) in += (x ? g17(*x) : std::string("undef")) + " ";
                    if (!r1 || !r2 || r1->size() != arg.size()) { check(false, "sort-rank", in + "threw / wrong size"); continue; }
                    in += "ranks=" + showRanks(*r1);
                    std::vector<int> seen(n + 1, 0);
                    bool perm = true, order = true, same = true;
                    for (size_t i = 0; i < arg.size(); ++i) {
                        const auto& e = (*r1)[i];
                        if (e.defined() != arg[i].has_value()) { perm = false; continue; }
                        if (e.defined() != (*r2)[i].defined() || (e.defined() && e.get() != (*r2)[i].get())) same = false;
                        if (!e.defined()) continue;
                        double x = e.get();
                        if (!(x >= 1.0 && x <= static_cast<double>(n) && x == std::floor(x)) || seen[static_cast<size_t>(x)]++) perm = false;
                    }
                    for (size_t i = 0; perm && i < arg.size(); ++i) for (size_t j = 0; j < arg.size(); ++j) {
                        if (!arg[i] || !arg[j]) continue;
                        bool before = asc ? *arg[i] < *arg[j] : *arg[i] > *arg[j];
                        if (before && !((*r1)[i].get() < (*r1)[j].get())) order = false;
                    }
                    check(perm, "sort-rank.permutation", in);
                    check(!perm || order, "sort-rank.order", in);
                    check(same, "sort-rank.deterministic", in);
                }
            }
        }
        // (c) ASSIGN / DEFINE / UPDATE: the last applicable record decides (stated on UDQConfig alone)
        {
            int nh = thorough ? 2000 : 400;
            for (int k = 0; k < nh; ++k) {
                UDQParams udqp;
                UDQConfig cfg(udqp);
                SummaryState st(TimeService::now(), udqp.undefinedValue());
                UDQState udq_state(udqp.undefinedValue());
                WellMatcher wm(NameOrder(Strs{ "P1" }));
                KeywordLocation loc;
                // reference bookkeeping for one quantity FUA with constant definitions
                std::optional<double> expect;          // value the documentation predicts after the step
                std::optional<double> defConst; std::string status = "ON"; bool lastIsDefine = false;
                std::string trace;
                int steps = rng.range(1, 5);
                bool okk = true;
                for (int s = 0; s < steps && okk; ++s) {
                    int ne = rng.range(0, 3);
                    std::optional<double> assignedThisStep;
                    for (int e = 0; e < ne; ++e) {
                        int kind = static_cast<int>(rng.below(3));
                        if (kind == 0) {
                            double v = static_cast<double>(rng.range(1, 9));
                            cfg.add_assign("FUA", {}, Strs{}, v, static_cast<size_t>(s));
                            assignedThisStep = v; lastIsDefine = false; trace += " A" + std::to_string(static_cast<int>(v));
                        } else if (kind == 1) {
                            int c = rng.range(10, 30);
                            cfg.add_define("FUA", loc, Strs{ std::to_string(c) }, static_cast<size_t>(s));
                            defConst = c; status = "ON"; lastIsDefine = true; trace += " D" + std::to_string(c);
                        } else if (defConst) {
                            std::string u = rng.pick(Strs{ "ON", "OFF", "NEXT" });
                            cfg.add_update("FUA", static_cast<size_t>(s), loc, Strs{ u });
                            status = u; trace += " U" + u;
                        }
                    }
                    trace += " /";
                    cfg.eval(static_cast<size_t>(s), wm, {}, {}, st, udq_state);
                    if (assignedThisStep) expect = assignedThisStep;
                    if (lastIsDefine && status != "OFF") { expect = defConst; if (status == "NEXT") status = "OFF"; }
                    std::optional<double> got;
                    if (udq_state.has("FUA")) got = udq_state.get("FUA");
                    if (got != expect) {
                        okk = false;
                        log.fail("assign-define-order", "history=" + trace + " got=" + (got ? std::to_string(*got) : "undef") + " want=" + (expect ? std::to_string(*expect) : "undef"));
                    }
                }
                if (okk) { log.ok(); ++stats["history"]; }
            }
        }
        // (d) definedness histories: a well-level DEFINE whose elements become undefined and defined again
        //     over the report steps, read back from UDQState and through dependent DEFINEs (the value of a
        //     quantity at each report step; undefined elements propagate, also across steps)
        {
            int nh = thorough ? 1500 : 300;
            for (int k = 0; k < nh; ++k) {
                UDQParams udqp;
                UDQConfig cfg(udqp);
                SummaryState st(TimeService::now(), udqp.undefinedValue());
                UDQState udq_state(udqp.undefinedValue());
                int nw = rng.range(2, 4);
                Strs wells; for (int w = 0; w < nw; ++w) wells.push_back("P" + std::to_string(w + 1));
                WellMatcher wm{ NameOrder(wells) };
                KeywordLocation loc;
                const int c = rng.range(2, 6);
                // WUA = 1 / (WOPR - c): undefined (division by zero) exactly where WOPR == c
                cfg.add_define("WUA", loc, Strs{ "1", "/", "(", "WOPR", "-", std::to_string(c), ")" }, 0);
                cfg.add_define("WUB", loc, Strs{ "WUA", "+", "10" }, 0);
                cfg.add_define("FUS", loc, Strs{ "SUM", "(", "WUA", ")" }, 0);
                std::string trace = "c=" + std::to_string(c);
                int steps = rng.range(2, 5);
                bool okk = true;
                for (int sidx = 0; sidx < steps && okk; ++sidx) {
                    std::vector<int> wopr(nw);
                    trace += " step" + std::to_string(sidx) + ":";
                    for (int w = 0; w < nw; ++w) { wopr[w] = rng.coin(2, 5) ? c : rng.range(c + 1, c + 9); st.update_well_var(wells[w], "WOPR", wopr[w]); trace += " " + std::to_string(wopr[w]); }
                    cfg.eval(static_cast<size_t>(sidx), wm, {}, {}, st, udq_state);
                    double sum = 0; int ndef = 0;
                    for (int w = 0; w < nw && okk; ++w) {
                        bool def = wopr[w] != c;
                        double want = def ? 1.0 / (wopr[w] - c) : 0.0;
                        if (def) { sum += want; ++ndef; }
                        bool hasA = udq_state.has_well_var(wells[w], "WUA"), hasB = udq_state.has_well_var(wells[w], "WUB");
                        if (hasA != def) { okk = false; log.fail("definedness-history", trace + " : WUA(" + wells[w] + ") is " + (hasA ? "defined" : "undefined") + " in UDQState, expected " + (def ? "defined" : "undefined")); break; }
                        if (hasB != def) { okk = false; log.fail("definedness-history", trace + " : WUB=WUA+10 at " + wells[w] + " is " + (hasB ? "defined" : "undefined") + ", expected " + (def ? "defined" : "undefined")); break; }
                        if (def && std::fabs(udq_state.get_well_var(wells[w], "WUA") - want) > 1e-12) { okk = false; log.fail("definedness-history", trace + " : WUA(" + wells[w] + ") value"); break; }
                        if (def && std::fabs(udq_state.get_well_var(wells[w], "WUB") - (want + 10)) > 1e-12) { okk = false; log.fail("definedness-history", trace + " : WUB(" + wells[w] + ") value"); break; }
                    }
                    if (okk && ndef > 0) {
                        if (!udq_state.has("FUS") || std::fabs(udq_state.get("FUS") - sum) > 1e-12) { okk = false; log.fail("definedness-history", trace + " : FUS=SUM(WUA) is " + (udq_state.has("FUS") ? std::to_string(udq_state.get("FUS")) : std::string("undefined")) + ", expected " + std::to_string(sum)); }
                    }
                }
                if (okk) { log.ok(); ++stats["definedness_history"]; }
            }
        }
        // every cause is reported once (first witness), further instances are only counted
        std::set<std::string> reported;
        auto failOnce = [&](const std::string& key, const std::string& detail) {
            ++stats[key + ".instances"];
            if (reported.insert(key).second) log.fail(key, detail);
        };
        // (e) an operator, parenthesis or bracket where an operand is required must be a parse error.
        //     (Acceptance only: the accepted trees hold a childless operator node whose evaluation
        //     dereferences a null pointer, so they are never evaluated here.)
        {
            Env env(makeWorld(rng, true));
            const std::vector<Strs> decks = { { "1", "+", "*" }, { "-", "*", "+", "2" }, { "1", "+", "UADD" }, { "2", "*", "<" }, { "2", "^", "*" },
                                             { "1", "+", "==" }, { "1", "*", "^" }, { "(", "1", "+", "/", ")" }, { "ABS", "(", "2", "-", "UMAX", ")" },
                                             { "1", "<", "+", "*" }, { "FOPR", "UADD", "-", "/" } };
            for (const Strs& deck : decks) {
                bool threw = false;
                try { KeywordLocation loc; UDQDefine def(env.udqp, "FUX", 0, loc, deck); } catch (const std::exception&) { threw = true; }
                if (threw) { log.ok(); ++stats["operand_required"]; }
                else failOnce("operator-as-operand", "DEFINE FUX " + joinStrs(deck) + " : accepted; the tree holds an operator node without operands (null dereference when evaluated)");
            }
            // random: replace one operand of a well-formed scalar expression by an operator
            int n = thorough ? 400 : 100;
            for (int k = 0; k < n; ++k) {
                Strs a = propExpr(rng, World{}, false, rng.range(1, 3));
                std::vector<size_t> operands;
                for (size_t i = 0; i < a.size(); ++i) { char* e = nullptr; std::strtod(a[i].c_str(), &e); if (*e == 0 || a[i] == "FOPR" || a[i] == "FWPR") operands.push_back(i); }
                if (operands.empty()) continue;
                a[operands[rng.below(operands.size())]] = rng.pick(Strs{ "*", "/", "^", "<", "==", "UADD", "UMIN" });
                bool threw = false;
                try { KeywordLocation loc; UDQDefine def(env.udqp, "FUX", 0, loc, a); } catch (const std::exception&) { threw = true; }
                if (threw) { log.ok(); ++stats["operand_required"]; }
                else failOnce("operator-as-operand", "DEFINE FUX " + joinStrs(a) + " : accepted");
            }
        }
        // (f) the static type check must not depend on parentheses that do not change the tree:
        //     `a o b o c` and `(a o b) o c` are the same expression and must be accepted or
        //     rejected alike (default input error actions).
        {
            UDQParams udqp;
            const std::vector<Strs> leaves = { { "WOPR" }, { "GOPR" }, { "FOPR" }, { "1" }, { "WOPR", "P1" }, { "2.5" } };
            auto accepted = [&](const std::string& key, const Strs& deck) {
                try { KeywordLocation loc; ParseContext pc; ErrorGuard errors; UDQDefine def(udqp, key, 0, loc, deck, pc, errors); bool e = static_cast<bool>(errors); errors.clear(); return !e; }
                catch (const std::exception&) { return false; }
            };
            int n = thorough ? 600 : 150;
            for (int k = 0; k < n; ++k) {
                std::string key = rng.pick(Strs{ "FUX", "WUX", "GUX" });
                Strs A = rng.pick(leaves), B = rng.pick(leaves), C = rng.pick(leaves);
                std::string o1 = rng.pick(Strs{ "+", "-", "*", "/" });
                std::string o2 = (o1 == "+" || o1 == "-") ? rng.pick(Strs{ "+", "-" }) : rng.pick(Strs{ "*", "/" });
                Strs flat, par = { "(" };
                auto cat = [](Strs& a, const Strs& b) { a.insert(a.end(), b.begin(), b.end()); };
                cat(flat, A); flat.push_back(o1); cat(flat, B); flat.push_back(o2); cat(flat, C);
                cat(par, A); par.push_back(o1); cat(par, B); par.push_back(")"); par.push_back(o2); cat(par, C);
                bool x = accepted(key, flat), y = accepted(key, par);
                if (x == y) { log.ok(); ++stats["type_check_paren_invariant"]; }
                else failOnce("chain-type-check", "DEFINE " + key + " " + joinStrs(flat) + " is " + (x ? "accepted" : "rejected") + " but DEFINE " + key + " " + joinStrs(par) + " (the same tree) is " + (y ? "accepted" : "rejected"));
            }
        }
        // (g) tokenisation does not depend on how the record is cut into deck items: operators and
        //     parentheses written without blanks around them give the same tokens
        {
            World w0 = makeWorld(rng, false);
            int n = thorough ? 1500 : 400;
            for (int k = 0; k < n; ++k) {
                Strs toks = lexExpr(rng, w0);
                Strs glued = glueItems(rng, toks, rng.range(1, 3), 3);
                bool u1, o1, u2, o2;
                std::string a = defineTokens(toks, u1, o1), b = defineTokens(glued, u2, o2);
                if (o1 || o2) { ++stats["lex_glue.skipped"]; continue; }
                if (a == b && u1 == u2) { log.ok(); ++stats["lex_glue"]; }
                else failOnce("token-glue", "items [" + joinStrs(toks) + "] and [" + joinStrs(glued) + "] give different tokens");
            }
        }
        // (h) malformed records must end in an exception, not in a signal (run in a child process)
        {
            UDQParams udqp;
            const std::vector<Strs> decks = { { "TU_FBHP", "[", "FOPR" }, { "TU_FBHP[FOPR" }, { "1", "+", "TU_X", "[", "WOPR" }, { "TU_X" }, { "2", "*", "TUX" } };
            for (const Strs& deck : decks) {
                int rc = runIsolated([&]() { KeywordLocation loc; ParseContext pc; ErrorGuard errors; UDQDefine def(udqp, "FUX", 0, loc, deck, pc, errors); errors.clear(); });
                if (rc >= 0) { log.ok(); ++stats["isolated"]; }
                else failOnce("table-lookup-unterminated", "DEFINE FUX " + joinStrs(deck) + " : the UDQDefine constructor died with signal " + std::to_string(-rc) + " (make_udq_tokens reads past the end of the token vector when ']' is missing)");
            }
            // well-formed look-ups and ordinary malformed records for comparison
            for (const Strs& deck : { Strs{ "TU_FBHP", "[", "FOPR", "]" }, Strs{ "1", "+" }, Strs{ "(", "(" }, Strs{ "'P1" } }) {
                int rc = runIsolated([&]() { KeywordLocation loc; ParseContext pc; ErrorGuard errors; UDQDefine def(udqp, "FUX", 0, loc, deck, pc, errors); errors.clear(); });
                if (rc >= 0) { log.ok(); ++stats["isolated"]; }
                else log.fail("define-signal", "DEFINE FUX " + joinStrs(deck) + " : signal " + std::to_string(-rc));
            }
        }
        std::ofstream f(outdir + "/prop_stats.json");
        f << "{\n  \"checked\": " << log.checked << ",\n  \"failed\": " << log.failed;
        for (auto& kv : stats) f << ",\n  \"" << kv.first << "\": " << kv.second;
        f << "\n}\n";
        return 0;
    }
    std::cerr << "unknown mode\n";
    return 2;
}
