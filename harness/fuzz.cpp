// C20 harness: "a result or a std::exception, never a crash" on mutated inputs.
//
//   fuzz prop <seed> <tier> <outdir> [--only decks|files] [--replay <file> decks|files]
//
// Every input is written to <outdir>/current_input.{DATA,bin} *before* the real code sees it,
// so that when the process dies (signal, sanitizer abort, alarm timeout) the check can pick the
// killing input up as the replay.  Outcomes counted: returned / std::exception.  Anything else
// (non-std exception) is a FAIL line.
#include "common/vh.hpp"

#include <opm/input/eclipse/Parser/Parser.hpp>
#include <opm/input/eclipse/Parser/ParseContext.hpp>
#include <opm/input/eclipse/Parser/ErrorGuard.hpp>
#include <opm/input/eclipse/Parser/InputErrorAction.hpp>
#include <opm/input/eclipse/Deck/Deck.hpp>
#include <opm/input/eclipse/EclipseState/EclipseState.hpp>
#include <opm/input/eclipse/EclipseState/SummaryConfig/SummaryConfig.hpp>
#include <opm/input/eclipse/Schedule/Schedule.hpp>
#include <opm/input/eclipse/Python/Python.hpp>
#include <opm/common/OpmLog/OpmLog.hpp>

#include <opm/io/eclipse/EclFile.hpp>
#include <opm/io/eclipse/EclOutput.hpp>
#include <opm/io/eclipse/ERst.hpp>
#include <opm/io/eclipse/ESmry.hpp>
#include <opm/io/eclipse/ExtESmry.hpp>
#include <opm/io/eclipse/OutputStream.hpp>
#include <opm/common/utility/TimeService.hpp>

#include <unistd.h>
#include <sys/resource.h>
#include <csignal>
#include <filesystem>
#include <iostream>
#include <memory>

namespace fs = std::filesystem;
using namespace Opm;

namespace {

std::string g_outdir;
std::map<std::string, long> g_stats;

enum class Outcome { Returned, StdException, Other };

Outcome runDeck(const std::string& text, std::string& stage, bool lenient = false) {
    try {
        stage = "parse";
        Parser parser;
        ParseContext ctx = lenient ? ParseContext(InputErrorAction::IGNORE) : ParseContext();   // default or all-ignore policies
        // the one policy that is EXIT1 by default (documented process exit on a missing INCLUDE
        // file) is turned into an exception so that the run can continue; see DESIGN.md C20
        if (!lenient) ctx.update(ParseContext::PARSE_MISSING_INCLUDE, InputErrorAction::THROW_EXCEPTION);
        ErrorGuard errors;
        Deck deck = text.rfind("@PARSEFILE ", 0) == 0 ? parser.parseFile(text.substr(11), ctx, errors)
                                                       : parser.parseString(text, ctx, errors);
        errors.clear();
        stage = "eclipsestate";
        EclipseState es(deck);
        stage = "schedule";
        Schedule sched(deck, es, ctx, errors, std::make_shared<Python>());
        errors.clear();
        stage = "summaryconfig";
        SummaryConfig sc(deck, sched, es.fieldProps(), es.aquifer(), ctx, errors);
        errors.clear();
        stage = "done";
        return Outcome::Returned;
    } catch (const std::exception&) {
        return Outcome::StdException;
    } catch (...) {
        return Outcome::Other;
    }
}

Outcome runFile(const std::string& path, bool formatted, int kind, std::string& stage) {
    try {
        stage = "eclfile";
        {
            EclIO::EclFile f(path, EclIO::EclFile::Formatted{ formatted });
            f.loadData();
            for (size_t i = 0; i < f.size(); ++i) { auto l = f.getList(); (void) l; }
        }
        if (kind == 1) { stage = "erst"; EclIO::ERst r(path); for (int s : r.listOfReportStepNumbers()) { r.loadReportStepNumber(s); (void) r.listOfRstArrays(s); } }
        stage = "done";
        return Outcome::Returned;
    } catch (const std::exception&) {
        return Outcome::StdException;
    } catch (...) {
        return Outcome::Other;
    }
}

// summary result files: SMSPEC + UNSMRY through ESmry (whole and per-vector load paths), the
// converted ESMRY through ExtESmry
Outcome runSummary(const std::string& dir, bool esmry, std::string& stage) {
    try {
        if (!esmry) {
            stage = "esmry";
            EclIO::ESmry s(dir + "/CASE.SMSPEC", false);
            (void) s.numberOfTimeSteps();
            const auto keys = s.keywordList();
            if (!keys.empty()) (void) s.get(keys.front());
            s.loadData();
            for (const auto& k : keys) (void) s.get(k).size();
            (void) s.dates();
        } else {
            stage = "extesmry";
            EclIO::ExtESmry s(dir + "/CASE.ESMRY", false);
            const auto keys = s.keywordList();
            if (!keys.empty()) (void) s.get(keys.front());
            s.loadData();
            for (const auto& k : keys) (void) s.get(k).size();
            (void) s.dates();
        }
        stage = "done";
        return Outcome::Returned;
    } catch (const std::exception&) {
        return Outcome::StdException;
    } catch (...) {
        return Outcome::Other;
    }
}

void writeSmspec(vh::Rng& r, const std::string& dir, int nvec) {
    namespace OS = EclIO::OutputStream;
    for (auto& e : fs::directory_iterator(dir)) fs::remove_all(e.path());
    OS::ResultSet rs{ dir, "CASE" };
    OS::SummarySpecification::Parameters prm;
    prm.add("TIME", ":+:+:+:+", 0, "DAYS");
    for (int i = 1; i < nvec; ++i) { char b[16]; std::snprintf(b, sizeof b, "W%05d", i); prm.add(r.coin() ? "WBHP" : "WOPR", b, 0, "BARSA"); }
    OS::SummarySpecification spec(rs, OS::Formatted{ false }, OS::SummarySpecification::UnitConvention::Metric, { 10, 10, 3 },
                                  OS::SummarySpecification::RestartSpecification{ "", -1 },
                                  Opm::TimeService::from_time_t(Opm::asTimeT(Opm::TimeStampUTC(Opm::TimeStampUTC::YMD{ 2019, 10, 1 }))));
    spec.write(prm);
}
std::string be32(int v) { std::string s(4, '\0'); for (int k = 0; k < 4; ++k) s[k] = (char) ((((unsigned) v) >> (8 * (3 - k))) & 0xff); return s; }
std::string rawHeader(const char* name8, int n, const char* type4) { return be32(16) + std::string(name8, 8) + be32(n) + std::string(type4, 4) + be32(16); }

void makeSummaryRun(vh::Rng& r, const std::string& dir) {
    namespace OS = EclIO::OutputStream;
    for (auto& e : fs::directory_iterator(dir)) fs::remove_all(e.path());
    OS::ResultSet rs{ dir, "CASE" };
    const int nvec = r.pick(std::vector<int>{ 1, 2, 5, 40, 1001 });
    {
        OS::SummarySpecification::Parameters prm;
        prm.add("TIME", ":+:+:+:+", 0, "DAYS");
        for (int i = 1; i < nvec; ++i) { char b[16]; std::snprintf(b, sizeof b, "W%05d", i); prm.add(r.coin() ? "WBHP" : "WOPR", b, 0, "BARSA"); }
        OS::SummarySpecification spec(rs, OS::Formatted{ false }, OS::SummarySpecification::UnitConvention::Metric, { 10, 10, 3 },
                                      OS::SummarySpecification::RestartSpecification{ "", -1 },
                                      Opm::TimeService::from_time_t(Opm::asTimeT(Opm::TimeStampUTC(Opm::TimeStampUTC::YMD{ 2019, 10, 1 }))));
        spec.write(prm);
    }
    auto stream = OS::createSummaryFile(rs, 1, OS::Formatted{ false }, OS::Unified{ true });
    int nstep = r.range(1, 6), seq = 0, prev = -1;
    for (int st = 0; st < nstep; ++st) {
        if (st == 0 || r.coin()) ++seq;
        if (prev < seq) { stream->write("SEQHDR", std::vector<int>{ seq }); prev = seq; }
        stream->write("MINISTEP", std::vector<int>{ st });
        std::vector<float> p(nvec); for (auto& v : p) v = (float) (r.unit() * 1000); p[0] = (float) (st + 1);
        stream->write("PARAMS", p);
    }
}

// ---- mutation ----------------------------------------------------------------------------

std::vector<std::string> splitLines(const std::string& s) {
    std::vector<std::string> ls; size_t p = 0;
    while (p <= s.size()) { size_t e = s.find('\n', p); if (e == std::string::npos) { ls.push_back(s.substr(p)); break; } ls.push_back(s.substr(p, e - p)); p = e + 1; }
    return ls;
}
std::string joinLines(const std::vector<std::string>& ls) { std::string o; for (auto& l : ls) { o += l; o += '\n'; } return o; }

const std::vector<std::string> tokenPool = { "/", "*", "1*", "3*", "2*5", "-1", "0", "1", "1e400", "-1e-400", "1.5D3", "'", "''", "'A B'", "--", "1*'X'", "999999999999", "0.0", "NaN", "inf", "WELL*", "?", "(", ")", "^", "AND", "OR", ">", "INCLUDE", "END", "ENDBOX", "/ /", "\t", "1,2", ",", "+", "-", "*2", "2*", "0*", "-2*3", "4294967296*1" };
const std::vector<std::string> keywordPool = { "RUNSPEC", "GRID", "EDIT", "PROPS", "REGIONS", "SOLUTION", "SUMMARY", "SCHEDULE", "DIMENS", "TABDIMS", "WELLDIMS", "EQLDIMS", "DX", "PORO", "PERMX", "ACTNUM", "BOX", "ENDBOX", "EQUALS", "MULTIPLY", "COPY", "ADD", "OPERATE", "PVTO", "PVDG", "PVTW", "SWOF", "SGOF", "EQUIL", "WELSPECS", "COMPDAT", "WCONPROD", "WCONINJE", "WELOPEN", "TSTEP", "DATES", "UDQ", "ACTIONX", "ENDACTIO", "GRUPTREE", "WSEGVALV", "WELSEGS", "COMPSEGS", "VFPPROD", "TITLE", "START", "INCLUDE", "SKIPREST", "RESTART", "WLIST", "GCONPROD", "WTEST", "RPTRST", "TUNING", "NEXTSTEP", "FOPR", "WOPR", "BPR", "ROPR", "ALL", "COORD", "ZCORN", "MAPAXES", "PINCH", "MINPV", "FAULTS", "MULTFLT", "NNC", "EDITNNC", "AQUCT", "AQUANCON", "THPRES", "ENDSCALE", "SWL", "SATNUM", "FIPNUM", "OIL", "WATER", "GAS", "DISGAS", "METRIC", "FIELD", "LAB" };

std::string mutateDeck(const std::string& base, const std::vector<std::string>& corpus, vh::Rng& r, std::string& kinds) {
    std::string text = base;
    int nmut = r.coin(3, 5) ? 1 : (r.coin(5, 8) ? 2 : r.range(3, 4));
    for (int m = 0; m < nmut; ++m) {
        auto lines = splitLines(text);
        if (lines.empty()) lines.push_back("");
        int which = r.range(0, 10);
        size_t li = r.below(lines.size());
        switch (which) {
        case 0: { // token delete
            auto& l = lines[li]; std::istringstream is(l); std::vector<std::string> t; std::string w; while (is >> w) t.push_back(w);
            if (!t.empty()) { t.erase(t.begin() + r.below(t.size())); l.clear(); for (auto& x : t) { l += x; l += ' '; } } kinds += "tokdel,"; break; }
        case 1: { // token insert
            auto& l = lines[li]; std::istringstream is(l); std::vector<std::string> t; std::string w; while (is >> w) t.push_back(w);
            t.insert(t.begin() + r.below(t.size() + 1), r.pick(tokenPool)); l.clear(); for (auto& x : t) { l += x; l += ' '; } kinds += "tokins,"; break; }
        case 2: { // token replace
            auto& l = lines[li]; std::istringstream is(l); std::vector<std::string> t; std::string w; while (is >> w) t.push_back(w);
            if (!t.empty()) t[r.below(t.size())] = r.coin() ? r.pick(tokenPool) : r.pick(keywordPool); l.clear(); for (auto& x : t) { l += x; l += ' '; } kinds += "tokrep,"; break; }
        case 3: lines.insert(lines.begin() + li, lines[li]); kinds += "linedup,"; break;
        case 4: lines.erase(lines.begin() + li); kinds += "linedrop,"; break;
        case 5: { // splice a chunk of another deck
            const auto& other = r.pick(corpus); auto ol = splitLines(other);
            size_t a = r.below(ol.size()), n = 1 + r.below(std::min<size_t>(30, ol.size() - a));
            lines.insert(lines.begin() + li, ol.begin() + a, ol.begin() + a + n); kinds += "splice,"; break; }
        case 6: { // raw byte flips
            text = joinLines(lines); int nf = r.range(1, 4);
            for (int k = 0; k < nf && !text.empty(); ++k) text[r.below(text.size())] = (char) r.below(256);
            kinds += "byteflip,"; continue; }
        case 7: { // truncate
            text = joinLines(lines); if (!text.empty()) text.resize(r.below(text.size())); kinds += "truncate,"; continue; }
        case 8: lines.insert(lines.begin() + li, r.pick(keywordPool)); kinds += "kwins,"; break;
        case 10: { // a keyword whose record lost its items (what token deletion leaves of it)
            std::string kw = r.coin(1, 3) ? r.pick(std::vector<std::string>{ "INCLUDE", "PATHS", "IMPORT", "TITLE", "START", "SKIP", "ENDSKIP", "ENDINC", "END" }) : r.pick(keywordPool);
            std::vector<std::string> snip = { kw };
            switch (r.range(0, 4)) {
            case 0: snip.push_back("/"); break;
            case 1: snip.push_back("/"); snip.push_back("/"); break;
            case 2: snip.push_back(" " + r.pick(tokenPool) + " /"); break;
            case 3: snip.push_back(" 'A' /"); snip.push_back("/"); break;
            default: break;      // the bare keyword
            }
            lines.insert(lines.begin() + li, snip.begin(), snip.end()); kinds += "emptied,"; break; }
        case 9: { // swap two lines
            size_t lj = r.below(lines.size()); std::swap(lines[li], lines[lj]); kinds += "lineswap,"; break; }
        }
        text = joinLines(lines);
    }
    return text;
}

std::string makeResultFile(vh::Rng& r, const std::string& path, bool formatted, int kind) {
    // kind 0: generic arrays, kind 1: unified-restart shaped
    {
        EclIO::EclOutput out(path, formatted, std::ios::out);
        int nsteps = kind == 1 ? r.range(1, 3) : 1;
        for (int s = 0; s < nsteps; ++s) {
            if (kind == 1) out.write("SEQNUM", std::vector<int>{ s + 1 });
            int na = r.range(1, 5);
            for (int i = 0; i < na; ++i) {
                int t = r.range(0, 5); size_t n = r.coin(1, 5) ? 0 : r.below(30) + (r.coin(1, 10) ? 1000 : 0);
                std::string nm = r.pick(std::vector<std::string>{ "INTEHEAD", "PRESSURE", "LOGIHEAD", "DOUBHEAD", "ZWEL", "LGR", "ENDLGR", "LGRNAMES", "SWAT" });
                switch (t) {
                case 0: { std::vector<int> v(n); for (auto& x : v) x = (int) r.next(); out.write(nm, v); break; }
                case 1: { std::vector<float> v(n); for (auto& x : v) x = (float) (r.unit() * 1000); out.write(nm, v); break; }
                case 2: { std::vector<double> v(n); for (auto& x : v) x = r.unit() * 1e6 - 5e5; out.write(nm, v); break; }
                case 3: { std::vector<bool> v(n); for (size_t k = 0; k < n; ++k) v[k] = r.coin(); out.write(nm, v); break; }
                case 4: { std::vector<std::string> v(n); for (auto& x : v) x = "W" + std::to_string(r.below(999)); out.write(nm, v); break; }
                case 5: { std::vector<std::string> v(n); for (auto& x : v) x = "LONGNAME" + std::to_string(r.below(99999)); out.write(nm, v, 16); break; }
                }
            }
        }
    }
    return vh::slurp(path);
}

std::string mutateBytes(std::string b, vh::Rng& r, bool formatted, std::string& kinds) {
    int nmut = r.range(1, 3);
    for (int m = 0; m < nmut; ++m) {
        int which = r.range(0, 5);
        if (b.empty()) { b = std::string(r.range(1, 40), (char) r.below(256)); kinds += "random,"; continue; }
        switch (which) {
        case 0: b.resize(r.below(b.size())); kinds += "truncate,"; break;
        case 1: b[r.below(b.size())] = (char) r.below(256); kinds += "byteflip,"; break;
        case 2: { // header-directed: corrupt one of the header fields of some array
            size_t p = r.below(b.size());
            if (formatted) { size_t q = b.find('\'', p); if (q != std::string::npos && q + 1 < b.size()) b[q + 1 + r.below(std::min<size_t>(28, b.size() - q - 1))] = r.pick(std::vector<char>{ '0', '9', '-', 'C', 'X', ' ', '\'', 'I' }); }
            else { size_t off = r.pick(std::vector<size_t>{ 0, 3, 12, 13, 14, 15, 16, 17, 18, 19, 20, 23 }); if (off < b.size()) b[off] = (char) r.pick(std::vector<int>{ 0, 1, 16, 0x30, 0x43, 0x58, 0x7f, 0x80, 0xff }); }
            kinds += "header,"; break; }
        case 3: { size_t a = r.below(b.size()), n = r.below(std::min<size_t>(64, b.size() - a) + 1); b.erase(a, n); kinds += "cut,"; break; }
        case 4: { size_t a = r.below(b.size()), n = r.below(std::min<size_t>(64, b.size() - a) + 1); b.insert(r.below(b.size()), b.substr(a, n)); kinds += "dup,"; break; }
        case 5: b += std::string(r.range(1, 30), (char) r.below(256)); kinds += "append,"; break;
        }
    }
    return b;
}

// a summary run whose UNSMRY holds the arrays named by `letters` (S = SEQHDR, M = MINISTEP, P = PARAMS): mostly
// well-formed [S] (M P [S])* with a few edits; empty = nothing written (an empty data file is rejected in front of the scan)
std::string makeScanCase(vh::Rng& rng, const std::string& sdir) {
    // mostly well-formed [S] (M P [S])*, then a few edits
    std::string letters;
    if (rng.coin()) letters += 'S';
    int steps = rng.range(0, 4);
    for (int k = 0; k < steps; ++k) { letters += "MP"; if (rng.coin()) letters += 'S'; }
    int edits = rng.pick(std::vector<int>{ 0, 0, 1, 1, 2 });
    for (int e = 0; e < edits; ++e) {
        int what = rng.range(0, 2); size_t pos = letters.empty() ? 0 : rng.below(letters.size() + 1);
        if (what == 0 || letters.empty()) letters.insert(pos, 1, "SMP"[rng.range(0, 2)]);
        else if (what == 1) letters.erase(std::min(pos, letters.size() - 1), 1);
        else letters[std::min(pos, letters.size() - 1)] = "SMP"[rng.range(0, 2)];
    }
    if (letters.empty()) return letters;       // an empty data file is rejected by getListOfArrays, in front of the scan
    const int nvec = 3;
    writeSmspec(rng, sdir, nvec);
    {
        EclIO::EclOutput out(sdir + "/CASE.UNSMRY", false);
        int seq = 0, mini = 0; float t = 0;
        for (char c : letters) {
            if (c == 'S') out.write("SEQHDR", std::vector<int>{ ++seq });
            else if (c == 'M') out.write("MINISTEP", std::vector<int>{ mini++ });
            else { out.write("PARAMS", std::vector<float>{ t, 1.0f, 2.0f }); t += 1; }
        }
    }
    return letters;
}
// a one-step summary run whose PARAMS record is cut into blocks with edited length words; returns the model op
std::string makeBlocksCase(vh::Rng& rng, const std::string& sdir) {
    const int nParams = rng.pick(std::vector<int>{ 1, 3, 999, 1000, 1001, 1500, 2000, 2500 });
    // canonical split, then edits of the length words
    std::vector<int> heads;
    for (int rest = nParams; rest > 0; rest -= 1000) heads.push_back(std::min(rest, 1000));
    int edits = rng.pick(std::vector<int>{ 0, 1, 1, 2 });
    for (int e = 0; e < edits; ++e) {
        size_t pos = rng.below(heads.size());
        switch (rng.range(0, 5)) {
        case 0: heads[pos] = 1000; break;
        case 1: heads[pos] = rng.range(0, 1000); break;
        case 2: heads[pos] = rng.pick(std::vector<int>{ 1001, 2000, -1, -1000, 0 }); break;
        case 3: heads.insert(heads.begin() + pos, rng.pick(std::vector<int>{ 1000, 1, 500 })); break;
        case 4: if (heads.size() > 1) heads.erase(heads.begin() + pos); break;
        default: heads[pos] = std::max(0, heads[pos] - 1); break;
        }
    }
    // bytes of the blocks the reader will walk: length word, data, length word; never longer than the
    // canonical record (a following header would be read from the surplus), padded with zero words
    const long expect = 4L * nParams + 8L * ((nParams + 999) / 1000);
    std::string blocks; std::vector<int> used;
    for (int h : heads) {
        long need = 8 + 4L * std::max(h, 0);
        if ((long) blocks.size() + need > expect) break;
        blocks += be32(4 * h); blocks += std::string(4 * (size_t) std::max(h, 0), '\0'); blocks += be32(4 * h);
        used.push_back(h);
    }
    // a length word that did not fit is still seen by the reader when 4 bytes are left
    if (used.size() < heads.size() && (long) blocks.size() + 4 <= expect) { blocks += be32(4 * heads[used.size()]); used.push_back(heads[used.size()]); }
    const long pad = expect - (long) blocks.size();
    blocks += std::string((size_t) pad, '\0');
    writeSmspec(rng, sdir, nParams);
    std::string file = rawHeader("SEQHDR  ", 1, "INTE") + be32(4) + be32(1) + be32(4)
                     + rawHeader("MINISTEP", 1, "INTE") + be32(4) + be32(0) + be32(4)
                     + rawHeader("PARAMS  ", nParams, "REAL") + blocks;
    vh::spit(sdir + "/CASE.UNSMRY", file);
    std::string op = "esmryscan.blocks 1000 " + std::to_string(nParams);
    for (int h : used) op += " " + std::to_string(h);
    for (long z = 0; z < std::min(pad / 4, 4L); ++z) op += " 0";
    // (a reader that runs off the end of the file is not compared: the length word is then unspecified)
    return op;
}

void onAlarm(int) { const char msg[] = "\nVERIF-TIMEOUT\n"; (void) !write(2, msg, sizeof msg - 1); _exit(124); }

} // namespace

int main(int argc, char** argv) {
    if (argc < 5) { std::cerr << "usage: fuzz prop <seed> <tier> <outdir> [--only decks|files] [--replay <file> decks|files]\n"; return 2; }
    const uint64_t seed = std::strtoull(argv[2], nullptr, 10);
    const std::string tier = argv[3];
    g_outdir = argv[4];
    std::string only, replayFile, replayKind;
    for (int i = 5; i < argc; ++i) {
        std::string a = argv[i];
        if (a == "--only" && i + 1 < argc) only = argv[++i];
        if (a == "--replay" && i + 2 < argc) { replayFile = argv[++i]; replayKind = argv[++i]; }
    }
#ifdef VERIF_ASAN
    only = "decks";
#endif
    fs::create_directories(g_outdir + "/tmp");
    std::signal(SIGALRM, onAlarm);
    {   // a machine with finite memory: a header announcing 10^9 elements must end in
        // std::bad_alloc (an exception), not in minutes of page faults
#ifndef VERIF_ASAN
        struct rlimit rl; rl.rlim_cur = rl.rlim_max = 4ull << 30; setrlimit(RLIMIT_AS, &rl);
#endif
        // (the AddressSanitizer build reserves terabytes of shadow memory: no address-space limit
        // there; it runs the deck part only, where no input can ask for gigabytes)
    }
    OpmLog::removeAllBackends();
    vh::Rng rng(seed);
    const std::string repo = std::getenv("VERIF_REPO") ? std::getenv("VERIF_REPO") : "/repo";

    if (!replayFile.empty()) {
        std::string stage;
        Outcome o;
        if (replayKind == "decks") { fs::current_path(repo + "/tests"); o = runDeck(vh::slurp(replayFile), stage); }
        else { std::string p = g_outdir + "/tmp/REPLAY.UNRST"; vh::spit(p, vh::slurp(replayFile)); o = runFile(p, false, 1, stage); }
        std::cout << "replay outcome: " << (o == Outcome::Returned ? "returned" : o == Outcome::StdException ? "std::exception" : "OTHER") << " at stage " << stage << "\n";
        return o == Outcome::Other ? 1 : 0;
    }

    if (std::string(argv[1]) == "corr") {
        // mutated unformatted files: verdict and array count of the real EclFile vs the model
        vh::Sink sink(g_outdir);
        int n = tier == "thorough" ? 4000 : 600;
        for (int i = 0; i < n; ++i) {
            std::string path = g_outdir + "/tmp/C.UNRST";
            std::string bytes = makeResultFile(rng, path, false, rng.range(0, 1));
            std::string kinds;
            if (i % 8 != 0) bytes = mutateBytes(bytes, rng, false, kinds);
            if (bytes.size() > 20000) continue;
            vh::spit(g_outdir + "/current_input.bin", bytes);
            vh::spit(path, bytes);
            std::string ans;
            try { EclIO::EclFile f(path, EclIO::EclFile::Formatted{ false }); f.loadData(); ans = "ok " + std::to_string(f.size()); }
            catch (const std::exception&) { ans = "err"; }
            sink.emit("eclbin.count " + vh::hex(bytes), ans);
            sink.count(ans == "err" ? "verdict.err" : "verdict.ok");
            std::istringstream ks(kinds); std::string k; while (std::getline(ks, k, ',')) if (!k.empty()) sink.count("mutation." + k);
        }
        // summary data files: the time-step scan of the ESmry constructor over arbitrary lists of arrays,
        // and the PARAMS block reader of ESmry::loadData() over arbitrary length words (Model/ESmryScan.lean)
        {
            const std::string sdir = g_outdir + "/tmp/scan";
            fs::create_directories(sdir);
            const int ns = tier == "thorough" ? 3000 : 400;
            for (int i = 0; i < ns; ++i) {
                const std::string letters = makeScanCase(rng, sdir);
                if (letters.empty()) continue;
                std::string ans;
                try {
                    EclIO::ESmry sm(sdir + "/CASE.SMSPEC", false);
                    ans = "ok " + std::to_string(sm.numberOfTimeSteps()) + " seq=";
                    const auto at = sm.get_at_rstep("TIME");
                    for (size_t k = 0; k < at.size(); ++k) ans += (k ? "," : "") + std::to_string((long) at[k]);
                } catch (const std::exception&) { ans = "err"; }
                sink.emit("esmryscan.scan 0 2147483647 " + letters, ans);
                sink.count(ans == "err" ? "scan.err" : "scan.ok");
            }
            const int nb = tier == "thorough" ? 1500 : 250;
            for (int i = 0; i < nb; ++i) {
                const std::string op = makeBlocksCase(rng, sdir);
                std::string ans;
                try { EclIO::ESmry sm(sdir + "/CASE.SMSPEC", false); sm.loadData(); ans = "ok"; }
                catch (const std::exception&) { ans = "err"; }
                sink.emit(op, ans);
                sink.count(ans == "err" ? "blocks.err" : "blocks.ok");
            }
        }
        sink.writeStats(g_outdir + "/stats.json");
        return 0;
    }

    vh::PropLog log(g_outdir + "/prop.txt");
    long ndecks = 0, nfiles = 0;

    if (only.empty() || only == "decks") {
        // corpus: shipped decks (small ones) + tiny generated skeleton
        std::vector<std::string> corpus;
        for (auto name : { "SPE1CASE1.DATA", "SPE1CASE2.DATA", "ACTIONX_M1.DATA", "UDQ_ACTIONX.DATA", "MSW.DATA", "TEST_WLIST.DATA", "SUMMARY_EFF_FAC.DATA", "SOFR_TEST.DATA", "BASE_SIM.DATA", "SPE1CASE1_SUMTHIN.DATA", "FIRST_SIM_THPRES.DATA", "MSW_2WELSEGS.DATA" }) {
            std::string p = repo + "/tests/" + name;
            if (fs::exists(p)) corpus.push_back(vh::slurp(p));
        }
        if (corpus.empty()) { log.fail("setup.no-corpus", "no shipped decks found under " + repo + "/tests"); }
        fs::current_path(repo + "/tests");      // INCLUDE paths of the shipped decks are relative
        // fixed probes, run at every seed: keywords read by the parser itself (INCLUDE, PATHS, …)
        // and a few ordinary ones with their record emptied, in front of and inside a deck
        std::vector<std::string> fixedDecks;
        for (auto kw : { "INCLUDE", "PATHS", "IMPORT", "TITLE", "START", "DIMENS", "WELSPECS", "EQUALS", "SKIP", "ENDINC", "UDQ", "ACTIONX", "PYACTION", "TSTEP",
                         // keywords the grid / state constructors index without looking at the record (MAPAXES with an empty record: MapAxes.cpp)
                         "MAPAXES", "MAPUNITS", "GRIDUNIT", "GDORIENT", "SPECGRID", "COORD", "ZCORN", "ACTNUM", "PINCH", "MINPV", "NNC", "FAULTS", "MULTFLT",
                         "TOPS", "DXV", "DEPTHZ", "RADIAL", "EQLDIMS", "TABDIMS", "REGDIMS", "ENDSCALE", "SATOPTS", "AQUDIMS", "WELLDIMS", "UDQDIMS", "ACTDIMS" })
            for (auto tail : { "\n/\n", "\n/\n/\n", "\n", " /\n", "\n 'A' /\n/\n", "\n 1* /\n" }) {
                fixedDecks.push_back(std::string(kw) + tail);
                fixedDecks.push_back("RUNSPEC\nDIMENS\n 2 2 1 /\nGRID\n" + std::string(kw) + tail + "PORO\n 4*0.3 /\nSCHEDULE\n" + std::string(kw) + tail);
                // inside the GRID section of a deck that is complete otherwise (the constructors get as far as the keyword)
                fixedDecks.push_back("RUNSPEC\nDIMENS\n 2 2 1 /\nOIL\nWATER\nGRID\nDX\n 4*1 /\nDY\n 4*1 /\nDZ\n 4*1 /\nTOPS\n 4*1000 /\n" + std::string(kw) + tail
                                     + "PORO\n 4*0.3 /\nPERMX\n 4*1 /\nPROPS\nSOLUTION\nSCHEDULE\n");
            }
        // nested INCLUDE chains of tiny files (the text of every loaded file must stay alive and
        // in place while files further down the chain are loaded): depth 1..12, three file shapes
        {
            const std::string inc = g_outdir + "/tmp/inc";
            fs::create_directories(inc);
            int di = 0;
            for (int depth : { 1, 2, 3, 4, 5, 8, 9, 12 }) {
                for (int shape = 0; shape < 3; ++shape) {
                    // three-character file names: an intermediate file of shape 0 is 14 bytes long
                    std::string tag = std::string(1, (char) ('a' + shape)) + std::string(1, (char) ('A' + di));
                    auto nm = [&](int k) { return tag + std::string(1, (char) ('a' + k)); };
                    for (int k = 0; k <= depth; ++k) {
                        std::string body = shape == 0 ? "INCLUDE\n" + nm(k + 1) + " /\n"
                                         : shape == 1 ? "INCLUDE\n" + nm(k + 1) + " /\nOIL\n"
                                         : "-- a comment line long enough to leave the small-string buffer\nINCLUDE\n '" + nm(k + 1) + "' /\nWATER\n";
                        if (k == depth) body = "OIL\n";
                        if (k == 0) body = "RUNSPEC\n" + body + "DIMENS\n 2 2 1 /\nGRID\nSCHEDULE\n";
                        vh::spit(inc + "/" + nm(k), body);
                    }
                    fixedDecks.push_back("@PARSEFILE " + inc + "/" + nm(0));
                }
                ++di;
            }
        }
        g_stats["deck.fixed_probes"] = (long) fixedDecks.size();
        int n = (tier == "thorough" ? 6000 : 500) + (int) fixedDecks.size();
        for (int i = 0; i < n && !corpus.empty(); ++i) {
            std::string kinds;
            const std::string& base = corpus[rng.below(corpus.size())];
            std::string text = (i < (int) fixedDecks.size()) ? fixedDecks[i]
                             : (i < (int) (fixedDecks.size() + corpus.size())) ? corpus[i - fixedDecks.size()] : mutateDeck(base, corpus, rng, kinds);
            if (i < (int) fixedDecks.size()) kinds = "fixed-probe,";
            vh::spit(g_outdir + "/current_input.DATA", text);
            std::string stage;
            alarm(tier == "thorough" ? 120 : 60);
            bool lenient = (i % 2) == 1;
            Outcome o = runDeck(text, stage, lenient);
            alarm(0);
            ++ndecks;
            g_stats[lenient ? "deck.policy.ignore" : "deck.policy.default"]++;
            g_stats[std::string("deck.outcome.") + (o == Outcome::Returned ? "returned" : o == Outcome::StdException ? "exception@" + stage : "other")]++;
            if (o == Outcome::Other) {
                std::string keep = g_outdir + "/nonstd_" + std::to_string(i) + ".DATA"; vh::spit(keep, text);
                log.fail("deck.nonstd-exception." + stage, "input kept at " + keep + " mutations=" + kinds);
            } else log.ok();
        }
    }

    if (only.empty() || only == "files") {
        int n = tier == "thorough" ? 20000 : 2500;
        for (int i = 0; i < n; ++i) {
            bool formatted = rng.coin(1, 3);
            int kind = rng.range(0, 1);
            std::string path = g_outdir + "/tmp/F" + (formatted ? ".FUNRST" : ".UNRST");
            std::string bytes = makeResultFile(rng, path, formatted, kind);
            std::string kinds;
            if (i % 10 != 0) bytes = mutateBytes(bytes, rng, formatted, kinds);
            vh::spit(g_outdir + "/current_input.bin", bytes);
            vh::spit(path, bytes);
            std::string stage;
            alarm(30);
            Outcome o = runFile(path, formatted, kind, stage);
            alarm(0);
            ++nfiles;
            g_stats[std::string(formatted ? "fmtfile" : "binfile") + ".outcome." + (o == Outcome::Returned ? "returned" : o == Outcome::StdException ? "exception@" + stage : "other")]++;
            if (o == Outcome::Other) log.fail(std::string("file.nonstd-exception.") + stage, "mutations=" + kinds); else log.ok();
        }
    }

    if (only.empty() || only == "files") {
        // summary files: a fresh SMSPEC/UNSMRY pair (and its ESMRY conversion), one of the files mutated
        const std::string sdir = g_outdir + "/tmp/smry";
        fs::create_directories(sdir);
        int n = tier == "thorough" ? 4000 : 400;
        for (int i = 0; i < n; ++i) {
            std::string kinds, stage;
            const bool esmry = i % 3 == 2;
            try {
                makeSummaryRun(rng, sdir);
                if (esmry) { EclIO::ESmry s(sdir + "/CASE.SMSPEC", false); s.make_esmry_file(); }
            } catch (const std::exception&) { g_stats["smry.setup-failed"]++; continue; }
            const std::string victim = sdir + (esmry ? "/CASE.ESMRY" : (rng.coin() ? "/CASE.SMSPEC" : "/CASE.UNSMRY"));
            std::string bytes = vh::slurp(victim);
            if (i % 10 != 0) bytes = mutateBytes(bytes, rng, false, kinds);
            vh::spit(g_outdir + "/current_input.bin", bytes);
            vh::spit(victim, bytes);
            alarm(30);
            Outcome o = runSummary(sdir, esmry, stage);
            alarm(0);
            ++nfiles;
            g_stats[std::string(esmry ? "esmryfile" : "smryfile") + ".outcome." + (o == Outcome::Returned ? "returned" : o == Outcome::StdException ? "exception@" + stage : "other")]++;
            if (o == Outcome::Other) log.fail(std::string("summary.nonstd-exception.") + stage, "mutated " + victim + " mutations=" + kinds); else log.ok();
        }
    }

    if (only.empty() || only == "files") {
        // directed summary cases (the generators of the esmryscan correspondence): arbitrary array lists and
        // arbitrary PARAMS length words must end in a result or an exception
        const std::string sdir = g_outdir + "/tmp/scan";
        fs::create_directories(sdir);
        const int n = tier == "thorough" ? 3000 : 300;
        for (int i = 0; i < n; ++i) {
            const bool blocks = i % 2 == 1;
            const std::string what = blocks ? makeBlocksCase(rng, sdir) : makeScanCase(rng, sdir);
            if (what.empty()) continue;
            if (fs::exists(sdir + "/CASE.UNSMRY")) vh::spit(g_outdir + "/current_input.bin", vh::slurp(sdir + "/CASE.UNSMRY"));
            std::string stage; alarm(30);
            Outcome o = runSummary(sdir, false, stage);
            alarm(0); ++nfiles;
            g_stats[std::string(blocks ? "smryblocks" : "smryscan") + ".outcome." + (o == Outcome::Returned ? "returned" : o == Outcome::StdException ? "exception@" + stage : "other")]++;
            if (o == Outcome::Other) log.fail(std::string("summary.nonstd-exception.") + stage, what); else log.ok();
        }
    }

    std::ofstream st(g_outdir + "/prop_stats.json");
    st << "{\n  \"checked\": " << log.checked << ",\n  \"failed\": " << log.failed << ",\n  \"decks\": " << ndecks << ",\n  \"files\": " << nfiles;
    for (auto& kv : g_stats) st << ",\n  \"" << kv.first << "\": " << kv.second;
    st << "\n}\n";
    return 0;
}
